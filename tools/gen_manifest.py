#!/usr/bin/env python3
"""Regenerates /verif/MANIFEST.json from the table below (keeps not_applicable current)."""
import json, os, subprocess
ROOT = os.path.dirname(os.path.dirname(os.path.abspath(__file__)))
checks = []
def add(pid, engine, cat, text, note, tech, ref, thorough=True):
    c = {
        "property_id": pid,
        "quick_cmd": f"./check {pid} --tier quick",
        "evidence_file": f"/verif/evidence/{pid}.json",
        "replay_cmd_template": f"./check {pid} --replay {{path}}",
        "engine": engine,
        "level_claimed": {"category": cat, "text": text, "design_ref": ref},
        "level_note": note,
        "technique": tech,
    }
    if thorough:
        c["thorough_cmd"] = f"./check {pid} --tier thorough"
    checks.append(c)

pico_note = ("Trusted: the harness's reference evaluator and ideal-engine model (mc/pico_mc/src/model.rs, ~200 lines), the 15-function "
             "harness program as representative of #[memo] usage, the small key space (2 keyed sources x 3 values, 1 singleton, 1 tracked map), "
             "LRU capacity 1-2. Bounded by history depth (reported in evidence).")
add("C01", "pico_mc", "model_checking",
    "Explicit-state exploration of the real pico crate: every contract-respecting history of set/remove/singleton/tracked-map/call/retain/GC operations up to the stated depth, from an empty and a warmed database, each replayed on a fresh real Storage; after every call the returned value is compared with a from-scratch evaluation over plain data.",
    pico_note, "bounded exhaustive history enumeration (DFS over operation sequences) on the real code vs reference evaluator", "2/C01")
add("C02", "pico_mc", "model_checking",
    "Same exploration; every body execution the real engine performs is judged by an ideal incremental engine (versions per source, value-versions per node, backdating) - any execution with no changed direct dependency and a cached result is a violation.",
    pico_note, "bounded exhaustive history enumeration on the real code vs ideal-incremental-engine model", "2/C02")
add("C03", "pico_mc", "model_checking",
    "Same exploration with GC/retention/interning alphabets: after every GC the model's closure(LRU within capacity + retained) must be served without re-execution, every reference held from a still-cached result must read its original value, and every reference pico hands out is checked against a quarantining allocator's live-range table before it is dereferenced (deterministic use-after-free oracle).",
    pico_note + " UAF detection covers references the harness or the harness program dereferences, not reads internal to pico (those read 0xDD poison deterministically).",
    "bounded exhaustive history enumeration on the real code + allocator liveness oracle", "2/C03")
add("C04", "pico_mc/keyspace", "exploration",
    "Every ordered pair of a 42-function #[memo] family spanning module, name, 5 parameter-list shapes, 2 return types and function-local scopes is executed (call i, j, i on a fresh database); plus a syn scan of all #[memo] functions in /repo/crates for textually identical signatures, bound to the family's observations.",
    "'All Rust programs' cannot be enumerated; the family spans the dimensions the macro key is computed from. Generic memo functions are not in the family.",
    "exhaustive pairwise execution over a generated function family", "2/C04")
loom_note = ("Trusted: loom 0.7.2's C11 model and DPOR within the preemption bound reported per model; the add-only cfg shim "
             "relay-crates/intern/src/verif_sync.rs (parking_lot/std -> loom); raw slot memory is not tracked by loom; once_cell shard construction is forced before spawning.")
add("C05", "intern_mc", "model_checking",
    "loom explores every interleaving (up to the preemption bound) of 2-3 threads interning overlapping keys that collide in one shard through the real InternTable/ShardedSet/AtomicArena, checking the bijection, id density/stability and lookups in every execution; plus a bounded-exhaustive sequential sweep (all byte strings over a 5-byte alphabet up to length L and around the inline limit, all pairs for equality and order, paths, a recursive interned struct, and serde round trips of every document of <=4 ids over 3 values through bincode and JSON, in-process and in a fresh process).",
    loom_note, "loom (controlled scheduler, DPOR, preemption-bounded) on the real code + bounded exhaustive input enumeration", "2/C05")
add("C06", "intern_mc", "model_checking",
    "loom explores every interleaving (up to the preemption bound) of 2-3 threads adding to / reading from the real AtomicArena, including additions racing across a bucket boundary into slice_for_slot_slow, a reader thread receiving Refs through a mutex, and a with_zero arena; every execution checks distinct dense references, read-back from any thread, monotone len, final len, and exactly-once drop.",
    loom_note, "loom (controlled scheduler, DPOR, preemption-bounded) on the real code", "2/C06")

fs_note = ("Trusted: the BTreeMap reference tree; the slot universe (2 entities, 2 selectables, 2 file names, 2 root files, 2 contents) as representative of artifact sets; "
           "fault model = fail-before-effect or torn (half-written) file at an operation boundary; kill = stop at an operation boundary and lose the in-memory state. Directories containing no file are ignored.")
add("C18", "fs_mc", "model_checking",
    "Every artifact set over a 6-slot universe (729 sets), every initial directory content (missing, empty, any other set with and without stray files/dirs), every ordered pair and every triple (reduced universe) of sets is run through the real planner (FileSystemState::recreate_all/diff) and the real write_artifacts_to_disk on a real directory; after every compile the directory tree must equal the artifact set byte for byte and later compiles must not rewrite unchanged files.",
    fs_note, "exhaustive enumeration of artifact-set sessions on the real planner/applier vs a plain map model", "2/C18")
add("C19", "fs_mc", "fault_enumeration",
    "For every plan between two artifact sets of a reduced universe and for the first-compile plan: every operation index x {fails before effect, torn write} x {same watch session, fresh process} x a family of continuations (retry, revert, other sets); after the next fault-free compile the directory must equal its artifact set.",
    fs_note, "exhaustive fault-point enumeration through a cfg fault-injection hook in apply_file_system_operations", "2/C19")

lang_note = ("Trusted: the reference grammar mc/core/src/isogen.rs (enumerator of literal shapes; names and values from tiny alphabets), token budgets reported in evidence.")
add("C07", "lang_mc", "exploration",
    "Every sentence of a reference grammar of iso literals up to N tokens, every token-level prefix of a sentence extended by each token of a 39-token alphabet (keywords, punctuators, strings incl. non-BMP and unterminated, block strings, numbers incl. out-of-range/leading-zero/float forms, junk), every single separator deviation, every value token replaced by each of 14 other value forms, and six long witness literals (directives with arguments) with every token replaced by every alphabet token, is parsed by the real parser with and without export name at two file offsets; no panic, Ok xor one diagnostic, every span of the AST (found in its Debug rendering), of the semantic tokens and of the diagnostic inside the literal on char boundaries, tokens strictly increasing.",
    lang_note, "bounded exhaustive grammar-directed input enumeration on the real parser", "2/C07")
add("C31", "lang_mc", "exploration",
    "Every text over {a, é, newline} up to length L x every non-empty span on char boundaries x outer offsets x colour modes through the real text_with_carats; the output must be a window of a reference excerpt with one caret per character and the reported row must be the start line.",
    "Trusted: the 30-line reference excerpt; number of context lines is not part of the property.", "bounded exhaustive input enumeration vs reference model", "2/C31")
add("C32", "lang_mc", "exploration",
    "Every accepted grammar sentence up to N tokens (rich alphabet, canonical and tight layout) x every offset: the real resolve() result must be a node of an independently walked syntax tree (same address and kind), contain the offset together with all ancestors, have no child containing it, and carry the tree's ancestor chain.",
    lang_note + " The hand-written syntax tree walk lists the node kinds IsographResolvedNode can name.", "bounded exhaustive input x offset enumeration vs independent tree walk", "2/C32")
add("C33", "lang_mc", "exploration",
    "Every content of <= N segments over a signing-related alphabet containing the signing token 1-3 times is signed and verified; then every single-character replace/delete/insert at every position outside the hex signature must break verification.",
    "Trusted: md5 via the crate's own dependency; contents with bare NEWTOKEN or pre-signed markers are not enumerated.", "bounded exhaustive input and edit enumeration", "2/C33")

comp_note = ("Trusted: one universe schema (objects, interface, union, enum, input objects, custom scalar, Mutation + @exposeField) and menu-based program enumeration (mc/comp_mc/src/progx.rs): every combination of menu selections up to k nodes, nesting <= 2-3, in program templates (single field + entrypoint; child field reused under two parents; client field on a type without id; cyclic pairs; parameterised client fields; parent and child overlapping in nested linked fields; client pointers with concrete, abstract and list targets, also through a child client field; declaration shapes on every kind of parent type with entrypoints). Programs are compiled by the real compiler from a real project directory in /dev/shm, each shard in its own process.")
add("C08", "comp_mc", "exploration",
    "Every program of the families (general, arguments, abstract types, cycles: every pair of selection sets for two client fields that may select themselves and each other, parameterised client fields, overlap, pointers, declaration shapes) every generated schema of a product of structural dimensions (root type names, shape of id, Node interface, union / interfaces, seven @exposeField forms, nested lists, recursive input objects: 5376 schemas with adapted programs), plus every single-token mutation (delete / duplicate / replace by each of 14 tokens; quick: delete only) of every iso literal and of the schema and extension of the checked-in demo projects, is compiled by the real batch compiler in a crash-isolated worker process; a panic, abort, stack overflow or a failure without diagnostics is a violation, attributed to the exact program.",
    comp_note, "bounded exhaustive program enumeration on the real compiler with process-level crash isolation", "2/C08")
add("C09", "comp_mc", "exploration",
    "For every accepted program of the families, every query_text / refetch query_text artifact is evaluated to the string the runtime reads (swc, cooked string) and validated against the schema: parses (relay graphql-syntax), fields exist, leaf/composite shape, arguments defined/required/coercible, variables declared/used/compatible (also inside object values), fragment conditions applicable, response names mergeable, default values of the right type, integers within 32 bits. Accepted near-miss variants of every program (first argument given twice, a default value of the wrong type, an integer literal outside 32 bits) are compiled too: if the compiler accepts one, its operations must validate as well. The three checked-in demo projects are validated against their own schemas.",
    comp_note + " Validator mc/comp_mc/src/gql.rs is the trusted base (no independent GraphQL implementation in the sandbox).", "bounded exhaustive program enumeration + reference validator", "2/C09")
add("C13", "comp_mc", "exploration",
    "For every accepted program of the families, every .ts artifact is parsed as a TypeScript module by swc_ecma_parser, every .json by serde_json, and every relative import is resolved against the generated artifact set; every accepted program again under an all-options configuration and over the schema with hostile descriptions (comment terminators, quotes, backslashes, template syntax), small programs under ten option sets; the three demo projects.",
    comp_note + " swc is the syntax oracle (no tsc).", "bounded exhaustive program enumeration + TypeScript parser as oracle", "2/C13")

add("C11", "comp_mc", "exploration",
    "For every accepted program of the families, each (operation text, normalization AST) pair of the entrypoint and of every refetch query is projected to one canonical selection tree (field, ordered arguments with canonical values, inline fragment type, nesting) and compared; concreteType must be a string exactly for object-typed fields. Also for the three checked-in demo projects.",
    comp_note, "bounded exhaustive program enumeration + structural comparison of two artifacts", "2/C11")
add("C14", "comp_mc", "exploration",
    "For every program of the families (accepted and rejected): repeated compiles in fresh compiler states and every partition of its literals into <= 3 files under 10 file-name assignments (different sort orders, a sub-directory); artifacts byte-identical modulo the source path, diagnostics identical modulo path/position; every program also as one file per literal compiled three times with artifacts and complete diagnostics compared byte for byte (duplicate definitions across files, cycles). Process hash seeds are exercised by repetition and per-process workers, not enumerated (stated in the evidence).",
    comp_note + " The 128-bit hash-seed space is not enumerable.", "exhaustive enumeration of file layouts per program + repetition for hash seeds", "2/C14")
add("C15", "comp_mc", "exploration",
    "Metamorphic, exhaustive per accepted base program: every permutation of every selection set, every duplication of one plain server selection under a fresh alias, every extraction of a contiguous variable-free run into a new client field selected at the same place; the entrypoint's operation text, normalization AST and refetch artifacts must be byte-identical to the base.",
    comp_note, "exhaustive metamorphic variant enumeration on the real compiler", "2/C15")
add("C17", "comp_mc", "exploration",
    "Every accepted program P x 20 single-error invalid variants Q (one error class each: parse error, undefined field / entrypoint / variable / argument / parent type / pointer target / variable type, duplicate selection, duplicate field or pointer definition in the same or a new file, unknown or misplaced directive, scalar/object shape, missing required argument, entrypoint on a non-fetchable type, schema syntax error, schema referencing an undefined type) x {fresh batch compile, watch-mode recompile in the same compiler state through update_sources}: the compile must report errors and a snapshot of the artifact directory (paths, bytes, mtimes, directories) must be unchanged.",
    comp_note, "exhaustive (valid, invalid) program pair enumeration with directory snapshots", "2/C17")
add("C26", "comp_mc", "exploration",
    "Every accepted program x {md5, sha256} x {extra info} x {default/custom file name}: every operationId found in any artifact (swc evaluation) is a key of the documents file and equals the configured hash of the recorded text; the recorded text tokenises to the plain build's operation; file keys = referenced ids; every operation of the plain build is persisted. Also for the three demo projects with md5 / sha256 x extra info.",
    comp_note, "exhaustive program x configuration enumeration with hash recomputation", "2/C26")

add("C12", "comp_mc", "exploration",
    "(a) Every (field, argument list of length <= 2) over a value alphabet (variables, integers incl. negative, booleans, null, strings incl. all 2-character strings over {a, space, _, -, é} and quotes, nested objects): keys built by the real parser + to_alias_str_chunk; for every pair equal key <=> equal (field, args); every key a GraphQL Name; each key equal to what the REAL runtime functions (cut out of cache.ts by swc spans, type annotations blanked, run under node) compute from the normalization node. (b) Every field of every generated operation: alias in the query text = runtime key of the corresponding normalization AST node.",
    comp_note + " Runtime binding: getNetworkResponseKey/getArgumentValueChunk executed as found in cache.ts.", "exhaustive pairwise enumeration + execution of the real TypeScript runtime functions under node", "2/C12")
add("C16", "comp_mc", "exploration",
    "Every well-typed generated program must compile; every single-fault mutant of every program (undefined field, object without / scalar with selection set, undefined argument, missing required argument, incompatible literal or variable type incl. nullability and input-object fields, list-typed variables, arguments of client fields, undeclared / unused variable, duplicate response name; one fault at one position) must be rejected with a diagnostic.",
    comp_note + " Mutants break exactly one rule by construction; the menus' type-correctness is cross-checked by C09's validator.", "exhaustive single-fault mutant enumeration on the real compiler", "2/C16")

add("C27", "comp_mc", "exploration",
    "For every accepted program of the families: (a) param_type.ts of every client field whose selection set the generator knows structurally is parsed with swc and compared with that selection set and the schema: exactly one property per selection named by alias or name; for server fields nullable iff the schema field is nullable and a list iff it is a list, at every list level; object selections recursively; (b) raw_response_type.ts of every entrypoint is compared with its operation text: response keys per inline-fragment alternative, nesting and list levels.",
    comp_note + " @updatable / @loadable selections, client field references and client pointers are checked for presence and name only.", "bounded exhaustive program enumeration + structural comparison of generated types with selection sets, schema and operation", "2/C27")

add("C10", "comp_mc", "exploration",
    "For every entrypoint of every accepted program of the families, conforming responses are enumerated as query executions against a consistent world: the base world (everything non-null, lists of length 1, first concrete type, entity id = path) and every world within d deviations of it (null, list length 0/2, null element, same entity twice, every other concrete type, the other scalar value, an entity shared between positions), each nullable variable also omitted; the REAL runtime (libs/isograph-react/src/core/*.ts, type-blanked by swc spans and run under node) normalizes the response and reads the entrypoint and every component fragment with readButDoNotEvaluate, following client fields, pointers and argument substitution itself; a read that reports missing data or throws is a violation.",
    comp_note + " Runtime binding: the 20 core modules are executed as found, with types blanked (mc/comp_mc/src/tsrun.rs; unsupported syntax is a machinery error); user resolvers are replaced by stand-ins; loadable / imperative boundaries are not crossed.", "bounded exhaustive program x response enumeration executed on the real TypeScript runtime under node", "2/C10")
add("C25", "comp_mc", "exploration",
    "For every entrypoint of every accepted program of the families (incl. the Reuse family: a child client field with refetchable selections under several parents, positions and entrypoints) and of the three checked-in demo projects: the real runtime normalizes the base response and reads it; every loader found in the data (__refetch, exposed fields, pointers, loadable fields; re-read to depth 2) is called and the operation handed to the network function is recorded; it must belong to the project and be the one generated for that field at that position (selections equal the enclosing operation's subtree at the record's position for __refetch / exposed fields; cover the field's reader for pointers and loadable fields, with the selection's arguments).",
    comp_note + " The index composition is executed by the real runtime (type-blanked); the reference reader model for pointers / loadable fields is ~50 lines of JS.", "bounded exhaustive program enumeration executed on the real TypeScript runtime under node + structural comparison of operations", "2/C25")
iso_note = ("Trusted: for C24 the TypeScript matching semantics iso.ts relies on, written out as a small reference (first overload in file order whose parameter type accepts the literal; Whitespace / MatchesWhitespaceAndString interpreted from the generated file itself) because no tsc is available; module resolution is lexical.")
add("C24", "iso_mc", "exploration",
    "Every program with <= 3/4 declaration slots over types {A, AB} x names {f, fx, fxy, f_} x {field, field+entrypoint, pointer, @component} (names that are prefixes of one another), compiled by the real compiler under the default, no_babel_transform, file-extension and commonjs options; the generated iso.ts is parsed with swc and its overload list, patterns and owning declarations are read from it; every declaration's literal under a 480-layout product of header white space (each checked by the real parser) must resolve, first match in file order, to the overload of the same declaration.",
    iso_note, "bounded exhaustive program x header-layout enumeration against the overload list parsed from the real iso.ts", "2/C24")
add("C28", "iso_mc", "exploration",
    "Every literal header over {entrypoint, field, pointer} x name pairs incl. prefixes of keywords and of each other x tails x the full product of a gap alphabet over the header gaps, plus every isogen grammar sentence up to N tokens re-headed; each token sequence is compiled once by the real compiler (acceptance + the real entrypoint artifact path); every layout the real parser accepts is run through the REAL SWC visitor in-process at call sites with decoy code, over 17 (project root, artifact directory, file depth) environments and both module settings: same classification, the import path resolves to exactly the compiler's entrypoint artifact, field / pointer calls become the function passed (or identity), everything else prints identically.",
    "Trusted: swc_ecma_codegen for printing; lexical path resolution; the plugin is run with absolute paths and no unresolved mark.", "bounded exhaustive grammar-directed header enumeration on the real SWC transform vs the real compiler", "2/C28")

add("C20", "watch_mc", "model_checking",
    "Explicit-state exploration of file-system histories on a real project tree in /dev/shm (sibling folders sharing a name prefix, a non-source file, a non-UTF-8 file, the artifact directory, schema, extension, config): every history of up to 3 (quick) / 3-4 (thorough) letters over 31 / 48 letters (write with 5 content classes, delete, renames within / into / out of the tree and across extensions, atomic save, mkdir, mkdir+write, rm -r, folder moves, schema / extension / config edits, writes inside the artifact directory, garbage collection) from two roots; each letter is applied to the disk, translated by an event model into the debounced events an inotify watcher delivers, passed through the real categorize_and_filter_events, then exactly one iteration of handle_watch_command (update_sources or new state, compile, garbage collection); after every step artifacts on disk and diagnostics must equal those of a fresh CompilerState + compile of the same files, and the loop must not end while the project is loadable.",
    "Trusted: the event model (mc/watch_mc/src/events.rs, Linux inotify backend), bound to the implementation by a conformance run in every check: each scenario is replayed step by step under a real notify-debouncer-full watcher built like create_debounced_file_watcher and the delivered events must equal the model's (59 steps quick, all 3381 histories of length 2 thorough). One letter per debounce window; the tokio channel and timing are not executed.", "bounded exhaustive history enumeration on the real compiler state + event model validated against the real watcher", "2/C20")

lsp_note = ("Trusted: the UTF-16 reference (mc/lsp_mc/src/text.rs), the position-free projection of parsed literals (proj.rs), the isogen grammar; the server is the real LspState with every handler called in-process over a project in /dev/shm.")
add("C21", "lsp_mc", "model_checking",
    "Explicit-state exploration of editor histories on the real LspState: every sequence up to depth d over {didOpen/didChange/didClose of 2 files with 3 contents each, on-disk edits, validate, queries}, from a fresh server and from a server that already validated once; after every history the client view (latest published diagnostics per URI; semantic tokens, formatting, hover and definition at fixed positions of every file) must equal that of a fresh server started on the same disk contents and open buffers.",
    lsp_note + " A state is a history (no state merging); depth bound reported in the evidence.", "bounded exhaustive history enumeration on the real server vs fresh-server differential oracle", "2/C21")
add("C22", "lsp_mc", "exploration",
    "Every grammar sentence up to N tokens (plain and rich alphabets, argument / variable-definition / directive families) that the parser accepts x 6 separator layouts x 5 document prefixes (ASCII, non-ASCII BMP, non-BMP, multi-line): the real on_format output is parsed again and must denote the same declaration (position-free projection), formatting it again must change nothing, and each returned edit range must be exactly the literal's text under UTF-16 columns.",
    lsp_note, "bounded exhaustive grammar-directed input enumeration on the real formatter with a re-parse oracle", "2/C22")
add("C23", "lsp_mc", "exploration",
    "Every document of a corpus (1-2 literals x 5 prefixes x leads x fillers, every rich grammar sentence up to N tokens as a single-literal document, plus one fault variant per literal for diagnostics): every semantic token, diagnostic range, formatting edit and definition range is decoded under the UTF-16 convention and must designate exactly the source text it describes (tokens strictly increasing, non-overlapping, one source token each); hover and go-to-definition are queried at every character boundary and must answer for the node at that byte offset.",
    lsp_note + " Hover answers carry no range; a length running past the end of a line is accepted (the protocol clamps).", "bounded exhaustive document x position enumeration on the real server vs UTF-16 reference", "2/C23")
gql_note = ("Trusted: the hand-written reference lexer/parser of the June 2018 grammar in mc/gql_mc/src/reference (one function per production; no second GraphQL implementation is available offline), cross-checked against its own sentence enumerator on every sentence.")
add("C29", "gql_mc", "exploration",
    "Every sentence of the executable and type-system grammars up to N tokens, every token prefix alone and extended by each token of a 131-token alphabet, separator variants per gap (comma, LF, CR, CRLF, tab, BOM, comment, nothing), and every single-token replace/insert/delete of every sentence up to M tokens is parsed by relay's graphql-syntax and by the reference: no panic, accept <=> the June 2018 grammar accepts, equal trees (names, arguments, values, block-string values), and print -> re-parse of every accepted schema yields an equal tree.",
    gql_note, "bounded exhaustive grammar-directed input and edit enumeration vs reference parser", "2/C29")
add("C30", "gql_mc", "exploration",
    "The same type-system inputs through graphql_schema_parser::parse_schema and parse_schema_extensions: no panic, accept <=> valid SDL (June 2018 grammar plus the four October 2021 SDL additions the parser has explicit code for) inside the supported subset read off the parser's match arms, and the tree read (descriptions, names, interfaces, fields, arguments, types, default values, directives, union members, enum values, locations, root operation types) equals the reference tree.",
    gql_note + " String values are compared as values (the codebase keeps them in quoted source form); integer literals outside i64 are outside the subset.", "bounded exhaustive grammar-directed input and edit enumeration vs reference parser", "2/C30")

props = [json.loads(l)["id"] for l in open(os.path.join(ROOT, "properties.jsonl"))]
claimed = {c["property_id"] for c in checks}
hook_commits = subprocess.run(["git", "-C", "/repo", "log", "--format=%h %s", "cd9f374..HEAD"], capture_output=True, text=True).stdout.splitlines()
hook_commits = [l.split()[0] for l in hook_commits if "verif hook" in l]
m = {
    "version": 1,
    "setup_cmd": "cd /verif && ./tools/setup.sh",
    "hooks": {
        "guard": "--cfg isographlabs_isograph_verif (rustc cfg via RUSTFLAGS); the loom build of the intern crate additionally sets --cfg isographlabs_isograph_verif_loom",
        "enable": "/verif/check sets RUSTFLAGS and builds the harness crates under /verif/mc (path dependencies on /repo crates) into /verif/target (hooks) and /verif/target-loom (hooks + loom)",
        "baseline_off_cmd": "cd /repo && cargo test --workspace --no-fail-fast --offline",
        "source_commits": hook_commits,
        "add_only": True,
    },
    "engines": [
        {"name": "pico_mc", "path": "/verif/mc/pico_mc", "serves_properties": ["C01", "C02", "C03", "C04"], "kind_free_text": "explicit-state history explorer (seqx) driving the real pico crate against a reference evaluator + ideal incremental engine; pairwise key-space check for #[memo]"},
        {"name": "fs_mc", "path": "/verif/mc/fs_mc", "serves_properties": ["C18", "C19"], "kind_free_text": "explicit-state exploration of artifact-directory sessions and exhaustive fault-point enumeration on the real planner/applier over a real directory in /dev/shm"},
        {"name": "lang_mc", "path": "/verif/mc/lang_mc", "serves_properties": ["C07", "C31", "C32", "C33"], "kind_free_text": "bounded-exhaustive input explorers (grammar-directed token enumeration, text/span enumeration) on the real parser, excerpt renderer, position resolver and signer"},
        {"name": "comp_mc", "path": "/verif/mc/comp_mc", "serves_properties": ["C08", "C09", "C10", "C11", "C12", "C13", "C14", "C15", "C16", "C17", "C25", "C26", "C27"], "kind_free_text": "progx: bounded-exhaustive program enumeration compiled by the real compiler (crash-isolated workers) with per-property oracles (swc TypeScript parser/evaluator, GraphQL validator)"},
        {"name": "lsp_mc", "path": "/verif/mc/lsp_mc", "serves_properties": ["C21", "C22", "C23"], "kind_free_text": "explicit-state history explorer on the real LspState (fresh-server differential oracle) and bounded-exhaustive document/position enumeration vs a UTF-16 reference"},
        {"name": "gql_mc", "path": "/verif/mc/gql_mc", "serves_properties": ["C29", "C30"], "kind_free_text": "bounded-exhaustive sentence / prefix / separator / single-edit enumeration of GraphQL documents through relay's graphql-syntax and isograph's schema parser vs a reference lexer+parser of the June 2018 grammar"},
        {"name": "iso_mc", "path": "/verif/mc/iso_mc", "serves_properties": ["C24", "C28"], "kind_free_text": "bounded-exhaustive header / program enumeration: the real SWC visitor in-process vs the real compiler's artifact paths; the overload list parsed from the real iso.ts vs a written-out first-match reference"},
        {"name": "watch_mc", "path": "/verif/mc/watch_mc", "serves_properties": ["C20"], "kind_free_text": "explicit-state history explorer over a real project tree: fs letter -> event model (conformance-checked against a real notify-debouncer-full watcher) -> real event categorisation + update_sources + compile, vs a fresh batch compile"},
        {"name": "intern_mc", "path": "/verif/mc/intern_mc", "serves_properties": ["C05", "C06"], "kind_free_text": "loom models over the real intern crate (cfg shim) + bounded-exhaustive sequential sweep"},
    ],
    "checks": checks,
    "notes": "See DESIGN.md. Genuine defects found are in known_findings.json (fixed ones as 'fix:' commits in /repo).",
    "not_applicable": [{"property_id": p, "reason": "check not built yet in this round (planned in DESIGN.md section 2); no claim is made"} for p in props if p not in claimed],
}
json.dump(m, open(os.path.join(ROOT, "MANIFEST.json"), "w"), indent=1)
print("claimed:", sorted(claimed))

#!/usr/bin/env bash
# run_all.sh [quick|thorough] [ids...] — runs every claimed check sequentially, prints one line per check
cd "$(dirname "$0")/.." || exit 2
tier="${1:-quick}"; shift
ids="$*"
if [ -z "$ids" ]; then ids=$(python3 -c "import json; print(' '.join(c['property_id'] for c in json.load(open('MANIFEST.json'))['checks']))"); fi
mkdir -p logs
rc=0
for id in $ids; do
  s=$(date +%s)
  ./check "$id" --tier "$tier" > "logs/$id.$tier.log" 2>&1; c=$?
  e=$(( $(date +%s) - s ))
  echo "$id exit=$c ${e}s viol=$(grep -c '^VIOLATION' logs/$id.$tier.log) known=$(grep -c '^KNOWN-FINDING' logs/$id.$tier.log) :: $(grep -vE '^(VIOLATION|KNOWN-FINDING|DETAIL)' logs/$id.$tier.log | tail -1 | cut -c1-160)"
  [ $c -ne 0 ] && rc=1
done
exit $rc

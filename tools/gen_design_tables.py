#!/usr/bin/env python3
"""Regenerates the defects table of DESIGN.md section 7.3 from known_findings.json."""
import json, os
ROOT = os.path.dirname(os.path.dirname(os.path.abspath(__file__)))
d = json.load(open(os.path.join(ROOT, "known_findings.json")))
rows = []
for f in d["findings"]:
    what = f["what"].replace("|", "\\|").replace("\n", " ")
    if len(what) > 260:
        what = what[:257] + "..."
    disp = f"fix {f['commit']}" if f["status"] == "fixed" else f"known (`{f['signature']}`)"
    rows.append((f["property"], what, disp))
rows.sort(key=lambda r: (r[0], r[2].startswith("known")))
tbl = "| property | defect | disposition |\n|---|---|---|\n" + "\n".join(f"| {a} | {b} | {c} |" for a, b, c in rows)
p = os.path.join(ROOT, "DESIGN.md")
s = open(p).read()
a = s.index("The table is generated from that file.\n\n") + len("The table is generated from that file.\n\n")
b = s.index("\n\nWhy the recorded ones are not repaired:")
s = s[:a] + tbl + s[b:]
open(p, "w").write(s)
print(len(rows), "rows;", sum(1 for r in rows if r[2].startswith("fix")), "fixed,", sum(1 for r in rows if r[2].startswith("known")), "known")

#!/usr/bin/env bash
# Builds every engine offline (run once after a fresh restore).
set -eu
cd "$(dirname "$0")/../mc"
export CARGO_NET_OFFLINE=true
CARGO_TARGET_DIR=/verif/target RUSTFLAGS="--cfg isographlabs_isograph_verif" cargo build --release --offline --workspace
CARGO_TARGET_DIR=/verif/target-loom RUSTFLAGS="--cfg isographlabs_isograph_verif --cfg isographlabs_isograph_verif_loom" cargo build --release --offline -p intern_mc

#!/usr/bin/env python3
"""Regenerates the table of DESIGN.md section 7.4 from /verif/seeded/*/meta.json.
Only the table rows (lines starting with '| C') after the 7.4 heading are replaced;
the prose above the table is hand-written."""
import json, os, re, sys, glob

ROOT = os.path.dirname(os.path.dirname(os.path.abspath(__file__)))


def caught(meta):
    d = meta.get("detected_by", [""])[-1] if meta.get("missed_at_first") else meta.get("detected_by", [""])[0]
    if "->" in d:
        d = d.split("->")[-1].strip()
    return d.replace("|", "/")


def rows():
    out = []
    for p in sorted(glob.glob(os.path.join(ROOT, "seeded", "*", "meta.json"))):
        m = json.load(open(p))
        note = ""
        if m.get("missed_at_first"):
            note = "**missed** at first: " + m["missed_at_first"].replace("|", "/")
        out.append("| %s | %s | %s | %s | %s |" % (m["id"], m["property"], m.get("round", 1), caught(m), note))
    return out


def main():
    path = os.path.join(ROOT, "DESIGN.md")
    lines = open(path).read().split("\n")
    start = next(i for i, l in enumerate(lines) if l.startswith("### 7.4"))
    first = next(i for i in range(start, len(lines)) if lines[i].startswith("| C"))
    last = first
    while last < len(lines) and lines[last].startswith("| C"):
        last += 1
    new = lines[:first] + rows() + lines[last:]
    if "--check" in sys.argv:
        sys.exit(0 if new == lines else 1)
    open(path, "w").write("\n".join(new))
    print("7.4: %d rows" % len(rows()))


if __name__ == "__main__":
    main()

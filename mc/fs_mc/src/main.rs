//! fs_mc — the artifact directory as a state machine (C18, C19).
//!
//! Drives the real planning (`get_file_system_operations`: FileSystemState::recreate_all / diff)
//! and the real `apply_file_system_operations` (through the cfg hook of isograph_compiler) on a
//! real directory under /dev/shm, over *every* artifact set of a small slot universe, every
//! ordered pair / triple of sets, every initial directory content, and (C19) every fault point of
//! every plan with every continuation. Reference model: a plain BTreeMap<path, bytes>.

use artifact_content::FileSystemState;
use common_lang_types::{ArtifactPath, ArtifactPathAndContent, EntityNameAndSelectableName, FileSystemOperation};
use intern::string_key::Intern;
use isograph_compiler::verif::{FaultKind, arm_fault, disarm_fault, get_file_system_operations, write_artifacts_to_disk};
use mc_core::*;
use serde::{Deserialize, Serialize};
use serde_json::json;
use std::collections::BTreeMap;
use std::path::{Path, PathBuf};
use std::time::Duration;

/// (entity, selectable, file) — None entity = root file
const SLOTS: [(Option<(&str, &str)>, &str); 6] = [
    (Some(("A", "x")), "f"),
    (Some(("A", "x")), "g"),
    (Some(("A", "y")), "f"),
    (Some(("B", "x")), "f"),
    (None, "r1"),
    (None, "r2"),
];

/// Aliased universe: the two root files are named like the nested files ("f", "g"), so a root file
/// and a nested file share a file name (a planner that keys anything by bare file name is exposed).
static ALIAS: std::sync::atomic::AtomicBool = std::sync::atomic::AtomicBool::new(false);
fn alias_on() -> bool {
    ALIAS.load(std::sync::atomic::Ordering::Relaxed)
}
fn slot(i: usize) -> (Option<(&'static str, &'static str)>, &'static str) {
    if alias_on() && SLOTS[i].0.is_none() {
        (None, if i == 4 { "f" } else { "g" })
    } else {
        SLOTS[i]
    }
}

/// An artifact set: content per slot, 0 = absent.
type Set = Vec<u8>;

fn slot_path(i: usize) -> String {
    match slot(i).0 {
        Some((e, s)) => format!("{e}/{s}/{}", slot(i).1),
        None => slot(i).1.to_string(),
    }
}

fn all_sets(slots: &[usize]) -> Vec<Set> {
    let mut out = vec![vec![0u8; 6]];
    for &s in slots {
        let mut next = vec![];
        for base in &out {
            for v in 0..3u8 {
                let mut t = base.clone();
                t[s] = v;
                next.push(t);
            }
        }
        out = next;
    }
    out
}

fn artifacts(set: &Set) -> Vec<ArtifactPathAndContent> {
    let mut v = vec![];
    for (i, c) in set.iter().enumerate() {
        if *c == 0 {
            continue;
        }
        let type_and_field = slot(i).0.map(|(e, s)| EntityNameAndSelectableName { parent_entity_name: e.intern().into(), selectable_name: s.intern().into() });
        v.push(ArtifactPathAndContent {
            artifact_path: ArtifactPath { type_and_field, file_name: slot(i).1.intern().into() },
            file_content: format!("content-{c}-of-{}", slot_path(i)).into(),
        });
    }
    v
}

fn expected_tree(set: &Set) -> BTreeMap<String, Vec<u8>> {
    set.iter().enumerate().filter(|(_, c)| **c != 0).map(|(i, c)| (slot_path(i), format!("content-{c}-of-{}", slot_path(i)).into_bytes())).collect()
}

fn read_tree(dir: &Path) -> BTreeMap<String, Vec<u8>> {
    fn walk(base: &Path, d: &Path, out: &mut BTreeMap<String, Vec<u8>>) {
        let Ok(rd) = std::fs::read_dir(d) else { return };
        for e in rd.flatten() {
            let p = e.path();
            if p.is_dir() {
                walk(base, &p, out);
            } else {
                out.insert(p.strip_prefix(base).unwrap().to_string_lossy().to_string(), std::fs::read(&p).unwrap_or_default());
            }
        }
    }
    let mut out = BTreeMap::new();
    walk(dir, dir, &mut out);
    out
}

#[derive(Debug, Clone, Serialize, Deserialize, PartialEq)]
enum InitDir {
    Missing,
    Empty,
    /// the directory holds this set (as files), optionally with a stray file and a stray directory
    Holds(Set, bool),
}

fn setup_dir(dir: &Path, init: &InitDir) {
    let _ = std::fs::remove_dir_all(dir);
    match init {
        InitDir::Missing => {}
        InitDir::Empty => std::fs::create_dir_all(dir).unwrap(),
        InitDir::Holds(set, stray) => {
            std::fs::create_dir_all(dir).unwrap();
            for (p, c) in expected_tree(set) {
                let f = dir.join(&p);
                std::fs::create_dir_all(f.parent().unwrap()).unwrap();
                std::fs::write(f, c).unwrap();
            }
            if *stray {
                std::fs::write(dir.join("stray.txt"), b"stray").unwrap();
                std::fs::create_dir_all(dir.join("A/zz")).unwrap();
                std::fs::write(dir.join("A/zz/old.ts"), b"old").unwrap();
                std::fs::create_dir_all(dir.join("emptydir")).unwrap();
            }
        }
    }
}

#[derive(Debug, Clone, Serialize, Deserialize)]
struct Fault {
    /// which compile of the session (0-based) is hit
    compile: usize,
    at: usize,
    torn: bool,
    /// after the fault: keep the in-memory state (same watch session) or drop it (new process)
    same_session: bool,
}

/// One case: an initial directory, a session of compiles, optionally one injected fault.
#[derive(Debug, Clone, Serialize, Deserialize)]
struct Case {
    init: InitDir,
    session: Vec<Set>,
    fault: Option<Fault>,
    /// aliased universe (root files named "f" / "g")
    #[serde(default)]
    alias: bool,
}

#[derive(Debug)]
struct Failure {
    class: String,
    what: String,
}

fn op_str(op: &FileSystemOperation, dir: &Path) -> String {
    let rel = |p: &PathBuf| p.strip_prefix(dir).map(|x| x.display().to_string()).unwrap_or_else(|_| p.display().to_string());
    match op {
        FileSystemOperation::DeleteDirectory(p) => format!("rmdir({})", rel(p)),
        FileSystemOperation::CreateDirectory(p) => format!("mkdir({})", rel(p)),
        FileSystemOperation::WriteFile(p, _) => format!("write({})", rel(p)),
        FileSystemOperation::DeleteFile(p) => format!("rm({})", rel(p)),
    }
}

struct Outcome {
    failures: Vec<Failure>,
    ops_applied: usize,
    plan_len_at_fault: Option<usize>,
    fault_fired: bool,
    obs: String,
}

/// Execute one case on the real code. `dir` is the artifact directory.
fn run_case(dir: &Path, case: &Case) -> Outcome {
    ALIAS.store(case.alias, std::sync::atomic::Ordering::Relaxed);
    setup_dir(dir, &case.init);
    let mut state: Option<FileSystemState> = None;
    let mut failures = vec![];
    let mut ops_applied = 0;
    let mut plan_len_at_fault = None;
    let mut fault_fired = false;
    let mut obs = String::new();
    let mut prev: Option<&Set> = None;
    let mut prev_clean = matches!(case.init, InitDir::Missing | InitDir::Empty) || matches!(&case.init, InitDir::Holds(_, false));
    let _ = prev_clean;
    for (k, set) in case.session.iter().enumerate() {
        let arts = artifacts(set);
        let first_of_session = state.is_none();
        // peek at the plan on a copy of the state (for the fault range and the
        // "writes only what changed" oracle); the real call below plans again itself
        let ops = get_file_system_operations(&arts, dir, &mut state.clone());
        obs.push_str(&format!("[{}]", ops.iter().map(|o| op_str(o, dir)).collect::<Vec<_>>().join(",")));
        let faulted_here = case.fault.as_ref().filter(|f| f.compile == k);
        if let Some(f) = faulted_here {
            plan_len_at_fault = Some(ops.len());
            if f.at >= ops.len() {
                // nothing to hit: the case degenerates to the fault-free one
                return Outcome { failures, ops_applied, plan_len_at_fault, fault_fired: false, obs };
            }
            arm_fault(f.at, if f.torn { FaultKind::TornWrite } else { FaultKind::ErrorBefore });
        }
        let r = write_artifacts_to_disk(&arts, dir, &mut state);
        ops_applied += ops.len();
        if let Some(f) = faulted_here {
            fault_fired = disarm_fault();
            if r.is_ok() {
                failures.push(Failure { class: "machinery".into(), what: "armed fault did not surface as an error".into() });
            }
            if !f.same_session {
                state = None; // the process died: in-memory state is gone
            }
            prev = None;
            continue;
        }
        match r {
            Err(e) => {
                let only_root = set.iter().enumerate().all(|(i, c)| *c == 0 || SLOTS[i].0.is_none()) && set.iter().any(|c| *c != 0);
                let class = if first_of_session && only_root { "first-compile-root-files-only" } else { "apply-error" };
                failures.push(Failure { class: class.into(), what: format!("compile #{k} of {:?} failed: {}", set, format!("{e}").chars().take(200).collect::<String>()) });
                return Outcome { failures, ops_applied, plan_len_at_fault, fault_fired, obs };
            }
            Ok(_) => {}
        }
        let got = read_tree(dir);
        let want = expected_tree(set);
        if got != want {
            let diff: Vec<String> = want.keys().chain(got.keys()).filter(|p| want.get(*p) != got.get(*p)).map(|p| format!("{p}: want {:?} got {:?}", want.get(p).map(|b| String::from_utf8_lossy(b).to_string()), got.get(p).map(|b| String::from_utf8_lossy(b).to_string()))).collect::<std::collections::BTreeSet<_>>().into_iter().collect();
            let after_fault = case.fault.as_ref().is_some_and(|f| f.compile < k);
            let class = match (&case.fault, after_fault) {
                (Some(f), true) if f.same_session => "stale-state-after-failed-write",
                (Some(_), true) => "not-repaired-by-fresh-process",
                _ => "directory-differs",
            };
            failures.push(Failure { class: class.into(), what: format!("after compile #{k} the directory differs from the artifacts: {}", diff.join("; ")) });
            return Outcome { failures, ops_applied, plan_len_at_fault, fault_fired, obs };
        }
        // later compiles of a session write only what changed
        if let Some(p) = prev
            && !first_of_session
        {
            for op in &ops {
                if let FileSystemOperation::WriteFile(path, _) = op {
                    let rel = path.strip_prefix(dir).unwrap().to_string_lossy().to_string();
                    let i = (0..6).find(|i| slot_path(*i) == rel).unwrap();
                    if p[i] == set[i] {
                        failures.push(Failure { class: "rewrote-unchanged".into(), what: format!("compile #{k} rewrote unchanged artifact {rel}") });
                    }
                }
            }
        }
        prev = Some(set);
    }
    Outcome { failures, ops_applied, plan_len_at_fault, fault_fired, obs }
}

#[derive(Debug, Serialize, Deserialize)]
struct Shard {
    mode: String,
    slots: Vec<usize>,
    #[serde(default)]
    alias: bool,
    /// index range of the first set of the session
    lo: usize,
    hi: usize,
}

#[derive(Debug, Default, Serialize, Deserialize)]
struct Stats {
    cases: u64,
    nontrivial: u64,
    ops: u64,
    outcomes: std::collections::BTreeSet<u64>,
    failures: Vec<(Case, String, String)>,
    samples: Vec<Case>,
}

fn fnv(s: &str) -> u64 {
    let mut h: u64 = 0xcbf29ce484222325;
    for b in s.bytes() {
        h ^= b as u64;
        h = h.wrapping_mul(0x100000001b3);
    }
    h
}

fn record(stats: &mut Stats, case: Case, out: Outcome, nontrivial: bool) {
    stats.cases += 1;
    stats.ops += out.ops_applied as u64;
    if nontrivial {
        stats.nontrivial += 1;
    }
    stats.outcomes.insert(fnv(&out.obs));
    if stats.samples.len() < 2 || (stats.cases % 50_000 == 0 && stats.samples.len() < 5) {
        stats.samples.push(case.clone());
    }
    for f in out.failures {
        if f.class == "machinery" {
            machinery_error(&format!("{:?}: {}", case, f.what));
        }
        if stats.failures.len() < 300 {
            stats.failures.push((case.clone(), f.class, f.what));
        }
    }
}

fn worker(args: &Args, shard: &str) {
    let sh: Shard = serde_json::from_str(shard).unwrap_or_else(|e| machinery_error(&format!("bad shard {e}")));
    let scratch = Scratch::new("fs");
    let dir = scratch.path().join("__isograph");
    ALIAS.store(sh.alias, std::sync::atomic::Ordering::Relaxed);
    let sets = all_sets(&sh.slots);
    let mut stats = Stats::default();
    let thorough = args.tier == Tier::Thorough;
    match sh.mode.as_str() {
        // C18 first compile: every set x every initial directory
        "first" => {
            for s in &sets[sh.lo..sh.hi] {
                let mut inits = vec![InitDir::Missing, InitDir::Empty];
                for other in &sets {
                    inits.push(InitDir::Holds(other.clone(), false));
                    inits.push(InitDir::Holds(other.clone(), true));
                }
                for init in inits {
                    let case = Case { init, session: vec![s.clone()], fault: None, alias: alias_on() };
                    let out = run_case(&dir, &case);
                    record(&mut stats, case, out, s.iter().any(|c| *c != 0));
                }
            }
        }
        // C18 later compiles: every ordered pair (and every triple when `triples`)
        "pairs" | "triples" => {
            for a in &sets[sh.lo..sh.hi] {
                for b in &sets {
                    if sh.mode == "pairs" {
                        let case = Case { init: InitDir::Empty, session: vec![a.clone(), b.clone()], fault: None, alias: alias_on() };
                        let out = run_case(&dir, &case);
                        record(&mut stats, case, out, a != b);
                    } else {
                        for c in &sets {
                            let case = Case { init: InitDir::Missing, session: vec![a.clone(), b.clone(), c.clone()], fault: None, alias: alias_on() };
                            let out = run_case(&dir, &case);
                            record(&mut stats, case, out, a != b && b != c);
                        }
                    }
                }
            }
        }
        // C19: every fault point of every plan a -> b, every continuation c
        "faults" => {
            for a in &sets[sh.lo..sh.hi] {
                for b in &sets {
                    // learn the plan length fault-free
                    let probe = Case { init: InitDir::Empty, session: vec![a.clone(), b.clone()], fault: Some(Fault { compile: 1, at: usize::MAX, torn: false, same_session: true }), alias: alias_on() };
                    let n = run_case(&dir, &probe).plan_len_at_fault.unwrap_or(0);
                    for at in 0..n {
                        for torn in [false, true] {
                            for same_session in [true, false] {
                                let conts: Vec<Vec<Set>> = if thorough {
                                    // b, a, every 9th set, and three two-step continuations (every set as a continuation would be
                                    // 243^2 x 252 x ~32 fault points: hours)
                                    [vec![b.clone()], vec![a.clone()]].into_iter().chain(sets.iter().step_by(9).map(|c| vec![c.clone()])).chain(sets.iter().take(3).map(|c| vec![b.clone(), c.clone()])).collect()
                                } else {
                                    let mut v = vec![vec![b.clone()], vec![a.clone()]];
                                    v.extend(sets.iter().step_by(7).map(|c| vec![c.clone()]));
                                    v
                                };
                                for cont in conts {
                                    let mut session = vec![a.clone(), b.clone()];
                                    session.extend(cont);
                                    let case = Case { init: InitDir::Empty, session, fault: Some(Fault { compile: 1, at, torn, same_session }), alias: alias_on() };
                                    let out = run_case(&dir, &case);
                                    let fired = out.fault_fired;
                                    record(&mut stats, case, out, fired);
                                }
                            }
                        }
                    }
                    // a fault during the very first compile of a session (recreate_all plan)
                    let probe = Case { init: InitDir::Holds(a.clone(), true), session: vec![b.clone()], fault: Some(Fault { compile: 0, at: usize::MAX, torn: false, same_session: true }), alias: alias_on() };
                    let n = run_case(&dir, &probe).plan_len_at_fault.unwrap_or(0);
                    for at in 0..n {
                        for same_session in [true, false] {
                            for cont in [b.clone(), a.clone()] {
                                let case = Case { init: InitDir::Holds(a.clone(), true), session: vec![b.clone(), cont], fault: Some(Fault { compile: 0, at, torn: at % 2 == 1, same_session }), alias: alias_on() };
                                let out = run_case(&dir, &case);
                                let fired = out.fault_fired;
                                record(&mut stats, case, out, fired);
                            }
                        }
                    }
                }
            }
        }
        _ => machinery_error("unknown mode"),
    }
    worker_emit(&serde_json::to_value(&stats).unwrap());
}

fn main() {
    let args = Args::parse();
    if !["C18", "C19"].contains(&args.property.as_str()) {
        machinery_error("fs_mc serves C18 and C19");
    }
    if let Some(sh) = &args.worker {
        worker(&args, sh);
        return;
    }
    if let Some(path) = &args.replay {
        let v = read_replay(path);
        let case: Case = serde_json::from_value(v["case"].clone()).unwrap_or_else(|e| machinery_error(&format!("bad case: {e}")));
        let scratch = Scratch::new("fs-replay");
        let dir = scratch.path().join("__isograph");
        let o1 = run_case(&dir, &case);
        let o2 = run_case(&dir, &case);
        let render = |o: &Outcome| o.failures.iter().map(|f| format!("[{}] {}", f.class, f.what)).collect::<Vec<_>>();
        if render(&o1) != render(&o2) {
            machinery_error("replay is not deterministic");
        }
        println!("case: {case:?}\nplans: {}", o1.obs);
        if o1.failures.is_empty() {
            println!("REPLAY: no failure");
            std::process::exit(0);
        }
        for l in render(&o1) {
            println!("REPLAY: {l}");
        }
        println!("VIOLATION property={} replay={}", args.property, path.display());
        std::process::exit(1);
    }
    let level = if args.property == "C19" { "fault_enumeration" } else { "model_checking" };
    let mut ev = Evidence::new(&args, level);
    let full: Vec<usize> = (0..6).collect();
    // reduced universes keep every structural kind: two files of one selectable, a second selectable, a root file
    let four: Vec<usize> = vec![0, 1, 2, 4];
    let five: Vec<usize> = vec![0, 1, 2, 3, 4];
    let mut shards = vec![];
    // aliased universe (root files named like nested files): both files of A/x, a second selectable, both root files
    let alias_five: Vec<usize> = vec![0, 1, 2, 4, 5];
    let alias_four: Vec<usize> = vec![0, 1, 4, 5];
    let mut push_u = |mode: &str, slots: &Vec<usize>, chunks: usize, alias: bool| {
        let n = 3usize.pow(slots.len() as u32);
        let step = n.div_ceil(chunks);
        let mut lo = 0;
        while lo < n {
            shards.push(serde_json::to_string(&Shard { mode: mode.into(), slots: slots.clone(), alias, lo, hi: (lo + step).min(n) }).unwrap());
            lo += step;
        }
    };
    let mut plan = vec![];
    if args.property == "C18" {
        match args.tier {
            Tier::Quick => {
                push_u("first", &five, 32, false);
                push_u("pairs", &full, 48, false);
                push_u("triples", &four, 27, false);
                push_u("pairs", &alias_five, 27, true);
                push_u("first", &alias_four, 9, true);
                plan = vec!["first: 243 sets x (2 + 2*243) initial dirs", "pairs: 729^2 ordered pairs", "triples: 81^3", "aliased universe (root files named f, g like the nested files): pairs 243^2, first 81 x (2 + 2*81)"];
            }
            Tier::Thorough => {
                push_u("first", &full, 64, false);
                push_u("pairs", &full, 48, false);
                push_u("triples", &five, 81, false);
                push_u("pairs", &full, 48, true);
                push_u("first", &alias_five, 27, true);
                push_u("triples", &alias_four, 27, true);
                plan = vec!["first: 729 sets x (2 + 2*729) initial dirs", "pairs: 729^2 ordered pairs", "triples: 243^3", "aliased universe (root files named f, g like the nested files): pairs 729^2, first 243 x (2 + 2*243), triples 81^3"];
            }
        }
    } else {
        match args.tier {
            Tier::Quick => {
                push_u("faults", &four, 27, false);
                push_u("faults", &vec![0, 4, 5], 9, true);
                plan = vec!["aliased universe {A/x/f, root f, root g}: 27^2 plans, same fault space", "faults: 81^2 plans x every op index x {error, torn} x {same session, fresh process} x 23 continuations; + first-compile plans"];
            }
            Tier::Thorough => {
                push_u("faults", &five, 81, false);
                push_u("faults", &alias_four, 27, true);
                plan = vec!["aliased universe {A/x/f, A/x/g, root f, root g}: 81^2 plans, same fault space", "faults: 243^2 plans x every op index x {error, torn} x {same session, fresh process} x 32 continuations (b, a, every 9th set, three two-step ones); + first-compile plans"];
            }
        }
    }
    let n_shards = shards.len();
    let outs = run_pool(&args.property, args.tier, shards, args.jobs, &[], Duration::from_secs(args.tier.pick(900, 4 * 3600)));
    let mut verdict = Verdict::new(&args.property);
    let (mut cases, mut nontrivial, mut ops) = (0u64, 0u64, 0u64);
    let mut outcomes = std::collections::BTreeSet::new();
    let mut samples = vec![];
    let mut other = BTreeMap::<String, u64>::new();
    for o in &outs {
        let Some(v) = &o.result else {
            verdict.add(Violation { signature: "worker-crash".into(), what: format!("worker died in shard {}: {}", o.shard, o.stderr_tail.lines().last().unwrap_or("")), case: json!({"shard": o.shard}) });
            continue;
        };
        let st: Stats = serde_json::from_value(v.clone()).unwrap_or_else(|e| machinery_error(&format!("bad worker result {e}")));
        cases += st.cases;
        nontrivial += st.nontrivial;
        ops += st.ops;
        outcomes.extend(st.outcomes);
        if samples.len() < 6 {
            samples.extend(st.samples.into_iter().take(1));
        }
        for (case, class, what) in st.failures {
            // attribution: anything that needs an injected fault belongs to C19, the rest to C18
            let prop = if case.fault.is_some() && class != "first-compile-root-files-only" { "C19" } else { "C18" };
            if prop != args.property {
                *other.entry(format!("{prop}:{class}")).or_default() += 1;
                continue;
            }
            verdict.add(Violation { signature: class.clone(), what: format!("{case:?}: {what}"), case: serde_json::to_value(&case).unwrap() });
        }
    }
    verdict.violations.sort_by_key(|v| v.what.len());
    let (code, n_new, known) = verdict.conclude("fs_mc");
    ev.violations = n_new as i64;
    ev.set("evaluations", cases)
        .set("distinct_nontrivial", nontrivial)
        .set("states", cases)
        .set("transitions", ops)
        .set("traces_validated_against_impl", cases)
        .set("rule", "C18: every artifact set over the slot universe {A/x/f, A/x/g, A/y/f, B/x/f, r1, r2} (and the aliased universe in which r1, r2 are named f, g like the nested files) x content {absent,1,2}, every initial directory, every ordered pair / triple of sets through the real planner and applier on a real directory; non-trivial = the sets of the session differ. C19: every operation index of every plan, both fault kinds, both continuations; non-trivial = the injected fault actually fired")
        .set("plan", json!(plan))
        .set("outcomes", outcomes.len())
        .set("shards", n_shards)
        .set("samples", json!(samples))
        .set("known_findings_reobserved", json!(known))
        .set("failures_attributed_to_other_properties", json!(other))
        .set("exhaustive", true);
    ev.assume("directories that contain no file are ignored when comparing the directory with the artifact set")
        .assume("I/O faults are modelled as: operation fails before any effect, or a file write leaves half of the content and fails; process kill = stop at an operation boundary and lose the in-memory state");
    ev.write();
    if outcomes.len() < 10 {
        machinery_error("vacuous exploration: fewer than 10 distinct plans");
    }
    println!("fs_mc {}: {} cases ({} non-trivial), {} fs operations, {} distinct plans, {} new violation signature(s), known {:?}", args.property, cases, nontrivial, ops, outcomes.len(), n_new, known);
    std::process::exit(code);
}

//! Reference implementation of the LSP position convention (line + UTF-16 code unit column).
//!
//! Specification (LSP 3.17, "Position"): `line` is zero-based; `character` is the zero-based
//! offset in UTF-16 code units on that line (the default `positionEncoding`, and the only one a
//! server may assume when it did not negotiate another — this server negotiates none). Line ends
//! are `\n`, `\r\n`, `\r`; the harness texts contain `\n` only. "If the character value is greater
//! than the line length it defaults back to the line length."

use lsp_types::{Position, Range, TextEdit};

/// Byte offsets at which each line starts.
pub fn line_starts(text: &str) -> Vec<usize> {
    let mut v = vec![0];
    for (i, b) in text.bytes().enumerate() {
        if b == b'\n' {
            v.push(i + 1);
        }
    }
    v
}

/// UTF-16 position of a byte offset (which must be a char boundary).
pub fn pos_of_offset(text: &str, off: usize) -> Position {
    assert!(text.is_char_boundary(off), "harness: offset {off} not on a char boundary");
    let before = &text[..off];
    let line = before.bytes().filter(|b| *b == b'\n').count();
    let ls = before.rfind('\n').map(|i| i + 1).unwrap_or(0);
    let col: usize = before[ls..].chars().map(|c| c.len_utf16()).sum();
    Position { line: line as u32, character: col as u32 }
}

/// The same with a *byte* column — the model of the suspected defect, used only to name the
/// root cause in a signature, never to accept anything.
pub fn byte_pos_of_offset(text: &str, off: usize) -> Position {
    let before = &text[..off];
    let line = before.bytes().filter(|b| *b == b'\n').count();
    let ls = before.rfind('\n').map(|i| i + 1).unwrap_or(0);
    Position { line: line as u32, character: (off - ls) as u32 }
}

#[derive(Debug, Clone, PartialEq, Eq)]
pub enum PosError {
    NoSuchLine,
    InsideSurrogatePair,
}

/// Byte offset designated by an LSP position (clamping a too-large column to the line length, as
/// the specification says).
pub fn offset_of_pos(text: &str, p: Position) -> Result<usize, PosError> {
    let ls = line_starts(text);
    let Some(&start) = ls.get(p.line as usize) else { return Err(PosError::NoSuchLine) };
    let end = ls.get(p.line as usize + 1).map(|e| e - 1).unwrap_or(text.len());
    let line = &text[start..end];
    let mut col = 0u32;
    for (i, c) in line.char_indices() {
        if col == p.character {
            return Ok(start + i);
        }
        if col > p.character {
            return Err(PosError::InsideSurrogatePair);
        }
        col += c.len_utf16() as u32;
    }
    if col > p.character {
        return Err(PosError::InsideSurrogatePair);
    }
    Ok(end)
}

pub fn range_to_offsets(text: &str, r: Range) -> Result<(usize, usize), String> {
    let a = offset_of_pos(text, r.start).map_err(|e| format!("start {}:{} {:?}", r.start.line, r.start.character, e))?;
    let b = offset_of_pos(text, r.end).map_err(|e| format!("end {}:{} {:?}", r.end.line, r.end.character, e))?;
    if a > b {
        return Err(format!("start {}:{} is after end {}:{}", r.start.line, r.start.character, r.end.line, r.end.character));
    }
    Ok((a, b))
}

pub fn range_of(text: &str, a: usize, b: usize) -> Range {
    Range { start: pos_of_offset(text, a), end: pos_of_offset(text, b) }
}

pub fn byte_range_of(text: &str, a: usize, b: usize) -> Range {
    Range { start: byte_pos_of_offset(text, a), end: byte_pos_of_offset(text, b) }
}

pub fn fmt_range(r: Range) -> String {
    format!("{}:{}-{}:{}", r.start.line, r.start.character, r.end.line, r.end.character)
}

/// Apply text edits with LSP semantics: all ranges refer to the original document and must not
/// overlap.
pub fn apply_edits(text: &str, edits: &[TextEdit]) -> Result<String, String> {
    let mut spans = vec![];
    for e in edits {
        let (a, b) = range_to_offsets(text, e.range)?;
        spans.push((a, b, e.new_text.as_str()));
    }
    spans.sort_by_key(|s| (s.0, s.1));
    for w in spans.windows(2) {
        if w[0].1 > w[1].0 {
            return Err("overlapping edits".to_string());
        }
    }
    let mut out = String::new();
    let mut at = 0;
    for (a, b, t) in spans {
        out.push_str(&text[at..a]);
        out.push_str(t);
        at = b;
    }
    out.push_str(&text[at..]);
    Ok(out)
}

#[cfg(test)]
mod tests {
    use super::*;
    #[test]
    fn roundtrip() {
        let t = "aé𝄞\n𝄞b";
        for (o, _) in t.char_indices().chain(std::iter::once((t.len(), ' '))) {
            assert_eq!(offset_of_pos(t, pos_of_offset(t, o)), Ok(o));
        }
        assert_eq!(pos_of_offset(t, t.len()), Position { line: 1, character: 3 });
        assert_eq!(offset_of_pos(t, Position { line: 1, character: 1 }), Err(PosError::InsideSurrogatePair));
        assert_eq!(offset_of_pos(t, Position { line: 0, character: 99 }), Ok(7));
    }
}

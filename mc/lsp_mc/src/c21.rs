//! C21 — after any interleaving of editor notifications and on-disk edits, the language server
//! answers like a freshly started server on the same effective contents.
//!
//! Explicit-state exploration of histories over two files (src/a.ts, src/b.ts; b selects a client
//! field that a declares). Alphabet: didOpen(f, t) (only when closed), didChange(f, t) and
//! didClose(f) (only when open), diskWrite(f, t) followed by the watcher event (applied through
//! the real `update_sources`, as the file-system branch of `server::run` does), `validate` (the
//! debounce timer firing: the real `validate_entire_schema` + diagnostics publishing) and
//! `queries` (semantic tokens, formatting, hover and go-to-definition on both files), t in
//! {disk text, edited valid text selecting another field, edited invalid text}.
//!
//! Every history up to the depth bound, from two roots (fresh server; server after one validate),
//! is executed on its own real `LspState` over a real directory. At the end of each history the
//! client's view (latest published diagnostics per URI after one more `validate`, and the
//! per-file answers) is compared with that of a fresh server started on the same disk contents
//! with the currently open buffers opened before its first validation. A state is a history
//! (no canonical form of the server state is available): every prefix is a history of its own.

use crate::c22::panic_sig;
use crate::par::par_map_with;
use crate::srv::{SCHEMA, Server, client_diags, hover_text, write_project};
use lsp_types::Position;
use mc_core::*;
use serde::{Deserialize, Serialize};
use serde_json::{Value, json};
use std::collections::{BTreeMap, BTreeSet};
use std::panic::{AssertUnwindSafe, catch_unwind};
use std::path::Path;

pub const FILES: [&str; 2] = ["a.ts", "b.ts"];

/// texts[file][variant]: 0 = the initial disk text, 1 = edited valid, 2 = edited invalid
pub fn texts() -> [[String; 3]; 2] {
    let a = |sel: &str| format!("export const a = iso(`field Query.a {{ me {{ {sel}, }}, }}`)(x => x);\n");
    let b = |head: &str, sel: &str| format!("export const b = iso(`field {head}.b {{ {sel} }}`)(x => x);\nexport const e = iso(`entrypoint Query.b`);\n");
    [[a("name"), a("nick"), a("doesNotExist")], [b("Query", "a, count,"), b("Query", "a, me { id, },"), b("Nope", "a, count,")]]
}

/// fixed cursor positions per file (inside the parent type, a selection, a nested selection, and
/// the entrypoint's type on the second line of b.ts)
pub fn positions(file: usize) -> Vec<Position> {
    let p = |line, character| Position { line, character };
    match file {
        0 => vec![p(0, 30), p(0, 38), p(0, 44)],
        _ => vec![p(0, 30), p(0, 38), p(0, 43), p(1, 35)],
    }
}

#[derive(Debug, Clone, Copy, PartialEq, Eq, PartialOrd, Ord, Hash, Serialize, Deserialize)]
pub enum Op {
    Open(usize, usize),
    Change(usize, usize),
    Close(usize),
    Write(usize, usize),
    Validate,
    Queries,
}

impl Op {
    fn shape(&self, roles: &mut Vec<usize>) -> String {
        let mut role = |f: usize| {
            if !roles.contains(&f) {
                roles.push(f);
            }
            ["X", "Y"][roles.iter().position(|x| *x == f).unwrap()]
        };
        let t = |t: &usize| ["disk", "valid", "invalid"][*t];
        match self {
            Op::Open(f, v) => format!("open({},{})", role(*f), t(v)),
            Op::Change(f, v) => format!("change({},{})", role(*f), t(v)),
            Op::Close(f) => format!("close({})", role(*f)),
            Op::Write(f, v) => format!("write({},{})", role(*f), t(v)),
            Op::Validate => "validate".into(),
            Op::Queries => "queries".into(),
        }
    }
}

pub fn shape(h: &[Op]) -> String {
    let mut roles = vec![];
    h.iter().map(|o| o.shape(&mut roles)).collect::<Vec<_>>().join(" ")
}

/// The effective contents: disk text variant and open buffer (None = closed) per file.
#[derive(Debug, Clone, Copy, PartialEq, Eq, PartialOrd, Ord, Hash)]
pub struct Effective {
    disk: [usize; 2],
    open: [Option<usize>; 2],
}

impl Effective {
    fn initial() -> Self {
        Effective { disk: [0, 0], open: [None, None] }
    }
    fn enabled(&self) -> Vec<Op> {
        let mut v = vec![];
        for f in 0..2 {
            match self.open[f] {
                None => v.extend((0..3).map(|t| Op::Open(f, t))),
                Some(_) => {
                    v.extend((0..3).map(|t| Op::Change(f, t)));
                    v.push(Op::Close(f));
                }
            }
            v.extend((0..3).map(|t| Op::Write(f, t)));
        }
        v.push(Op::Validate);
        v.push(Op::Queries);
        v
    }
    fn allows(&self, op: &Op) -> bool {
        match op {
            Op::Open(f, _) => self.open[*f].is_none(),
            Op::Change(f, _) | Op::Close(f) => self.open[*f].is_some(),
            _ => true,
        }
    }
    fn apply(&mut self, op: &Op) {
        match op {
            Op::Open(f, t) | Op::Change(f, t) => self.open[*f] = Some(*t),
            Op::Close(f) => self.open[*f] = None,
            Op::Write(f, t) => self.disk[*f] = *t,
            _ => {}
        }
    }
}

/// All contract-respecting histories of length <= depth (every prefix included), shortest first.
pub fn histories(depth: usize) -> Vec<Vec<Op>> {
    let mut out = vec![vec![]];
    let mut frontier: Vec<(Vec<Op>, Effective)> = vec![(vec![], Effective::initial())];
    for _ in 0..depth {
        let mut next = vec![];
        for (h, e) in &frontier {
            for op in e.enabled() {
                let mut h2 = h.clone();
                h2.push(op);
                let mut e2 = *e;
                e2.apply(&op);
                out.push(h2.clone());
                next.push((h2, e2));
            }
        }
        frontier = next;
    }
    out
}

// ---------------------------------------------------------------------------------------------
// observation
// ---------------------------------------------------------------------------------------------

/// The client's view of the diagnostics: latest publication per URI.
#[derive(Default)]
struct ClientView(BTreeMap<String, Vec<(u32, u32, u32, u32, String)>>);

impl ClientView {
    fn receive(&mut self, params: &[lsp_types::PublishDiagnosticsParams]) {
        for p in params {
            let ds = client_diags(std::slice::from_ref(p)).into_iter().map(|d| (d.range.0, d.range.1, d.range.2, d.range.3, d.message)).collect();
            self.0.insert(p.uri.as_str().to_string(), ds);
        }
    }
    fn to_json(&self) -> Value {
        json!(self.0.iter().filter(|(_, v)| !v.is_empty()).collect::<BTreeMap<_, _>>())
    }
}

fn file_answers(s: &Server<'_>, f: usize) -> Value {
    let file = FILES[f];
    let tokens = s.semantic_tokens(file).map(|t| t.map(|v| v.iter().flat_map(|t| [t.delta_line, t.delta_start, t.length, t.token_type, t.token_modifiers_bitset]).collect::<Vec<u32>>()));
    let format = s.format(file);
    let hovers: Vec<Value> = positions(f).into_iter().map(|p| json!(s.hover(file, p).map(|h| hover_text(&h)))).collect();
    let gotos: Vec<Value> = positions(f).into_iter().map(|p| json!(s.goto_definition(file, p))).collect();
    json!({"tokens": tokens, "format": format, "hover": hovers, "definition": gotos})
}

fn run_queries(s: &Server<'_>) -> Value {
    json!({"a.ts": file_answers(s, 0), "b.ts": file_answers(s, 1)})
}

/// validate once more, then read everything; directory names are normalised
fn observe(s: &mut Server<'_>, view: &mut ClientView) -> Value {
    let (_, published) = s.validate();
    view.receive(&published);
    let v = json!({"diagnostics": view.to_json(), "files": run_queries(s)});
    let text = v.to_string().replace(s.dir.to_str().unwrap(), "$ROOT");
    serde_json::from_str(&text).unwrap()
}

fn fresh_observation(dir: &Path, e: &Effective) -> Value {
    let t = texts();
    write_project(dir, SCHEMA, &[("a.ts", &t[0][e.disk[0]]), ("b.ts", &t[1][e.disk[1]])]);
    let (tx, rx) = crate::srv::channel();
    let mut s = Server::start(dir, &tx, rx);
    for f in 0..2 {
        if let Some(v) = e.open[f] {
            s.did_open(FILES[f], &t[f][v]);
        }
    }
    let mut view = ClientView::default();
    observe(&mut s, &mut view)
}

pub struct Ctx {
    real_dir: Scratch,
    fresh_dir: Scratch,
    fresh: BTreeMap<Effective, Value>,
    pub transitions: u64,
}

impl Ctx {
    pub fn new(tag: &str) -> Ctx {
        Ctx { real_dir: Scratch::new(&format!("{tag}-real")), fresh_dir: Scratch::new(&format!("{tag}-fresh")), fresh: BTreeMap::new(), transitions: 0 }
    }
}

#[derive(Debug, Clone)]
pub struct Outcome {
    /// (part that differs, detail)
    pub failure: Option<(String, String)>,
    pub digest: u64,
    pub nontrivial: bool,
}

fn first_difference(real: &Value, fresh: &Value) -> Option<(String, String)> {
    if real == fresh {
        return None;
    }
    if real["diagnostics"] != fresh["diagnostics"] {
        return Some(("diagnostics".into(), format!("client sees {} ; a fresh server publishes {}", real["diagnostics"], fresh["diagnostics"])));
    }
    for f in FILES {
        for part in ["tokens", "format", "hover", "definition"] {
            let (r, x) = (&real["files"][f][part], &fresh["files"][f][part]);
            if r != x {
                let short = |v: &Value| v.to_string().chars().take(300).collect::<String>();
                return Some((part.to_string(), format!("{part} of {f}: server answers {} ; a fresh server answers {}", short(r), short(x))));
            }
        }
    }
    Some(("other".into(), "observations differ".into()))
}

fn fnv(s: &str) -> u64 {
    s.bytes().fold(0xcbf29ce484222325u64, |h, b| (h ^ b as u64).wrapping_mul(0x100000001b3))
}

/// Execute one history on a new real server and compare its final view with a fresh server.
pub fn run_history(ctx: &mut Ctx, warm_root: bool, h: &[Op]) -> Outcome {
    let t = texts();
    let dir = ctx.real_dir.path().to_path_buf();
    if dir.join("isograph.config.json").exists() {
        // same project as the previous history of this worker: only the sources were touched
        for f in 0..2 {
            std::fs::write(dir.join("src").join(FILES[f]), &t[f][0]).unwrap_or_else(|e| machinery_error(&format!("write: {e}")));
        }
    } else {
        write_project(&dir, SCHEMA, &[("a.ts", &t[0][0]), ("b.ts", &t[1][0])]);
    }
    let mut eff = Effective::initial();
    for op in h {
        if !eff.allows(op) {
            machinery_error(&format!("history violates the editor contract: {h:?}"));
        }
        eff.apply(op);
    }
    let mut transitions = 0u64;
    let r = catch_unwind(AssertUnwindSafe(|| {
        let (tx, rx) = crate::srv::channel();
        let mut s = Server::start(&dir, &tx, rx);
        let mut view = ClientView::default();
        if warm_root {
            let (_, p) = s.validate();
            view.receive(&p);
        }
        let mut update_error = None;
        for op in h {
            transitions += 1;
            match op {
                Op::Open(f, v) => s.did_open(FILES[*f], &t[*f][*v]),
                Op::Change(f, v) => s.did_change(FILES[*f], &t[*f][*v]),
                Op::Close(f) => s.did_close(FILES[*f]),
                Op::Write(f, v) => {
                    if let Err(e) = s.disk_write(FILES[*f], &t[*f][*v]) {
                        update_error.get_or_insert(e);
                    }
                }
                Op::Validate => {
                    let (_, p) = s.validate();
                    view.receive(&p);
                }
                Op::Queries => {
                    let _ = run_queries(&s);
                }
            }
        }
        (observe(&mut s, &mut view), update_error)
    }));
    ctx.transitions += transitions;
    let (real, update_error) = match r {
        Ok(x) => x,
        Err(p) => {
            let m = panic_message(&*p);
            return Outcome { failure: Some((panic_sig(&m), format!("the server panicked: {m}"))), digest: 0, nontrivial: true };
        }
    };
    if let Some(e) = update_error {
        return Outcome { failure: Some(("update-sources-error".into(), format!("update_sources failed for a readable source file (the server loop exits): {e}"))), digest: 1, nontrivial: true };
    }
    if !ctx.fresh.contains_key(&eff) {
        let v = fresh_observation(ctx.fresh_dir.path(), &eff);
        ctx.fresh.insert(eff, v);
    }
    let fresh = &ctx.fresh[&eff];
    // the oracle can discriminate when the effective contents differ from the initial ones
    let nontrivial = eff != Effective::initial();
    Outcome { failure: first_difference(&real, fresh), digest: fnv(&real.to_string()), nontrivial }
}

/// 1-minimal sub-history that still fails in the same part (ddmin by single removals).
fn reduce(ctx: &mut Ctx, warm: bool, h: &[Op], part: &str) -> Vec<Op> {
    let mut cur = h.to_vec();
    'again: loop {
        for i in 0..cur.len() {
            let mut cand = cur.clone();
            cand.remove(i);
            let mut e = Effective::initial();
            if !cand.iter().all(|op| {
                let ok = e.allows(op);
                e.apply(op);
                ok
            }) {
                continue;
            }
            if run_history(ctx, warm, &cand).failure.is_some_and(|(p, _)| p == part) {
                cur = cand;
                continue 'again;
            }
        }
        return cur;
    }
}

#[derive(Serialize, Deserialize)]
struct Case {
    warm_root: bool,
    history: Vec<Op>,
}

pub fn main(args: &Args) -> i32 {
    quiet_panics();
    if let Some(path) = &args.replay {
        let v = read_replay(path);
        let case: Case = serde_json::from_value(v["case"].clone()).unwrap_or_else(|e| machinery_error(&format!("replay case: {e}")));
        let mut ctx = Ctx::new("lsp-c21-replay");
        let o1 = run_history(&mut ctx, case.warm_root, &case.history);
        let mut ctx2 = Ctx::new("lsp-c21-replay2");
        let o2 = run_history(&mut ctx2, case.warm_root, &case.history);
        if format!("{:?}", o1.failure) != format!("{:?}", o2.failure) {
            machinery_error("replay is not deterministic");
        }
        println!("root: {}; history: {}", if case.warm_root { "after one validate" } else { "fresh" }, shape(&case.history));
        if let Some((part, what)) = &o1.failure {
            println!("  {part} :: {what}");
            println!("VIOLATION property=C21 replay={}", path.display());
            return 1;
        }
        println!("REPLAY: no failure");
        return 0;
    }
    let mut ev = Evidence::new(args, "model_checking");
    let depth: usize = std::env::var("C21_DEPTH").ok().and_then(|s| s.parse().ok()).unwrap_or(args.tier.pick(3, 4));
    // one level deeper from the fresh root (the warm root's histories of depth d are the
    // histories of depth d + 1 of the fresh root that start with validate)
    let deep = if std::env::var("C21_DEPTH").is_err() { depth + 1 } else { depth };
    let hs = histories(deep);
    let mut jobs_list: Vec<(bool, &Vec<Op>)> = hs.iter().map(|h| (false, h)).collect();
    jobs_list.extend(hs.iter().filter(|h| h.len() <= depth).map(|h| (true, h)));
    let counters = std::sync::Mutex::new(0u64);
    let results = par_map_with(
        &jobs_list,
        args.jobs,
        |j| (Ctx::new(&format!("lsp-c21-{j}")), &counters),
        |(ctx, counters), (warm, h)| {
            let before = ctx.transitions;
            let o = run_history(ctx, *warm, h);
            *counters.lock().unwrap() += ctx.transitions - before;
            o
        },
    );
    let transitions = *counters.lock().unwrap();
    let mut verdict = Verdict::new("C21");
    let mut outcomes = BTreeSet::new();
    let mut nontrivial = 0u64;
    let mut failing: Vec<(bool, Vec<Op>, String, String)> = vec![];
    for ((warm, h), o) in jobs_list.iter().zip(&results) {
        outcomes.insert(o.digest);
        if o.nontrivial {
            nontrivial += 1;
        }
        if let Some((part, what)) = &o.failure {
            failing.push((*warm, (*h).clone(), part.clone(), what.clone()));
        }
    }
    failing.sort_by_key(|(w, h, _, _)| (h.len(), *w, h.clone()));
    println!("INFO {} of {} histories differ from a fresh server", failing.len(), jobs_list.len());
    // reduce the shortest failures (every history shorter than the bound is itself enumerated, so
    // the shortest failing histories are already minimal in length; reduction removes bystanders)
    let mut ctx = Ctx::new("lsp-c21-reduce");
    let mut seen_shapes = BTreeSet::new();
    for (warm, h, part, what) in failing.iter().take(60) {
        let min = reduce(&mut ctx, *warm, h, part);
        let sig = format!("{part}:{}{}", if *warm { "validate* " } else { "" }, shape(&min));
        if seen_shapes.insert(sig.clone()) {
            let what2 = run_history(&mut ctx, *warm, &min).failure.map(|(_, w)| w).unwrap_or(what.clone());
            verdict.add(Violation { signature: sig, what: format!("root {}; history [{}]: {}", if *warm { "after one validate" } else { "fresh" }, shape(&min), what2), case: serde_json::to_value(Case { warm_root: *warm, history: min }).unwrap() });
        }
    }
    let (code, n_new, known) = verdict.conclude("lsp_mc/c21");
    ev.violations = n_new as i64;
    let mut samples: Vec<Value> = pick_samples(&jobs_list).iter().map(|(w, h)| json!({"warm_root": w, "history": shape(h)})).collect();
    for k in &known {
        if let Some(v) = verdict.violations.iter().find(|v| &v.signature == k) {
            samples.push(json!({"known_finding": k, "case": v.case, "what": v.what}));
        }
    }
    ev.set("states", jobs_list.len() as u64)
        .set("transitions", transitions)
        .set("traces_validated_against_impl", jobs_list.len() as u64)
        .set("evaluations", jobs_list.len() as u64)
        .set("distinct_nontrivial", nontrivial)
        .set("rule", "states = distinct histories executed, each on its own real LspState (no canonical form of the server state); transitions = notifications / watcher events / validations / query rounds applied; non-trivial = histories whose effective contents (disk texts, open buffers) differ from the initial ones")
        .set("depth_fresh_root", deep as u64)
        .set("depth_warm_root", depth as u64)
        .set("alphabet", "didOpen(f,t) didChange(f,t) didClose(f) diskWrite+watcherEvent(f,t) validate queries; f in {a.ts, b.ts}, t in {disk, edited valid, edited invalid}")
        .set("histories_differing", failing.len() as u64)
        .set("outcomes", outcomes.len() as u64)
        .set("samples", json!(samples))
        .set("known_findings_reobserved", json!(known))
        .set("exhaustive", true);
    ev.assume("the tokio select loop, its debounce timers, the notify watcher and the stdio transport are not executed: their effects are modelled as the letters validate and diskWrite+event");
    ev.assume("an editor never opens an open document nor changes / closes a closed one");
    ev.assume("the reference is the same implementation started fresh (differential oracle); defects common to both are C22/C23's subject");
    ev.write();
    if outcomes.len() < 9 || nontrivial < 100 {
        machinery_error(&format!("vacuous: {} distinct observations, {} non-trivial histories", outcomes.len(), nontrivial));
    }
    println!("lsp_mc C21: depth {deep} (fresh root) / {depth} (after one validate): {} histories, {} transitions, {} distinct observations, {} new violation signature(s), known {:?}", jobs_list.len(), transitions, outcomes.len(), n_new, known);
    code
}

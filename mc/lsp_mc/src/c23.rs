//! C23 — every position and range the language server sends designates, under the protocol's
//! UTF-16 column convention, exactly the source text it describes.
//!
//! Enumerated: documents with 1–2 literals from a 12-literal corpus (multi-line block-string
//! description with é, string argument "é", nested selection sets, variables with defaults,
//! directives, object arguments, client-field references, pointer, entrypoint, two grammar
//! sentences of isogen) x 5 prefixes x {first line, later line} x 2 fillers between two literals.
//! For each document, through the real handlers on a real `LspState`:
//!   (a) semantic tokens (decoded, compared with the parser's own token spans line part by line part),
//!   (b) published diagnostics for the clean document and for every single-fault variant (unknown
//!       field first / last in the selection set, unknown parent type, lexer error) of every literal,
//!       compared with the compiler's own `Diagnostic` locations,
//!   (c) formatting edit ranges,
//!   (d) hover and go-to-definition at EVERY char-boundary offset of every literal, compared with
//!       what the server's own semantic layer yields at that byte offset (cursor -> offset) and
//!       with the compiler's definition locations (location -> range).
//! Plus the two position helpers directly on all texts over {a, é, 𝄞, \n} up to length 5.

use crate::c22::{Fail, panic_sig};
use crate::par::par_map_with;
use crate::proj::parse_at;
use crate::srv::{ClientDiag, SCHEMA, Worker, client_diags, hover_text, uri_of};
use crate::text::*;
use common_lang_types::{EmbeddedLocation, EntityName, SelectableName, Span, noop_print_location_fn};
use intern::string_key::Lookup;
use isograph_lang_types::{ClientObjectSelectableNameWrapperParent, ClientScalarSelectableNameWrapperParent, IsographResolvedNode};
use isograph_lsp::verif::{char_index_to_position, delta_line_delta_start};
use isograph_schema::{entity_definition_location, get_parent_and_selectable_for_object_path, get_parent_and_selectable_for_scalar_path, selectable_definition_location};
use lsp_types::{GotoDefinitionResponse, Position, Range, SemanticToken};
use mc_core::isogen::{self, T};
use mc_core::*;
use resolve_position::ResolvePosition;
use serde::{Deserialize, Serialize};
use serde_json::{Value, json};
use std::collections::{BTreeMap, BTreeSet};
use std::panic::{AssertUnwindSafe, catch_unwind};

pub const PRES: [&str; 5] = crate::c22::PRES;
pub const LEADS: [&str; 2] = ["", "import { iso } from '@iso';\n\n"];
pub const MIDS: [&str; 2] = ["", "/* é */ "];

/// (export name, literal text)
pub fn corpus() -> Vec<(String, String)> {
    let mut c: Vec<(String, String)> = vec![
        ("c0".into(), "field Query.c0 { me { name, }, }".into()),
        ("c1".into(), "\n  field Query.c1($v: Int, $id: ID!) @component {\n    user(id: $id) {\n      friends(first: $v) {\n        id\n        nick\n      }\n    }\n  }\n".into()),
        ("c2".into(), "\n  field User.c2\n  \"\"\"\n  é description\n  second line\n  \"\"\"\n  {\n    name\n    al: nick\n  }\n".into()),
        ("c3".into(), "field Query.c3 { users(first: 1, name: \"é\") { name, id, }, count, }".into()),
        ("c4".into(), "pointer Query.c4 to User { me { id, }, }".into()),
        ("e5".into(), "entrypoint Query.c0".into()),
        ("c6".into(), "\n  field User.c6 @component {\n    name @updatable\n    bestFriend @updatable {\n      age\n    }\n    pets {\n      tag(style: \"é\", n: 2)\n      owner { homepage, }\n    }\n  }\n".into()),
        ("c7".into(), "field Query.c7 { me { c2, c6, }, c0, }".into()),
        ("c8".into(), "field Query.c8($i: PetInput) { pet(id: \"1\", input: {name: \"é\", n: 1, nested: {a: 2}}) { name, }, other: pet(id: \"2\", input: $i) { id, }, }".into()),
        ("c9".into(), "\n  field Query.c9($n: Int = 3, $s: String = \"é\") \"é desc\" {\n    users(first: $n, name: $s) { id, }\n  }\n".into()),
    ];
    // two sentences of the reference grammar (rich alphabet): the longest one with the multi-line
    // block-string description, and the longest one with a non-ASCII string argument
    let mut g = isogen::Gen::new(true);
    let all = g.literals(13);
    let pick = |tok: &str, nl: &str| {
        let s = all.iter().filter(|s| s.iter().any(|t| matches!(t, T::S(x) if *x == tok))).max_by_key(|s| (isogen::tokens(s), (*s).clone())).unwrap_or_else(|| machinery_error("isogen has no sentence with the wanted token"));
        let s: isogen::Sentence = s.iter().map(|t| if *t == T::S("\"é𝄞\"") { T::S("\"é\"") } else { *t }).collect();
        isogen::render_with(&s, " ", nl)
    };
    c.push(("foo".into(), pick("\"\"\"\n  é\n  x\n\"\"\"", "\n")));
    c.push(("foo".into(), format!("\n{}\n", pick("\"é\"", ",\n"))));
    c
}

#[derive(Debug, Clone, Serialize, Deserialize)]
pub struct DocSpec {
    pub lead: String,
    pub pre: String,
    /// (export name, literal)
    pub lits: Vec<(String, String)>,
    pub mid: String,
}

pub struct Doc {
    pub text: String,
    /// byte offset of each literal
    pub starts: Vec<usize>,
}

pub fn build(spec: &DocSpec) -> Doc {
    let mut text = format!("{}{}", spec.lead, spec.pre);
    let mut starts = vec![];
    for (i, (name, lit)) in spec.lits.iter().enumerate() {
        if i > 0 {
            text.push_str(&spec.mid);
        }
        text.push_str(&format!("export const {name} = iso(`"));
        starts.push(text.len());
        text.push_str(lit);
        text.push_str(if lit.trim_start().starts_with("entrypoint") { "`);\n" } else { "`)(x => x);\n" });
    }
    text.push_str("// ü\n");
    Doc { text, starts }
}

// ---------------------------------------------------------------------------------------------
// (a) semantic tokens
// ---------------------------------------------------------------------------------------------

/// model of the suspected defect in `delta_line_delta_start` (char index of the last line break
/// subtracted from a byte length) — used only to name the class of a mismatch
fn mixed_units_delta(text: &str) -> (u32, u32) {
    let mut last = 0u32;
    let mut n = 0;
    for (i, c) in text.chars().enumerate() {
        if c == '\n' {
            n += 1;
            last = i as u32 + 1;
        }
    }
    (n, text.len() as u32 - last)
}

fn check_tokens(doc: &Doc, lits: &[(String, String)], data: &[SemanticToken]) -> Vec<Fail> {
    let d = &doc.text;
    // expected: per literal, per parser token, per line part (line terminator excluded)
    let mut want: Vec<(usize, usize)> = vec![];
    for ((_, lit), &ls) in lits.iter().zip(&doc.starts) {
        let Ok(res) = parse_at(lit, ls) else { continue };
        for t in res.semantic_tokens() {
            let (a, b) = (ls + t.location.span.start as usize, ls + t.location.span.end as usize);
            let mut at = a;
            for part in d[a..b].split_inclusive('\n') {
                let body = part.strip_suffix('\n').unwrap_or(part);
                want.push((at, at + body.len()));
                at += part.len();
            }
        }
    }
    let mut fails = vec![];
    let (mut line, mut col) = (0u32, 0u32);
    let mut prev_start_off = 0usize;
    let mut last_end: Option<(u32, u32)> = None;
    if data.len() != want.len() {
        fails.push(Fail { sig: "semantic-token-count".into(), what: format!("{} semantic tokens for {} single-line parts of the parser's tokens", data.len(), want.len()) });
        return fails;
    }
    for (i, (t, &(wa, wb))) in data.iter().zip(&want).enumerate() {
        if t.delta_line > 0 {
            line += t.delta_line;
            col = t.delta_start;
        } else {
            col += t.delta_start;
        }
        let start = Position { line, character: col };
        let end = Position { line, character: col + t.length };
        let text_of = |a: usize, b: usize| d[a..b].chars().take(30).collect::<String>();
        let model = mixed_units_delta(&d[prev_start_off..wa]);
        let start_off = offset_of_pos(d, start);
        if start_off != Ok(wa) {
            let m = (t.delta_line, t.delta_start) == model;
            fails.push(Fail {
                sig: if m { "mixed-units:delta_line_delta_start".into() } else { "semantic-token-start-wrong".into() },
                what: format!(
                    "token #{i} decodes to start {}:{} which designates {}; the parser's token {:?} starts at {}{}",
                    line,
                    col,
                    match &start_off {
                        Ok(o) => format!("offset {o} ({:?}..)", text_of(*o, d.len().min(*o + 12))),
                        Err(e) => format!("no valid position ({e:?})"),
                    },
                    text_of(wa, wb),
                    {
                        let p = pos_of_offset(d, wa);
                        format!("{}:{}", p.line, p.character)
                    },
                    if m { " (delta_start = byte length of the text in between minus the CHAR index of its last line break)" } else { "" }
                ),
            });
            return fails;
        }
        let end_off = offset_of_pos(d, end);
        if end_off != Ok(wb) {
            let bytes = t.length as usize == wb - wa || t.length as usize == wb - wa + 1;
            fails.push(Fail {
                sig: if bytes { "semantic-token-length-in-bytes".into() } else { "semantic-token-length-wrong".into() },
                what: format!("token #{i} {:?} at {}:{} has length {} but is {} UTF-16 code units long ({} bytes)", text_of(wa, wb), line, col, t.length, d[wa..wb].encode_utf16().count(), wb - wa),
            });
            return fails;
        }
        if let Some((l, c)) = last_end {
            if (line, col) < (l, c) {
                fails.push(Fail { sig: "semantic-token-overlap".into(), what: format!("token #{i} starts at {line}:{col}, before the end {l}:{c} of the previous token") });
                return fails;
            }
        }
        // end of this token in protocol units, clamped to the line (a length that includes the
        // line terminator designates the same text)
        let pe = pos_of_offset(d, wb);
        last_end = Some((pe.line, pe.character));
        prev_start_off = wa;
    }
    fails
}

// ---------------------------------------------------------------------------------------------
// (b) diagnostics
// ---------------------------------------------------------------------------------------------

/// single-fault variants of a literal: (tag, text)
fn fault_variants(lit: &str) -> Vec<(&'static str, String)> {
    let mut v = vec![];
    if let (Some(first), Some(last)) = (lit.find('{'), lit.rfind('}')) {
        // the first `{` of a declaration with variables/directives is still the selection set or
        // an object value; a misplaced selection is just another fault
        v.push(("unknown-field-first", format!("{} doesNotExist, {}", &lit[..first + 1], &lit[first + 1..])));
        v.push(("unknown-field-last", format!("{} doesNotExist,\n{}", &lit[..last], &lit[last..])));
        v.push(("lexer-error", format!("{} é {}", &lit[..last], &lit[last..])));
    }
    for ty in ["Query.", "User."] {
        if let Some(i) = lit.find(ty) {
            v.push(("unknown-parent", format!("{}Nope.{}", &lit[..i], &lit[i + ty.len()..])));
            break;
        }
    }
    v
}

fn expected_diags(w: &mut Worker, d: &str, diags: &[common_lang_types::Diagnostic]) -> Vec<ClientDiag> {
    let dir = w.dir();
    let mut v = vec![];
    for diag in diags {
        let Some(loc) = diag.location().and_then(|l| l.as_embedded_location()) else { continue };
        let path = loc.text_source.relative_path_to_source_file.lookup();
        // the server publishes diagnostics for iso literal sources only
        if path != "src/a.ts" {
            continue;
        }
        let base = loc.text_source.span.map(|s| s.start).unwrap_or(0) as usize;
        let (a, b) = (base + loc.span.start as usize, base + loc.span.end as usize);
        if b > d.len() || !d.is_char_boundary(a) || !d.is_char_boundary(b) {
            v.push(ClientDiag { uri: uri_of(&dir, "a.ts").as_str().to_string(), range: (u32::MAX, 0, 0, 0), message: format!("<compiler location {a}..{b} outside the document>") });
            continue;
        }
        let r = range_of(d, a, b);
        v.push(ClientDiag { uri: uri_of(&dir, "a.ts").as_str().to_string(), range: (r.start.line, r.start.character, r.end.line, r.end.character), message: diag.printable(noop_print_location_fn()).to_string() });
    }
    v.sort();
    v
}

fn check_diagnostics(w: &mut Worker, d: &str, tag: &str) -> (Vec<Fail>, usize) {
    let r = catch_unwind(AssertUnwindSafe(|| {
        w.set_doc(d);
        w.server().validate()
    }));
    let (diags, published) = match r {
        Ok(x) => x,
        Err(p) => {
            w.reset();
            let m = panic_message(&*p);
            return (vec![Fail { sig: panic_sig(&m), what: format!("validate/publish panicked ({tag}): {m}") }], 0);
        }
    };
    let got = client_diags(&published);
    let want = expected_diags(w, d, &diags);
    // compared by the text they designate (a column beyond the line end designates the line end)
    let to_range = |c: &ClientDiag| Range { start: Position { line: c.range.0, character: c.range.1 }, end: Position { line: c.range.2, character: c.range.3 } };
    let norm = |v: &[ClientDiag]| {
        let mut n: Vec<(String, Result<(usize, usize), String>, String)> = v.iter().map(|c| (c.uri.clone(), range_to_offsets(d, to_range(c)), c.message.clone())).collect();
        n.sort();
        n
    };
    let mut fails = vec![];
    if norm(&got) != norm(&want) {
        let (gn, wn) = (norm(&got), norm(&want));
        let unmatched_want: Vec<&ClientDiag> = want.iter().filter(|x| !gn.contains(&norm(std::slice::from_ref(x))[0])).collect();
        let unmatched_got: Vec<&ClientDiag> = got.iter().filter(|x| !wn.contains(&norm(std::slice::from_ref(x))[0])).collect();
        let mut sig = "diagnostic-set-differs".to_string();
        let mut what = format!("published {:?} but the compiler's diagnostics map to {:?}", unmatched_got, unmatched_want);
        if let Some(wd) = unmatched_want.first() {
            if let (Some(gd), Ok((a, b))) = (unmatched_got.iter().find(|g| g.message == wd.message && g.uri == wd.uri), range_to_offsets(d, to_range(wd))) {
                let (gr, wr) = (to_range(gd), to_range(wd));
                let byte_model = gr == byte_range_of(d, a, b);
                sig = if byte_model { "byte-columns:char_index_to_position".into() } else { "diagnostic-range-wrong".into() };
                what = format!(
                    "diagnostic {:?}: published range {} designates {}; the compiler's location covers {:?} at {}{}",
                    wd.message.trim(),
                    fmt_range(gr),
                    match range_to_offsets(d, gr) {
                        Ok((x, y)) => format!("{:?}", &d[x..y]),
                        Err(e) => format!("<invalid: {e}>"),
                    },
                    &d[a..b],
                    fmt_range(wr),
                    if byte_model { " (the range sent is line + BYTE column)" } else { "" }
                );
            }
        }
        fails.push(Fail { sig, what: format!("[{tag}] {what}") });
    }
    (fails, got.len())
}

// ---------------------------------------------------------------------------------------------
// (d) hover / go-to-definition
// ---------------------------------------------------------------------------------------------

#[derive(Debug, Clone, PartialEq, Eq)]
enum Subject {
    Nothing,
    Entity(EntityName),
    TypeRef(EntityName),
    Selectable(EntityName, SelectableName),
    /// a selection whose field the schema does not know (no hover, no definition)
    UnknownSelectable,
    OwnName(EntityName, SelectableName),
}

/// What the server's own semantic layer says is at byte offset `o` of the literal.
fn subject_at(w: &mut Worker, res: &isograph_lang_parser::IsoLiteralExtractionResult, o: u32) -> Subject {
    let db = &w.server().state.compiler_state.db;
    match res.resolve((), Span::new(o, o)) {
        IsographResolvedNode::EntityNameWrapper(e) => Subject::Entity(e.inner.0),
        IsographResolvedNode::TypeAnnotation(t) => Subject::TypeRef(t.inner.inner().0),
        IsographResolvedNode::ScalarSelection(p) => match get_parent_and_selectable_for_scalar_path(db, &p) {
            Ok((parent, _)) => Subject::Selectable(parent.lookup(db).name.item, p.inner.name.item),
            Err(_) => Subject::UnknownSelectable,
        },
        IsographResolvedNode::ObjectSelection(p) => match get_parent_and_selectable_for_object_path(db, &p) {
            Ok((parent, _)) => Subject::Selectable(parent.lookup(db).name.item, p.inner.name.item),
            Err(_) => Subject::UnknownSelectable,
        },
        IsographResolvedNode::ClientScalarSelectableNameWrapper(wr) => {
            let parent = match wr.parent {
                ClientScalarSelectableNameWrapperParent::EntrypointDeclaration(p) => p.inner.parent_type.item,
                ClientScalarSelectableNameWrapperParent::ClientFieldDeclaration(p) => p.inner.parent_type.item,
            };
            Subject::OwnName(parent.0, wr.inner.0)
        }
        IsographResolvedNode::ClientObjectSelectableNameWrapper(wr) => {
            let parent = match wr.parent {
                ClientObjectSelectableNameWrapperParent::ClientPointerDeclaration(p) => p.inner.parent_type.item,
            };
            Subject::OwnName(parent.0, wr.inner.0)
        }
        _ => Subject::Nothing,
    }
}

fn hover_matches(s: &Subject, h: &Result<Option<String>, String>) -> bool {
    match (s, h) {
        (Subject::Entity(e), Ok(Some(t))) => t.starts_with(&format!("Object **{e}**")),
        (Subject::Entity(_), Err(_)) => false,
        (Subject::Selectable(p, n), Ok(Some(t))) => t.contains(&format!("field **{p}.{n}**")),
        (Subject::Nothing | Subject::TypeRef(_) | Subject::UnknownSelectable | Subject::OwnName(..), Ok(None)) => true,
        _ => false,
    }
}

/// The compiler's definition location for a subject: (file relative to the project, byte range).
fn definition_of(w: &mut Worker, s: &Subject) -> Option<EmbeddedLocation> {
    let db = &w.server().state.compiler_state.db;
    match s {
        Subject::Entity(e) | Subject::TypeRef(e) => entity_definition_location(db, *e).flatten(),
        Subject::Selectable(p, n) | Subject::OwnName(p, n) => *selectable_definition_location(db, *p, *n),
        Subject::Nothing | Subject::UnknownSelectable => None,
    }
}

struct Target {
    uri: String,
    text: String,
    a: usize,
    b: usize,
}

fn target_of(w: &Worker, d: &str, loc: EmbeddedLocation) -> Option<Target> {
    let rel = loc.text_source.relative_path_to_source_file.lookup();
    let text = match rel {
        "src/a.ts" => d.to_string(),
        "schema.graphql" => SCHEMA.to_string(),
        _ => return None,
    };
    let base = loc.text_source.span.map(|s| s.start).unwrap_or(0) as usize;
    let (a, b) = (base + loc.span.start as usize, base + loc.span.end as usize);
    if b > text.len() || !text.is_char_boundary(a) || !text.is_char_boundary(b) {
        return None;
    }
    Some(Target { uri: format!("file://{}/{}", w.dir().display(), rel), text, a, b })
}

fn goto_location(g: &Result<Option<GotoDefinitionResponse>, String>) -> Result<Option<lsp_types::Location>, String> {
    match g {
        Ok(Some(GotoDefinitionResponse::Scalar(l))) => Ok(Some(l.clone())),
        Ok(Some(other)) => Err(format!("unexpected response shape {other:?}")),
        Ok(None) => Ok(None),
        // ExpectedError = "no result" on the wire
        Err(e) if e == "ExpectedError" => Ok(None),
        Err(e) => Err(e.clone()),
    }
}

#[derive(Default)]
struct HoverStats {
    calls: u64,
    with_answer: u64,
}

fn check_cursor(w: &mut Worker, doc: &Doc, lits: &[(String, String)], stats: &mut HoverStats) -> Vec<Fail> {
    let d = doc.text.clone();
    let mut fails: Vec<Fail> = vec![];
    let mut seen: BTreeSet<String> = BTreeSet::new();
    let mut push = |fails: &mut Vec<Fail>, f: Fail| {
        if seen.insert(f.sig.clone()) {
            fails.push(f);
        }
    };
    for ((_, lit), &ls) in lits.iter().zip(&doc.starts) {
        let Ok(res) = parse_at(lit, ls) else { continue };
        let offsets: Vec<usize> = lit.char_indices().map(|(i, _)| i).chain(std::iter::once(lit.len())).collect();
        for &o in &offsets {
            let pos = pos_of_offset(&d, ls + o);
            stats.calls += 1;
            let r = catch_unwind(AssertUnwindSafe(|| {
                let s = w.server();
                (s.hover("a.ts", pos).map(|h| hover_text(&h)), s.goto_definition("a.ts", pos))
            }));
            let (h, g) = match r {
                Ok(x) => x,
                Err(p) => {
                    let m = panic_message(&*p);
                    w.reset();
                    w.set_doc(&d);
                    push(&mut fails, Fail { sig: panic_sig(&m), what: format!("hover / go-to-definition at {}:{} (byte {} of literal {:?}) panicked: {m}", pos.line, pos.character, o, lit.chars().take(40).collect::<String>()) });
                    continue;
                }
            };
            let want = subject_at(w, &res, o as u32);
            if matches!(h, Ok(Some(_))) {
                stats.with_answer += 1;
            }
            let describe = |o: usize| format!("{:?}", lit[..o].chars().rev().take(10).collect::<Vec<_>>().into_iter().rev().chain(std::iter::once('|')).chain(lit[o..].chars().take(10)).collect::<String>());
            // cursor -> offset
            let gl = goto_location(&g);
            let want_def = definition_of(w, &want).and_then(|l| target_of(w, &d, l));
            if let Err(e) = &gl {
                push(&mut fails, Fail { sig: "definition-error".into(), what: format!("go-to-definition at {}:{} failed: {e}", pos.line, pos.character) });
                continue;
            }
            let cursor_ok = hover_matches(&want, &h) && matches!(gl, Ok(Some(_))) == want_def.is_some();
            if !cursor_ok {
                // name the class with models of the suspected defects (never used to accept)
                let shifted = (o + 1).min(lit.len() + 1) as u32;
                let first_line = !lit[..o].contains('\n');
                let want_shift = subject_at(w, &res, shifted);
                let shift_def = definition_of(w, &want_shift).is_some();
                let off_by_one = first_line && hover_matches(&want_shift, &h) && matches!(gl, Ok(Some(_))) == shift_def;
                let sig = if off_by_one {
                    // get_index_of_line_char adds 1 also on the literal's first line
                    "cursor-offset:first-line-off-by-one"
                } else if !d[..ls].is_ascii() {
                    // the literal's start column comes from delta_line_delta_start over the text before it
                    "mixed-units:delta_line_delta_start"
                } else if !lit[..o].is_ascii() {
                    // get_index_of_line_char adds a char index and a UTF-16 column and uses the sum as a byte offset
                    "cursor-offset:char-index-used-as-byte-offset"
                } else {
                    "cursor-offset-wrong"
                };
                push(
                    &mut fails,
                    Fail {
                        sig: sig.into(),
                        what: format!(
                            "cursor at {}:{} = byte {} of the literal ({}): the node there is {:?} but hover answered {:?} and definition {}",
                            pos.line,
                            pos.character,
                            o,
                            describe(o),
                            want,
                            h,
                            match &gl {
                                Ok(Some(l)) => format!("{} {}", l.uri.as_str().rsplit('/').next().unwrap_or(""), fmt_range(l.range)),
                                Ok(None) => "none".to_string(),
                                Err(e) => format!("error {e}"),
                            }
                        ),
                    },
                );
                continue;
            }
            // location -> range
            if let (Ok(Some(l)), Some(t)) = (&gl, &want_def) {
                let designated = if l.uri.as_str() == t.uri { range_to_offsets(&t.text, l.range).ok() } else { None };
                if designated != Some((t.a, t.b)) {
                    let byte_model = l.uri.as_str() == t.uri && l.range == byte_range_of(&t.text, t.a, t.b);
                    // positions computed on the wrong file's text (schema text for a location in a source file)
                    let other_text_model = l.uri.as_str() == t.uri && t.b <= SCHEMA.len() && t.text != SCHEMA && SCHEMA.is_char_boundary(t.a) && SCHEMA.is_char_boundary(t.b) && l.range == byte_range_of(SCHEMA, t.a, t.b);
                    let sig = if byte_model {
                        "byte-columns:char_index_to_position"
                    } else if other_text_model {
                        "definition-range:computed-on-schema-text"
                    } else {
                        "definition-range-wrong"
                    };
                    push(
                        &mut fails,
                        Fail {
                            sig: sig.into(),
                            what: format!(
                                "definition of {:?} (cursor at {}:{}): answered {} {} which designates {}; the definition is {:?} at {} {}",
                                want,
                                pos.line,
                                pos.character,
                                l.uri.as_str().rsplit('/').next().unwrap_or(""),
                                fmt_range(l.range),
                                match designated {
                                    Some((a, b)) => format!("{:?}", t.text[a..b].chars().take(40).collect::<String>()),
                                    None => "no text of that file".to_string(),
                                },
                                t.text[t.a..t.b].chars().take(40).collect::<String>(),
                                t.uri.rsplit('/').next().unwrap_or(""),
                                fmt_range(range_of(&t.text, t.a, t.b))
                            ),
                        },
                    );
                }
            }
        }
    }
    fails
}

// ---------------------------------------------------------------------------------------------
// one document
// ---------------------------------------------------------------------------------------------

#[derive(Default)]
pub struct DocStats {
    tokens: u64,
    diags: u64,
    variants: u64,
    hover_calls: u64,
    hover_answers: u64,
    edits: u64,
}

pub fn check_doc(w: &mut Worker, spec: &DocSpec) -> (Vec<Fail>, DocStats) {
    let doc = build(spec);
    let d = doc.text.clone();
    let mut fails = vec![];
    let mut st = DocStats::default();
    // (a)
    let r = catch_unwind(AssertUnwindSafe(|| {
        w.set_doc(&d);
        w.server().semantic_tokens("a.ts")
    }));
    match r {
        Err(p) => {
            w.reset();
            let m = panic_message(&*p);
            fails.push(Fail { sig: panic_sig(&m), what: format!("semantic tokens request panicked: {m}") });
        }
        Ok(Ok(Some(data))) => {
            st.tokens = data.len() as u64;
            fails.extend(check_tokens(&doc, &spec.lits, &data));
        }
        Ok(other) => fails.push(Fail { sig: "semantic-tokens-no-answer".into(), what: format!("semantic tokens request answered {other:?} for a project file") }),
    }
    // (c)
    let r = catch_unwind(AssertUnwindSafe(|| w.server().format("a.ts")));
    match r {
        Err(p) => {
            w.reset();
            let m = panic_message(&*p);
            fails.push(Fail { sig: panic_sig(&m), what: format!("formatting request panicked: {m}") });
        }
        Ok(Ok(Some(edits))) => {
            st.edits = edits.len() as u64;
            if edits.len() != spec.lits.len() {
                fails.push(Fail { sig: "edit-count".into(), what: format!("{} edits for {} accepted literals", edits.len(), spec.lits.len()) });
            } else {
                for (e, ((_, lit), &ls)) in edits.iter().zip(spec.lits.iter().zip(&doc.starts)) {
                    if range_to_offsets(&d, e.range).ok() != Some((ls, ls + lit.len())) {
                        let byte_model = e.range == byte_range_of(&d, ls, ls + lit.len());
                        fails.push(Fail {
                            sig: if byte_model { "byte-columns:char_index_to_position".into() } else { "edit-range-wrong".into() },
                            what: format!("formatting edit range {} but the literal is at {}{}", fmt_range(e.range), fmt_range(range_of(&d, ls, ls + lit.len())), if byte_model { " (the range sent is line + BYTE column)" } else { "" }),
                        });
                        break;
                    }
                }
            }
        }
        Ok(other) => fails.push(Fail { sig: "format-no-answer".into(), what: format!("formatting request answered {other:?}") }),
    }
    // (d)
    let mut hs = HoverStats::default();
    fails.extend(check_cursor(w, &doc, &spec.lits, &mut hs));
    st.hover_calls = hs.calls;
    st.hover_answers = hs.with_answer;
    // (b) clean document, then every single-fault variant of every literal
    let (f, n) = check_diagnostics(w, &d, "clean");
    fails.extend(f);
    st.diags += n as u64;
    st.variants += 1;
    for i in 0..spec.lits.len() {
        for (tag, text) in fault_variants(&spec.lits[i].1) {
            let mut s2 = spec.clone();
            s2.lits[i].1 = text;
            let d2 = build(&s2).text;
            let (f, n) = check_diagnostics(w, &d2, &format!("{tag} in literal {i}"));
            for mut x in f {
                x.what = format!("{} — document {:?}", x.what, d2);
                fails.push(x);
            }
            st.diags += n as u64;
            st.variants += 1;
        }
    }
    // keep one failure per signature per document
    let mut seen = BTreeSet::new();
    fails.retain(|f| seen.insert(f.sig.clone()));
    (fails, st)
}

// ---------------------------------------------------------------------------------------------
// the two helpers, directly
// ---------------------------------------------------------------------------------------------

fn helper_sweep(verdict: &mut Verdict) -> u64 {
    let alpha = ['a', 'é', '𝄞', '\n'];
    let mut texts = vec![String::new()];
    let mut frontier = vec![String::new()];
    for _ in 0..5 {
        let mut next = vec![];
        for t in &frontier {
            for c in alpha {
                let mut s = t.clone();
                s.push(c);
                next.push(s);
            }
        }
        texts.extend(next.iter().cloned());
        frontier = next;
    }
    let mut n = 0;
    let (mut f1, mut f2) = (false, false);
    for t in &texts {
        for o in t.char_indices().map(|(i, _)| i).chain(std::iter::once(t.len())) {
            n += 1;
            let got = catch_unwind(AssertUnwindSafe(|| char_index_to_position(t, o)));
            let want = pos_of_offset(t, o);
            if got.as_ref().ok() != Some(&want) && !f1 {
                f1 = true;
                let byte_model = got.as_ref().ok() == Some(&byte_pos_of_offset(t, o));
                verdict.add(Violation {
                    signature: if byte_model { "byte-columns:char_index_to_position".into() } else { "char_index_to_position-wrong".into() },
                    what: format!("char_index_to_position({t:?}, {o}) = {:?}, the UTF-16 position is {}:{}", got.map(|p| (p.line, p.character)).map_err(|e| panic_message(&*e)), want.line, want.character),
                    case: json!({"helper": "char_index_to_position", "text": t, "offset": o}),
                });
            }
        }
        n += 1;
        let got = catch_unwind(AssertUnwindSafe(|| delta_line_delta_start(t)));
        let want = pos_of_offset(t, t.len());
        if got.as_ref().ok() != Some(&(want.line, want.character)) && !f2 {
            f2 = true;
            let m = got.as_ref().ok() == Some(&mixed_units_delta(t));
            verdict.add(Violation {
                signature: if m { "mixed-units:delta_line_delta_start".into() } else { "delta_line_delta_start-wrong".into() },
                what: format!("delta_line_delta_start({t:?}) = {:?}, the UTF-16 (lines, column) of its end is ({}, {})", got.map_err(|e| panic_message(&*e)), want.line, want.character),
                case: json!({"helper": "delta_line_delta_start", "text": t}),
            });
        }
    }
    n
}

fn replay_helper(case: &Value) -> Vec<Fail> {
    let t = case["text"].as_str().unwrap_or_else(|| machinery_error("replay lacks text"));
    match case["helper"].as_str() {
        Some("char_index_to_position") => {
            let o = case["offset"].as_u64().unwrap_or(0) as usize;
            let got = char_index_to_position(t, o);
            let want = pos_of_offset(t, o);
            println!("char_index_to_position({t:?}, {o}) = {}:{}; UTF-16 reference {}:{}", got.line, got.character, want.line, want.character);
            if got != want { vec![Fail { sig: "helper".into(), what: "differs".into() }] } else { vec![] }
        }
        _ => {
            let got = delta_line_delta_start(t);
            let want = pos_of_offset(t, t.len());
            println!("delta_line_delta_start({t:?}) = {got:?}; UTF-16 reference ({}, {})", want.line, want.character);
            if got != (want.line, want.character) { vec![Fail { sig: "helper".into(), what: "differs".into() }] } else { vec![] }
        }
    }
}

/// Single-literal documents for every sentence of the reference grammar (rich alphabet) up to
/// `budget` tokens, in canonical and comma+newline layout.
pub fn grammar_specs(budget: usize, leads: &[&str]) -> Vec<DocSpec> {
    let mut g = isogen::Gen::new(true);
    let mut texts = BTreeSet::new();
    for s in g.literals(budget) {
        let s: isogen::Sentence = s.iter().map(|t| if *t == T::S("\"é𝄞\"") { T::S("\"é\"") } else { *t }).collect();
        for nl in ["\n", ",\n"] {
            let t = isogen::render_with(&s, " ", nl);
            if crate::proj::parse(&t).is_ok() {
                texts.insert(t);
            }
        }
    }
    let mut out = vec![];
    for lead in leads {
        for pre in PRES {
            for t in &texts {
                out.push(DocSpec { lead: lead.to_string(), pre: pre.into(), lits: vec![("foo".into(), t.clone())], mid: String::new() });
            }
        }
    }
    out
}

pub fn specs() -> Vec<DocSpec> {
    let c = corpus();
    let mut out = vec![];
    for lead in LEADS {
        for pre in PRES {
            for i in 0..c.len() {
                out.push(DocSpec { lead: lead.into(), pre: pre.into(), lits: vec![c[i].clone()], mid: String::new() });
            }
            for i in 0..c.len() {
                for j in 0..c.len() {
                    if i == j || c[i].0 == c[j].0 {
                        continue;
                    }
                    for mid in MIDS {
                        out.push(DocSpec { lead: lead.into(), pre: pre.into(), lits: vec![c[i].clone(), c[j].clone()], mid: mid.into() });
                    }
                }
            }
        }
    }
    out
}

pub fn main(args: &Args) -> i32 {
    quiet_panics();
    if let Some(path) = &args.replay {
        let v = read_replay(path);
        let case = &v["case"];
        let fails = if case.get("helper").is_some() {
            replay_helper(case)
        } else {
            let spec: DocSpec = serde_json::from_value(case.clone()).unwrap_or_else(|e| machinery_error(&format!("replay case: {e}")));
            let mut w = Worker::new("lsp-c23-replay", SCHEMA);
            let f1 = check_doc(&mut w, &spec).0;
            let mut w2 = Worker::new("lsp-c23-replay2", SCHEMA);
            let f2 = check_doc(&mut w2, &spec).0;
            if format!("{f1:?}") != format!("{f2:?}") {
                machinery_error("replay is not deterministic");
            }
            println!("document: {:?}", build(&spec).text);
            f1
        };
        for f in &fails {
            println!("  {} :: {}", f.sig, f.what);
        }
        if !fails.is_empty() {
            println!("VIOLATION property=C23 replay={}", path.display());
            return 1;
        }
        println!("REPLAY: no failure");
        return 0;
    }
    let mut ev = Evidence::new(args, "exploration");
    let mut all = specs();
    let gb = args.tier.pick(10, 12);
    all.extend(grammar_specs(gb, args.tier.pick(&LEADS[..1], &LEADS[..])));
    let results = par_map_with(&all, args.jobs, |j| Worker::new(&format!("lsp-c23-{j}"), SCHEMA), |w, s| check_doc(w, s));
    let mut verdict = Verdict::new("C23");
    let helper_evals = helper_sweep(&mut verdict);
    let mut tot = DocStats::default();
    let mut outcomes: BTreeSet<(u64, u64, u64)> = BTreeSet::new();
    for (s, (fails, st)) in all.iter().zip(&results) {
        tot.tokens += st.tokens;
        tot.diags += st.diags;
        tot.variants += st.variants;
        tot.hover_calls += st.hover_calls;
        tot.hover_answers += st.hover_answers;
        tot.edits += st.edits;
        outcomes.insert((st.tokens, st.diags, st.hover_answers));
        for f in fails {
            verdict.add(Violation { signature: f.sig.clone(), what: f.what.clone(), case: serde_json::to_value(s).unwrap() });
        }
    }
    // simplest first: fewest literals, shortest document
    verdict.violations.sort_by_key(|v| if v.case.get("helper").is_some() { (0, 0) } else { (v.case["lits"].as_array().map(|a| a.len()).unwrap_or(0), v.case.to_string().len()) });
    let mut per_sig: BTreeMap<String, usize> = BTreeMap::new();
    for v in &verdict.violations {
        *per_sig.entry(v.signature.clone()).or_default() += 1;
    }
    for (s, n) in &per_sig {
        println!("INFO signature {s}: {n} document(s)");
    }
    let (code, n_new, known) = verdict.conclude("lsp_mc/c23");
    ev.violations = n_new as i64;
    let mut samples: Vec<Value> = pick_samples(&all).iter().map(|s| serde_json::to_value(s).unwrap()).collect();
    for k in &known {
        if let Some(v) = verdict.violations.iter().find(|v| &v.signature == k) {
            samples.push(json!({"known_finding": k, "case": v.case, "what": v.what}));
        }
    }
    let evaluations = tot.tokens + tot.variants + tot.edits + 2 * tot.hover_calls + helper_evals;
    ev.set("evaluations", evaluations)
        .set("distinct_nontrivial", all.len() as u64)
        .set("rule", "evaluations = positions / ranges judged: decoded semantic tokens + diagnostic publications (clean + single-fault variants) + formatting edits + hover and definition requests at every char-boundary offset of every literal + helper calls; non-trivial = distinct documents")
        .set("documents", all.len() as u64)
        .set("corpus_literals", corpus().len() as u64)
        .set("grammar_token_budget", gb as u64)
        .set("semantic_tokens_decoded", tot.tokens)
        .set("diagnostic_publications", tot.variants)
        .set("diagnostics_compared", tot.diags)
        .set("formatting_edits", tot.edits)
        .set("cursor_positions", tot.hover_calls)
        .set("hover_answers", tot.hover_answers)
        .set("helper_calls", helper_evals)
        .set("outcomes", outcomes.len() as u64)
        .set("samples", json!(samples))
        .set("known_findings_reobserved", json!(known))
        .set("exhaustive", true);
    ev.assume("the UTF-16 position reference is mc/lsp_mc/src/text.rs (LSP 3.17 Position; a column beyond the line end designates the line end, so a token length that includes the line terminator is accepted)");
    ev.assume("the expected node under a cursor is what the repository's own resolve() and semantic lookups yield at the true byte offset; expected definition ranges are the compiler's own EmbeddedLocations mapped by the UTF-16 reference");
    ev.assume("hover answers carry no range in this server, so hover is judged on its subject only");
    ev.write();
    if tot.tokens < 1000 || tot.diags < 100 || tot.hover_answers < 1000 || outcomes.len() < 10 {
        machinery_error(&format!("vacuous: tokens {} diagnostics {} hover answers {} outcomes {}", tot.tokens, tot.diags, tot.hover_answers, outcomes.len()));
    }
    println!(
        "lsp_mc C23: {} documents, {} semantic tokens, {} diagnostic publications ({} diagnostics), {} edits, {} cursor positions ({} hover answers), {} helper calls, {} new violation signature(s), known {:?}",
        all.len(),
        tot.tokens,
        tot.variants,
        tot.diags,
        tot.edits,
        tot.hover_calls,
        tot.hover_answers,
        helper_evals,
        n_new,
        known
    );
    code
}

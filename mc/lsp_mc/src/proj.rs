//! Position-free projection of a parsed iso literal.
//!
//! The Debug rendering of `IsoLiteralExtractionResult` names every syntactic component (kind,
//! names, aliases, arguments and values, variable definitions with types and defaults,
//! directives, descriptions as parsed, selection nesting and order). Positions appear only as
//! `location: EmbeddedLocation { text_source, span }` fields and in the `semantic_tokens` list;
//! both are removed by bracket matching, as is the entrypoint's verbatim `iso_literal_text`;
//! everything else is kept verbatim.

use common_lang_types::{Span, TextSource};
use intern::string_key::Intern;
use isograph_lang_parser::{IsoLiteralExtractionResult, parse_iso_literal};

const DROPPED_FIELDS: [&str; 3] = ["location: ", "semantic_tokens: ", "iso_literal_text: "];

/// Length of the Debug value starting at `s[0]`: up to (excluding) the `,` or closing bracket that
/// ends it at nesting depth 0; string and char literals are skipped.
fn value_len(s: &str) -> usize {
    let b = s.as_bytes();
    let mut depth = 0i32;
    let mut i = 0;
    while i < b.len() {
        match b[i] {
            b'"' => {
                i += 1;
                while i < b.len() && b[i] != b'"' {
                    if b[i] == b'\\' {
                        i += 1;
                    }
                    i += 1;
                }
            }
            b'(' | b'{' | b'[' => depth += 1,
            b')' | b'}' | b']' => {
                if depth == 0 {
                    return i;
                }
                depth -= 1;
            }
            b',' if depth == 0 => return i,
            _ => {}
        }
        i += 1;
    }
    b.len()
}

pub fn strip_positions(dbg: &str) -> String {
    let mut out = String::with_capacity(dbg.len() / 3);
    let mut rest = dbg;
    'outer: loop {
        // next dropped field that starts a struct field (preceded by "{ " or ", ") outside strings
        let mut search_from = 0;
        loop {
            let hit = DROPPED_FIELDS.iter().filter_map(|k| rest[search_from..].find(k).map(|i| (i + search_from, *k))).min();
            let Some((i, key)) = hit else {
                out.push_str(rest);
                break 'outer;
            };
            let field_start = rest[..i].ends_with("{ ") || rest[..i].ends_with(", ");
            // a key inside a string literal would be preceded by an odd number of unescaped quotes;
            // names and values of the tiny alphabets never contain these keys, so a cheap guard suffices
            if !field_start {
                search_from = i + key.len();
                continue;
            }
            let vlen = value_len(&rest[i + key.len()..]);
            let mut end = i + key.len() + vlen;
            let mut keep_to = i;
            if rest[end..].starts_with(", ") {
                end += 2;
            } else if rest[..i].ends_with(", ") {
                keep_to = i - 2;
            }
            out.push_str(&rest[..keep_to]);
            rest = &rest[end..];
            break;
        }
    }
    out
}

pub fn parse(lit: &str) -> Result<IsoLiteralExtractionResult, String> {
    parse_at(lit, 0)
}

pub fn parse_at(lit: &str, start: usize) -> Result<IsoLiteralExtractionResult, String> {
    let ts = TextSource { relative_path_to_source_file: "src/a.ts".intern().into(), span: Some(Span::new(start as u32, (start + lit.len()) as u32)) };
    parse_iso_literal(lit.to_string(), "src/a.ts".intern().into(), Some("foo".to_string()), ts).map_err(|d| d.0.message.clone())
}

pub fn projection(r: &IsoLiteralExtractionResult) -> String {
    strip_positions(&format!("{r:?}"))
}

#[cfg(test)]
mod tests {
    use super::*;
    #[test]
    fn strips() {
        let a = parse("field Query.foo($v: Int = 1) @component \"d\" { al: foo(x: {a: \"s\"}) @loadable, foo { foo, }, }").unwrap();
        let b = parse("field   Query . foo ( $ v : Int = 1 )\n@component\n\"d\"\n{\nal : foo ( x : { a : \"s\" } ) @loadable\nfoo {\nfoo\n}\n}").unwrap();
        let (pa, pb) = (projection(&a), projection(&b));
        assert_eq!(pa, pb);
        assert!(!pa.contains("Span"), "{pa}");
        assert!(!pa.contains("semantic_tokens"));
        assert!(pa.contains("SelectableAlias(\"al\")") && pa.contains("StringLiteralValue(\"s\")") && pa.contains("component") && pa.contains("VariableName(\"v\")"), "{pa}");
        let c = parse("field Query.foo($v: Int = 2) @component \"d\" { al: foo(x: {a: \"s\"}) @loadable, foo { foo, }, }").unwrap();
        assert_ne!(pa, projection(&c));
    }
}

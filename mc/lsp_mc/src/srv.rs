//! A real language-server state (`isograph_lsp::verif::LspState`) over a real project directory in
//! /dev/shm, driven through the real notification and request handlers. Only the stdio transport,
//! the tokio select loop and its timers are absent.

use common_lang_types::{CurrentWorkingDirectory, Diagnostic};
use crossbeam::channel::{Receiver, Sender};
use graphql_network_protocol::GraphQLAndJavascriptProfile;
use intern::string_key::Intern;
use isograph_compiler::watch::{ChangedFileKind, SourceEventKind};
use isograph_compiler::{CompilerState, update_sources};
use isograph_config::create_config;
use isograph_lsp::text_document::{on_did_change_text_document, on_did_close_text_document, on_did_open_text_document};
use isograph_lsp::verif::{LspState, on_format, on_goto_definition, on_hover, on_semantic_token_full_request, publish_diagnostics};
use isograph_schema::validate_entire_schema;
use lsp_types::{GotoDefinitionResponse, Hover, Position, PublishDiagnosticsParams, SemanticToken, SemanticTokensResult, TextEdit, Uri};
use mc_core::machinery_error;
use serde_json::json;
use std::collections::BTreeSet;
use std::path::{Path, PathBuf};
use std::str::FromStr;

pub type Profile = GraphQLAndJavascriptProfile;

/// comp_mc's universe schema (mc/comp_mc/src/progx.rs), plus a type with a non-ASCII description
/// so that the schema file itself has non-ASCII text before some definitions.
pub const SCHEMA: &str = r#"
type Query {
  me: User!
  user(id: ID!): User
  users(first: Int, name: String): [User!]!
  node(id: ID!): Node
  pet(id: ID!, input: PetInput): Pet
  count: Int
  search(text: String!, kind: Kind): [SearchResult]
}

interface Node {
  id: ID!
}

"""
A user
"""
type User implements Node {
  id: ID!
  name: String!
  "the nick"
  nick: String
  age: Int
  kind: Kind
  homepage: Url
  friends(first: Int): [User!]
  bestFriend: User
  pets: [Pet!]!
}

type Pet implements Node {
  id: ID!
  name: String!
  owner: User
  tag(style: String, n: Int): String
}

union SearchResult = User | Pet

enum Kind {
  RED
  GREEN
}

input PetInput {
  name: String
  n: Int
  nested: NestedInput
}

input NestedInput {
  a: Int
}

scalar Url

type Mutation {
  set_name(id: ID!, name: String!): SetNameResponse!
}

type SetNameResponse {
  user: User!
}
"#;

pub fn write_project(dir: &Path, schema: &str, files: &[(&str, &str)]) {
    let _ = std::fs::remove_dir_all(dir);
    std::fs::create_dir_all(dir.join("src")).unwrap_or_else(|e| machinery_error(&format!("mkdir: {e}")));
    std::fs::write(dir.join("schema.graphql"), schema).unwrap();
    let cfg = json!({"project_root": "./src", "schema": "./schema.graphql", "options": {}});
    std::fs::write(dir.join("isograph.config.json"), serde_json::to_string_pretty(&cfg).unwrap()).unwrap();
    for (p, c) in files {
        std::fs::write(dir.join("src").join(p), c).unwrap();
    }
}

pub fn uri_of(dir: &Path, file: &str) -> Uri {
    Uri::from_str(&format!("file://{}/src/{}", dir.display(), file)).unwrap_or_else(|e| machinery_error(&format!("uri: {e}")))
}

pub fn path_of(dir: &Path, file: &str) -> PathBuf {
    dir.join("src").join(file)
}

/// One diagnostic as the client receives it.
#[derive(Debug, Clone, PartialEq, Eq, PartialOrd, Ord)]
pub struct ClientDiag {
    pub uri: String,
    pub range: (u32, u32, u32, u32),
    pub message: String,
}

pub struct Server<'a> {
    pub dir: PathBuf,
    pub state: LspState<'a, Profile>,
    pub rx: Receiver<lsp_server::Message>,
    pub uris_with_diagnostics: BTreeSet<Uri>,
}

pub fn channel() -> (Sender<lsp_server::Message>, Receiver<lsp_server::Message>) {
    crossbeam::channel::unbounded()
}

impl<'a> Server<'a> {
    /// What `server::run` does before entering its loop.
    pub fn start(dir: &Path, tx: &'a Sender<lsp_server::Message>, rx: Receiver<lsp_server::Message>) -> Server<'a> {
        let cwd: CurrentWorkingDirectory = dir.to_str().unwrap().intern().into();
        let config = create_config(&dir.join("isograph.config.json"), cwd);
        let compiler_state: CompilerState<Profile> = CompilerState::new(config, cwd).unwrap_or_else(|e| machinery_error(&format!("CompilerState::new: {e}")));
        Server { dir: dir.to_path_buf(), state: LspState::new(compiler_state, tx), rx, uris_with_diagnostics: BTreeSet::new() }
    }

    /// A server whose channel sender is leaked (16 bytes per server), so that the server can be
    /// kept in a long-lived worker struct.
    pub fn start_leaked(dir: &Path) -> Server<'static> {
        let (tx, rx) = channel();
        Server::start(dir, Box::leak(Box::new(tx)), rx)
    }

    pub fn did_open(&mut self, file: &str, text: &str) {
        let params = serde_json::from_value(json!({"textDocument": {"uri": uri_of(&self.dir, file), "languageId": "typescript", "version": 1, "text": text}})).unwrap();
        on_did_open_text_document(&mut self.state, params).unwrap_or_else(|e| machinery_error(&format!("didOpen: {e:?}")));
    }

    pub fn did_change(&mut self, file: &str, text: &str) {
        let params = serde_json::from_value(json!({"textDocument": {"uri": uri_of(&self.dir, file), "version": 2}, "contentChanges": [{"text": text}]})).unwrap();
        on_did_change_text_document(&mut self.state, params).unwrap_or_else(|e| machinery_error(&format!("didChange: {e:?}")));
    }

    pub fn did_close(&mut self, file: &str) {
        let params = serde_json::from_value(json!({"textDocument": {"uri": uri_of(&self.dir, file)}})).unwrap();
        on_did_close_text_document(&mut self.state, params).unwrap_or_else(|e| machinery_error(&format!("didClose: {e:?}")));
    }

    /// A write to the disk followed by the watcher's event, as the file-system branch of
    /// `server::run` handles it.
    pub fn disk_write(&mut self, file: &str, text: &str) -> Result<(), String> {
        let path = path_of(&self.dir, file);
        std::fs::write(&path, text).unwrap_or_else(|e| machinery_error(&format!("write: {e}")));
        let r = update_sources(&mut self.state.compiler_state.db, &[(SourceEventKind::CreateOrModify(path), ChangedFileKind::JavaScriptSourceFile)]);
        self.state.compiler_state.run_garbage_collection();
        r.map_err(|e| e.iter().map(|d| d.to_string()).collect::<Vec<_>>().join("; "))
    }

    /// The compiler's own diagnostics, as the debounce branch of `server::run` computes them
    /// (`validate_entire_schema(..).clone_err().err().unwrap_or_default()`). If that branch ever
    /// gathers diagnostics from more sources, this function must follow it.
    pub fn compute_diagnostics(&self) -> Vec<Diagnostic> {
        validate_entire_schema(&self.state.compiler_state.db).as_ref().map_err(|e| e.clone()).err().unwrap_or_default()
    }

    /// The debounce timer firing: compute + publish; returns the notifications the client gets.
    pub fn validate(&mut self) -> (Vec<Diagnostic>, Vec<PublishDiagnosticsParams>) {
        let diagnostics = self.compute_diagnostics();
        let old = std::mem::take(&mut self.uris_with_diagnostics);
        self.uris_with_diagnostics = publish_diagnostics(&self.state.compiler_state.db, &diagnostics, self.state.sender, old);
        let mut out = vec![];
        while let Ok(m) = self.rx.try_recv() {
            match m {
                lsp_server::Message::Notification(n) if n.method == "textDocument/publishDiagnostics" => {
                    out.push(serde_json::from_value::<PublishDiagnosticsParams>(n.params).unwrap_or_else(|e| machinery_error(&format!("publishDiagnostics params: {e}"))));
                }
                other => machinery_error(&format!("unexpected message from the server: {other:?}")),
            }
        }
        (diagnostics, out)
    }

    pub fn format(&self, file: &str) -> Result<Option<Vec<TextEdit>>, String> {
        let params = serde_json::from_value(json!({"textDocument": {"uri": uri_of(&self.dir, file)}, "options": {"tabSize": 2, "insertSpaces": true}})).unwrap();
        on_format(&self.state, params).map_err(|e| format!("{e:?}"))
    }

    pub fn semantic_tokens(&self, file: &str) -> Result<Option<Vec<SemanticToken>>, String> {
        let params = serde_json::from_value(json!({"textDocument": {"uri": uri_of(&self.dir, file)}})).unwrap();
        match on_semantic_token_full_request(&self.state, params) {
            Ok(None) => Ok(None),
            Ok(Some(SemanticTokensResult::Tokens(t))) => Ok(Some(t.data)),
            Ok(Some(SemanticTokensResult::Partial(_))) => Err("partial result".to_string()),
            Err(e) => Err(format!("{e:?}")),
        }
    }

    pub fn hover(&self, file: &str, p: Position) -> Result<Option<Hover>, String> {
        let params = serde_json::from_value(json!({"textDocument": {"uri": uri_of(&self.dir, file)}, "position": p})).unwrap();
        on_hover(&self.state, params).map_err(|e| format!("{e:?}"))
    }

    pub fn goto_definition(&self, file: &str, p: Position) -> Result<Option<GotoDefinitionResponse>, String> {
        let params = serde_json::from_value(json!({"textDocument": {"uri": uri_of(&self.dir, file)}, "position": p})).unwrap();
        on_goto_definition(&self.state, params).map_err(|e| format!("{e:?}"))
    }
}

/// Flatten publishDiagnostics notifications to a sorted set of (uri, range, message).
pub fn client_diags(params: &[PublishDiagnosticsParams]) -> Vec<ClientDiag> {
    let mut v: Vec<ClientDiag> = params
        .iter()
        .flat_map(|p| {
            p.diagnostics.iter().map(move |d| ClientDiag {
                uri: p.uri.as_str().to_string(),
                range: (d.range.start.line, d.range.start.character, d.range.end.line, d.range.end.character),
                message: d.message.clone(),
            })
        })
        .collect();
    v.sort();
    v
}

pub fn hover_text(h: &Option<Hover>) -> Option<String> {
    h.as_ref().map(|h| match &h.contents {
        lsp_types::HoverContents::Markup(m) => m.value.clone(),
        other => format!("{other:?}"),
    })
}

/// A worker's long-lived real server over one project directory with a single document src/a.ts
/// (plus optional further files). The document is replaced through didOpen / didChange, as an
/// editor does. The server is restarted after a panic (its state may be poisoned) and every
/// `RESTART_EVERY` documents (the real server garbage-collects on a timer instead).
pub struct Worker {
    pub scratch: mc_core::Scratch,
    pub schema: String,
    pub srv: Option<Server<'static>>,
    opened: bool,
    docs: usize,
}

const RESTART_EVERY: usize = 400;

impl Worker {
    pub fn new(tag: &str, schema: &str) -> Worker {
        Worker { scratch: mc_core::Scratch::new(tag), schema: schema.to_string(), srv: None, opened: false, docs: 0 }
    }
    pub fn dir(&self) -> PathBuf {
        self.scratch.path().to_path_buf()
    }
    pub fn reset(&mut self) {
        self.srv = None;
        self.opened = false;
        self.docs = 0;
    }
    pub fn server(&mut self) -> &mut Server<'static> {
        if self.srv.is_none() {
            write_project(self.scratch.path(), &self.schema, &[("a.ts", "export const unused = 1;\n")]);
            self.srv = Some(Server::start_leaked(self.scratch.path()));
            self.opened = false;
        }
        self.srv.as_mut().unwrap()
    }
    /// Make `text` the content of src/a.ts as the editor sees it.
    pub fn set_doc(&mut self, text: &str) {
        self.docs += 1;
        if self.docs > RESTART_EVERY {
            self.reset();
        }
        let opened = self.opened;
        let s = self.server();
        if opened {
            s.did_change("a.ts", text);
        } else {
            s.did_open("a.ts", text);
        }
        self.opened = true;
    }
}

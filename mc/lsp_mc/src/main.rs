//! lsp_mc — bounded-exhaustive exploration of the real language-server handlers
//! (`isograph_lsp::verif`, hook 4) on a real `LspState` over a real project directory:
//! C21 (server = fresh server, histories), C22 (formatting), C23 (positions).

mod c21;
mod c22;
mod c23;
mod par;
mod proj;
mod srv;
mod text;

use mc_core::*;

fn main() {
    let args = Args::parse();
    let code = match args.property.as_str() {
        "C21" => c21::main(&args),
        "C22" => c22::main(&args),
        "C23" => c23::main(&args),
        _ => machinery_error("lsp_mc serves C21 C22 C23"),
    };
    std::process::exit(code);
}

//! C22 — formatting preserves meaning and is idempotent; its edits replace exactly the literal.
//!
//! Enumerated: every sentence of the reference grammar (mc_core::isogen) up to 14 / 16 tokens
//! (plain alphabet; quick / thorough) and up to 12 / 14 tokens (rich alphabet: second name, more
//! values, non-ASCII string and block-string description), plus three focused families with every
//! argument list / variable definition list up to 12 / 14 tokens, each in 6 separator layouts (space in {" ", "  "} x line break in
//! {"\n", ",\n", " , "}) that the real parser accepts, each embedded after 5 document prefixes
//! (none, ASCII comment line, non-ASCII comment line, non-BMP comment on the same line, non-ASCII
//! on the previous line + indentation). Each document is given to a real `LspState` through
//! didOpen / didChange and formatted by the real `on_format`.

use crate::par::par_map_with;
use crate::proj::{parse, projection};
use crate::srv::{SCHEMA, Worker};
use crate::text::{apply_edits, byte_range_of, fmt_range, range_of};
use mc_core::isogen::{self, T};
use mc_core::*;
use serde_json::{Value, json};
use std::collections::BTreeSet;
use std::panic::{AssertUnwindSafe, catch_unwind};

pub const OPEN: &str = "export const foo = iso(`";
pub const CLOSE: &str = "`)(x => x);\n";
pub const PRES: [&str; 5] = ["", "// x\n", "// é\n", "/* 𝄞 */ ", "const a = 'é';\n  "];
pub const POST: &str = "// ü\n";

#[derive(Debug, Clone)]
pub struct Fail {
    pub sig: String,
    pub what: String,
}

pub fn panic_sig(msg: &str) -> String {
    format!("panic:{}", msg.chars().filter(|c| !c.is_ascii_digit()).take(90).collect::<String>())
}

fn strip_digits(s: &str) -> String {
    s.chars().filter(|c| !c.is_ascii_digit()).take(80).collect()
}

#[derive(Debug, Default)]
pub struct Obs {
    pub formatted: Option<String>,
    pub changed: bool,
}

/// All oracles of C22 on one document. `lit` must be accepted by the parser.
pub fn check_case(w: &mut Worker, pre: &str, lit: &str, post: &str) -> (Vec<Fail>, Obs) {
    let mut fails = vec![];
    let mut obs = Obs::default();
    let before = match parse(lit) {
        Ok(r) => r,
        Err(e) => return (vec![Fail { sig: "harness:literal-rejected".into(), what: format!("the parser rejects the input literal: {e}") }], obs),
    };
    let d = format!("{pre}{OPEN}{lit}{CLOSE}{post}");
    let (ls, le) = (pre.len() + OPEN.len(), pre.len() + OPEN.len() + lit.len());
    let r = catch_unwind(AssertUnwindSafe(|| {
        w.set_doc(&d);
        w.server().format("a.ts")
    }));
    let edits = match r {
        Err(p) => {
            w.reset();
            let m = panic_message(&*p);
            return (vec![Fail { sig: panic_sig(&m), what: format!("on_format panicked: {m}") }], obs);
        }
        Ok(Err(e)) => return (vec![Fail { sig: "format-error".into(), what: format!("on_format returned an error for a document with one accepted literal: {e}") }], obs),
        Ok(Ok(None)) => return (vec![Fail { sig: "format-no-answer".into(), what: "on_format returned null for a project file with one accepted literal".into() }], obs),
        Ok(Ok(Some(v))) => v,
    };
    if edits.len() != 1 {
        fails.push(Fail { sig: "edit-count".into(), what: format!("{} edits for a document with exactly one (accepted) literal", edits.len()) });
        return (fails, obs);
    }
    let formatted = edits[0].new_text.clone();
    obs.changed = formatted != lit;
    obs.formatted = Some(formatted.clone());
    let expected_doc = format!("{pre}{OPEN}{formatted}{CLOSE}{post}");
    // (1) the edit designates exactly the literal (LSP semantics: line + UTF-16 column)
    let want = range_of(&d, ls, le);
    if edits[0].range != want {
        let applied = apply_edits(&d, &edits);
        if applied.as_deref() != Ok(expected_doc.as_str()) {
            let byte_model = edits[0].range == byte_range_of(&d, ls, le);
            let designated = match crate::text::range_to_offsets(&d, edits[0].range) {
                Ok((a, b)) => format!("{:?}", &d[a..b]),
                Err(e) => format!("<invalid: {e}>"),
            };
            fails.push(Fail {
                sig: if byte_model { "edit-range-byte-columns".into() } else { "edit-range-wrong".into() },
                what: format!(
                    "edit range {} designates {} under UTF-16 columns; the literal is at {}{}",
                    fmt_range(edits[0].range),
                    designated,
                    fmt_range(want),
                    if byte_model { " (the range sent is line + BYTE column)" } else { "" }
                ),
            });
        }
    }
    // (2) the output is accepted and denotes the same declaration
    match parse(&formatted) {
        Err(e) => fails.push(Fail { sig: format!("formatted-rejected:{}", strip_digits(&e)), what: format!("the formatter's output {formatted:?} is rejected by the parser: {e}") }),
        Ok(after) => {
            let (pa, pb) = (projection(&before), projection(&after));
            if pa != pb {
                let i = pa.bytes().zip(pb.bytes()).take_while(|(a, b)| a == b).count();
                let ctx = |s: &str| s[i.saturating_sub(60).min(s.len())..].chars().take(140).collect::<String>();
                fails.push(Fail { sig: "meaning-changed".into(), what: format!("formatted output {formatted:?} parses to a different declaration: before ..{}.. after ..{}..", ctx(&pa), ctx(&pb)) });
            }
        }
    }
    // (3) formatting the formatted document changes nothing
    let r2 = catch_unwind(AssertUnwindSafe(|| {
        w.set_doc(&expected_doc);
        w.server().format("a.ts")
    }));
    match r2 {
        Err(p) => {
            w.reset();
            let m = panic_message(&*p);
            fails.push(Fail { sig: panic_sig(&m), what: format!("on_format panicked on the formatted document: {m}") });
        }
        Ok(Ok(Some(e2))) => {
            // judged on the replacement texts (range defects are reported by (1))
            let fls = pre.len() + OPEN.len();
            if e2.len() > 1 || e2.iter().any(|e| e.new_text != formatted) {
                // root-cause model, used only to name the class: the first output contains
                // whitespace-only lines (emitted for a removed comma that follows a line-ending
                // token) which the second pass, seeing no comma, no longer emits
                let without_blank_lines: String = formatted.split_inclusive('\n').filter(|l| !(l.ends_with('\n') && l.trim().is_empty() && l.len() > 1)).collect();
                let blank_model = e2.len() == 1 && e2[0].new_text == without_blank_lines;
                fails.push(Fail { sig: if blank_model { "not-idempotent:whitespace-only-line-for-removed-comma".into() } else { "not-idempotent".into() }, what: format!("formatting {formatted:?} again gives {:?}", e2.iter().map(|e| e.new_text.clone()).collect::<Vec<_>>()) });
            } else if let Some(e) = e2.first() {
                let want2 = range_of(&expected_doc, fls, fls + formatted.len());
                if e.range != want2 && apply_edits(&expected_doc, &e2).as_deref() != Ok(expected_doc.as_str()) {
                    let byte_model = e.range == byte_range_of(&expected_doc, fls, fls + formatted.len());
                    if !fails.iter().any(|f| f.sig.starts_with("edit-range")) {
                        fails.push(Fail {
                            sig: if byte_model { "edit-range-byte-columns".into() } else { "edit-range-wrong".into() },
                            what: format!("second formatting: edit range {} but the (formatted) literal is at {}", fmt_range(e.range), fmt_range(want2)),
                        });
                    }
                }
            }
        }
        Ok(Ok(None)) => fails.push(Fail { sig: "format-no-answer".into(), what: "on_format returned null for the formatted document".into() }),
        Ok(Err(e)) => fails.push(Fail { sig: "format-error".into(), what: format!("on_format failed on the formatted document: {e}") }),
    }
    (fails, obs)
}

fn replace_unparsable_tokens(s: &isogen::Sentence) -> isogen::Sentence {
    // the iso lexer accepts BMP characters only inside strings; keep a non-ASCII string argument
    s.iter().map(|t| if *t == T::S("\"é𝄞\"") { T::S("\"é\"") } else { *t }).collect()
}

/// Distinct accepted literal texts of the enumeration: whole-literal sentences up to the budgets,
/// plus focused families that reach deeper argument / value shapes (object values with two
/// entries, nested objects, variable definitions with defaults, directive arguments) than the
/// whole-literal budget can: `field Query.foo { foo ARGS, }`, `field Query.foo VARDEFS { }`,
/// `field Query.foo @d ARGS { }`.
pub fn literal_texts(budget_plain: usize, budget_rich: usize, budget_args: usize) -> (Vec<String>, usize, usize) {
    let mut set = BTreeSet::new();
    let (mut sentences, mut rejected) = (0, 0);
    let mut all: Vec<isogen::Sentence> = vec![];
    for (rich, budget) in [(false, budget_plain), (true, budget_rich)] {
        let mut g = isogen::Gen::new(rich);
        all.extend(g.literals(budget));
    }
    let head = [T::S("field"), T::S("Query"), T::S("."), T::S("foo")];
    for (rich, budget) in [(false, budget_args), (true, budget_args - 1)] {
        let mut g = isogen::Gen::new(rich);
        for a in g.args(budget) {
            let mut s = head.to_vec();
            s.extend([T::S("{"), T::S("foo")]);
            s.extend(a.iter().copied());
            s.extend([T::Nl, T::S("}")]);
            all.push(s);
            let mut s = head.to_vec();
            s.extend([T::S("@"), T::S("d")]);
            s.extend(a.iter().copied());
            s.extend([T::S("{"), T::S("}")]);
            all.push(s);
        }
        for v in g.var_defs(budget) {
            let mut s = head.to_vec();
            s.extend(v.iter().copied());
            s.extend([T::S("{"), T::S("}")]);
            all.push(s);
        }
    }
    for s in all {
        sentences += 1;
        let s = replace_unparsable_tokens(&s);
        for space in [" ", "  "] {
            for nl in ["\n", ",\n", " , "] {
                let t = isogen::render_with(&s, space, nl);
                if set.contains(&t) {
                    continue;
                }
                if parse(&t).is_ok() {
                    set.insert(t);
                } else {
                    rejected += 1;
                }
            }
        }
    }
    (set.into_iter().collect(), sentences, rejected)
}

fn run_case(w: &mut Worker, case: &Value) -> Vec<Fail> {
    let g = |k: &str| case[k].as_str().unwrap_or_else(|| machinery_error(&format!("replay case lacks {k}"))).to_string();
    check_case(w, &g("pre"), &g("literal"), &g("post")).0
}

pub fn main(args: &Args) -> i32 {
    quiet_panics();
    if let Some(path) = &args.replay {
        let v = read_replay(path);
        let mut w = Worker::new("lsp-c22-replay", SCHEMA);
        let f1 = run_case(&mut w, &v["case"]);
        let mut w2 = Worker::new("lsp-c22-replay2", SCHEMA);
        let f2 = run_case(&mut w2, &v["case"]);
        if format!("{f1:?}") != format!("{f2:?}") {
            machinery_error("replay is not deterministic");
        }
        println!("case: {}", v["case"]);
        for f in &f1 {
            println!("  {} :: {}", f.sig, f.what);
        }
        if !f1.is_empty() {
            println!("VIOLATION property=C22 replay={}", path.display());
            return 1;
        }
        println!("REPLAY: no failure");
        return 0;
    }
    let mut ev = Evidence::new(args, "exploration");
    let (bp, br, ba) = (args.tier.pick(14, 16), args.tier.pick(12, 14), args.tier.pick(12, 14));
    let (lits, sentences, rejected) = literal_texts(bp, br, ba);
    let cases: Vec<(usize, usize)> = (0..lits.len()).flat_map(|i| (0..PRES.len()).map(move |p| (i, p))).collect();
    let results = par_map_with(&cases, args.jobs, |j| Worker::new(&format!("lsp-c22-{j}"), SCHEMA), |w, (i, p)| check_case(w, PRES[*p], &lits[*i], POST));
    let mut verdict = Verdict::new("C22");
    let mut outcomes = BTreeSet::new();
    let (mut changed, mut formatted_docs) = (0u64, 0u64);
    for ((i, p), (fails, obs)) in cases.iter().zip(&results) {
        if let Some(f) = &obs.formatted {
            formatted_docs += 1;
            outcomes.insert(f.clone());
        }
        if obs.changed {
            changed += 1;
        }
        for f in fails {
            if f.sig.starts_with("harness:") {
                machinery_error(&f.what);
            }
            verdict.add(Violation { signature: f.sig.clone(), what: format!("pre {:?} literal {:?}: {}", PRES[*p], lits[*i], f.what), case: json!({"pre": PRES[*p], "literal": lits[*i], "post": POST}) });
        }
    }
    // simplest first: shortest literal, then shortest prefix
    verdict.violations.sort_by_key(|v| (v.case["literal"].as_str().map(|s| s.len()).unwrap_or(0), v.case["pre"].as_str().map(|s| s.len()).unwrap_or(0)));
    let mut per_sig: std::collections::BTreeMap<String, usize> = Default::default();
    for v in &verdict.violations {
        *per_sig.entry(v.signature.clone()).or_default() += 1;
    }
    for (s, n) in &per_sig {
        println!("INFO signature {s}: {n} case(s)");
    }
    if std::env::var("LSP_MC_DUMP").is_ok() {
        for v in &verdict.violations {
            println!("DUMP {} :: {}", v.signature, v.what);
        }
    }
    let (code, n_new, known) = verdict.conclude("lsp_mc/c22");
    ev.violations = n_new as i64;
    let mut sample_cases: Vec<Value> = pick_samples(&cases).iter().map(|(i, p)| json!({"pre": PRES[*p], "literal": lits[*i], "post": POST})).collect();
    for k in &known {
        if let Some(v) = verdict.violations.iter().find(|v| &v.signature == k) {
            sample_cases.push(json!({"known_finding": k, "case": v.case, "what": v.what}));
        }
    }
    ev.set("evaluations", cases.len() as u64)
        .set("distinct_nontrivial", lits.len() as u64)
        .set("rule", "documents = accepted literal texts (grammar sentences up to the token budgets x 6 separator layouts, deduplicated, parser-accepted) x 5 prefixes; each formatted twice by the real on_format; non-trivial = distinct accepted literal texts")
        .set("grammar_sentences", sentences as u64)
        .set("renderings_rejected_by_parser", rejected as u64)
        .set("token_budget_plain", bp as u64)
        .set("token_budget_rich", br as u64)
        .set("token_budget_argument_families", ba as u64)
        .set("documents_formatted", formatted_docs)
        .set("documents_changed_by_formatting", changed)
        .set("outcomes", outcomes.len() as u64)
        .set("samples", json!(sample_cases))
        .set("known_findings_reobserved", json!(known))
        .set("exhaustive", true);
    ev.assume("the reference grammar (mc/core/src/isogen.rs) generates the literal shapes; names and values come from tiny alphabets; strings hold BMP characters only (the lexer rejects others)");
    ev.assume("the position-free projection is the Debug rendering of the parse result without `location` fields and the semantic token list (mc/lsp_mc/src/proj.rs)");
    ev.assume("the UTF-16 position reference is mc/lsp_mc/src/text.rs (LSP 3.17 Position; columns beyond the line end clamp to the line end)");
    ev.write();
    if lits.len() < 100 || outcomes.len() < 20 {
        machinery_error("vacuous: fewer than 100 accepted literals or fewer than 20 distinct formatted outputs");
    }
    println!("lsp_mc C22: {} grammar sentences, {} accepted literal texts, {} documents, {} changed by formatting, {} distinct outputs, {} new violation signature(s), known {:?}", sentences, lits.len(), cases.len(), changed, outcomes.len(), n_new, known);
    code
}

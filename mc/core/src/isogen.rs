//! Reference grammar of iso literals, used as an *enumerator*: all sentences up to a token budget.
//!
//! The grammar mirrors crates/isograph_lang_parser/src/parse_iso_literal.rs production by
//! production (entrypoint / field / pointer headers, variable definitions with defaults, type
//! annotations, directives with arguments, descriptions, selection sets with aliases, arguments,
//! object values and nested selection sets, comma-or-line-break separators). Terminal alphabets are
//! deliberately tiny; the point is every *shape* up to the budget, not every name.

use std::collections::BTreeMap;

/// A lexical element of a generated sentence.
#[derive(Debug, Clone, Copy, PartialEq, Eq, PartialOrd, Ord, Hash)]
pub enum T {
    /// a token
    S(&'static str),
    /// the next token is separated by a line break instead of a space
    Nl,
}

pub type Sentence = Vec<T>;
type Lang = Vec<Sentence>;

pub fn tokens(s: &Sentence) -> usize {
    s.iter().filter(|t| matches!(t, T::S(_))).count()
}

/// Canonical rendering: single space between tokens, `\n` where the sentence asks for a line break.
pub fn render(s: &Sentence) -> String {
    render_with(s, " ", "\n")
}

pub fn render_with(s: &Sentence, space: &str, newline: &str) -> String {
    let mut out = String::new();
    let mut nl = false;
    let mut first = true;
    for t in s {
        match t {
            T::Nl => nl = true,
            T::S(x) => {
                if !first {
                    out.push_str(if nl { newline } else { space });
                }
                out.push_str(x);
                nl = false;
                first = false;
            }
        }
    }
    if nl {
        out.push_str(newline);
    }
    out
}

fn lit(s: &'static str) -> Lang {
    vec![vec![T::S(s)]]
}
fn lits(ss: &[&'static str]) -> Lang {
    ss.iter().map(|s| vec![T::S(s)]).collect()
}
fn eps() -> Lang {
    vec![vec![]]
}
fn alt(mut a: Lang, b: Lang) -> Lang {
    a.extend(b);
    a
}
fn opt(a: Lang) -> Lang {
    alt(eps(), a)
}
fn seq(a: &Lang, b: &Lang, budget: usize) -> Lang {
    let mut out = vec![];
    for x in a {
        let tx = tokens(x);
        if tx > budget {
            continue;
        }
        for y in b {
            if tx + tokens(y) <= budget {
                let mut z = x.clone();
                z.extend(y.iter().copied());
                out.push(z);
            }
        }
    }
    out
}
fn seqs(parts: &[&Lang], budget: usize) -> Lang {
    let mut acc = eps();
    for p in parts {
        acc = seq(&acc, p, budget);
    }
    acc
}

pub struct Gen {
    memo: BTreeMap<(&'static str, usize), Lang>,
    /// richer terminal alphabets (two names, more values)
    pub rich: bool,
}

impl Gen {
    pub fn new(rich: bool) -> Self {
        Gen { memo: BTreeMap::new(), rich }
    }

    fn memo(&mut self, key: &'static str, budget: usize, f: impl FnOnce(&mut Self) -> Lang) -> Lang {
        if let Some(l) = self.memo.get(&(key, budget)) {
            return l.clone();
        }
        let mut l = f(self);
        l.sort();
        l.dedup();
        self.memo.insert((key, budget), l.clone());
        l
    }

    fn name(&self) -> Lang {
        if self.rich { lits(&["foo", "b_2"]) } else { lit("foo") }
    }

    /// separator between list items: a comma token, or a line break
    fn sep() -> Lang {
        vec![vec![T::S(",")], vec![T::Nl]]
    }

    /// `( item (sep item)* sep? )` with `open`/`close`
    fn delimited(&mut self, open: &'static str, close: &'static str, item: &Lang, budget: usize, max_items: usize) -> Lang {
        let mut out = seqs(&[&lit(open), &lit(close)], budget);
        let mut items = item.clone();
        for _ in 0..max_items {
            // without and with trailing separator
            out.extend(seqs(&[&lit(open), &items, &lit(close)], budget));
            out.extend(seqs(&[&lit(open), &items, &Self::sep(), &lit(close)], budget));
            items = seqs(&[&items, &Self::sep(), item], budget);
            if items.is_empty() {
                break;
            }
        }
        out
    }

    pub fn type_ann(&mut self, budget: usize) -> Lang {
        self.memo("type", budget, |g| {
            let mut out = vec![];
            let named = lits(if g.rich { &["Int", "ID"] } else { &["Int"] });
            out.extend(seq(&named, &opt(lit("!")), budget));
            if budget >= 3 {
                let inner = g.type_ann(budget - 2);
                out.extend(seqs(&[&lit("["), &inner, &lit("]"), &opt(lit("!"))], budget));
            }
            out
        })
    }

    pub fn value(&mut self, budget: usize) -> Lang {
        self.memo("value", budget, |g| {
            let mut out = vec![];
            out.extend(seq(&lit("$"), &lit("v"), budget));
            // (a character outside the BMP is not a SourceCharacter; the parser rejects it in a string, see the token alphabet)
            out.extend(lits(if g.rich { &["\"s\"", "\"é\"", "1", "-1", "0", "true", "null"] } else { &["\"s\"", "1", "true"] }));
            if budget >= 2 {
                let inner = g.value(budget.saturating_sub(4));
                let entry = seqs(&[&lit("a"), &lit(":"), &inner], budget);
                out.extend(g.delimited("{", "}", &entry, budget, 2));
            }
            out.retain(|s| tokens(s) <= budget);
            out
        })
    }

    pub fn args(&mut self, budget: usize) -> Lang {
        self.memo("args", budget, |g| {
            let v = g.value(budget.saturating_sub(4));
            let arg = seqs(&[&lit("x"), &lit(":"), &v], budget);
            g.delimited("(", ")", &arg, budget, 2)
        })
    }

    /// directives of a declaration (free-form) — `selection` picks the directives selections accept
    pub fn directives(&mut self, budget: usize, selection: bool) -> Lang {
        let key = if selection { "sdir" } else { "ddir" };
        self.memo(key, budget, |g| {
            let mut one = vec![];
            if selection {
                one.extend(seqs(&[&lit("@"), &lit("loadable")], budget));
                one.extend(seqs(&[&lit("@"), &lit("updatable")], budget));
                one.extend(seqs(&[&lit("@"), &lit("loadable"), &lit("("), &lit("lazyLoadArtifact"), &lit(":"), &lit("true"), &lit(")")], budget));
            } else {
                one.extend(seqs(&[&lit("@"), &lit("component")], budget));
                let a = g.args(budget.saturating_sub(2));
                one.extend(seqs(&[&lit("@"), &lit("d"), &a], budget));
            }
            let mut out = one.clone();
            if !selection {
                out.extend(seq(&one, &one, budget));
            }
            out
        })
    }

    pub fn var_defs(&mut self, budget: usize) -> Lang {
        self.memo("vardefs", budget, |g| {
            let ty = g.type_ann(budget.saturating_sub(5));
            let val: Lang = g.value(budget.saturating_sub(7)).into_iter().filter(|v| !v.contains(&T::S("$"))).collect();
            let def = seqs(&[&lit("$"), &lit("v"), &lit(":"), &ty], budget);
            let def_default = seqs(&[&def, &lit("="), &val], budget);
            g.delimited("(", ")", &alt(def, def_default), budget, 2)
        })
    }

    pub fn selection(&mut self, budget: usize, depth: usize) -> Lang {
        let key = match depth {
            0 => "sel0",
            1 => "sel1",
            _ => "sel2",
        };
        self.memo(key, budget, |g| {
            let name = g.name();
            let aliased = alt(name.clone(), seqs(&[&lit("al"), &lit(":"), &name], budget));
            let args = opt(g.args(budget.saturating_sub(1)));
            let dirs = opt(g.directives(budget.saturating_sub(1), true));
            // object selections accept only @updatable, scalar selections @loadable / @updatable
            let obj_dirs = opt(seqs(&[&lit("@"), &lit("updatable")], budget));
            let mut out = seqs(&[&aliased, &args, &dirs, &Self::sep()], budget);
            if depth > 0 && budget >= 3 {
                let sub = g.selection_set(budget - 1, depth - 1);
                out.extend(seqs(&[&aliased, &args, &obj_dirs, &sub, &Self::sep()], budget));
            }
            // every selection is followed by a comma or a line break
            out
        })
    }

    pub fn selection_set(&mut self, budget: usize, depth: usize) -> Lang {
        let key = match depth {
            0 => "set0",
            1 => "set1",
            _ => "set2",
        };
        self.memo(key, budget, |g| {
            let mut out = seqs(&[&lit("{"), &lit("}")], budget);
            if budget >= 3 {
                let sel = g.selection(budget - 2, depth);
                let mut body = sel.clone();
                for _ in 0..3 {
                    out.extend(seqs(&[&lit("{"), &body, &lit("}")], budget));
                    body = seq(&body, &sel, budget - 2);
                    if body.is_empty() {
                        break;
                    }
                }
            }
            out
        })
    }

    pub fn description(&self) -> Lang {
        if self.rich { lits(&["\"d\"", "\"\"\"d\"\"\"", "\"\"\"\n  é\n  x\n\"\"\""]) } else { lits(&["\"d\"", "\"\"\"d\"\"\""]) }
    }

    /// All literals with at most `budget` tokens.
    pub fn literals(&mut self, budget: usize) -> Lang {
        let head = |kw: &'static str, budget: usize| seqs(&[&lit(kw), &lit("Query"), &lit("."), &lit("foo")], budget);
        let mut out = vec![];
        // entrypoint
        let d = opt(self.directives(budget.saturating_sub(4), false));
        out.extend(seqs(&[&head("entrypoint", budget), &d], budget));
        // field
        let rest = budget.saturating_sub(4);
        let vd = opt(self.var_defs(rest));
        let dirs = opt(self.directives(rest, false));
        let desc = opt(self.description());
        let set = self.selection_set(rest, 2);
        out.extend(seqs(&[&head("field", budget), &vd, &dirs, &desc, &set], budget));
        // pointer
        let ty = self.type_ann(rest.saturating_sub(1));
        out.extend(seqs(&[&head("pointer", budget), &vd, &lit("to"), &ty, &dirs, &desc, &set], budget));
        out.sort();
        out.dedup();
        out
    }
}

/// The token alphabet used for prefix extension and single-token mutation.
pub fn alphabet() -> Vec<&'static str> {
    vec![
        "field", "pointer", "entrypoint", "to", "Query", "foo", "true", "null", ".", "{", "}", "(", ")", ":", "$", "@", "=", "!", "[", "]", ",", "\"s\"", "\"é𝄞\"", "\"u", "\"\"\"d\"\"\"", "\"\"\"u", "1", "-1", "0",
        "99999999999999999999", "-99999999999999999999", "01", "1.5", "1e3", ".5", "é", "#c", "\\", "...",
    ]
}

//! Shared machinery for all model-checking engines under /verif/mc:
//! argument parsing, evidence files, replay files, known-findings matching and a
//! crash-isolating worker-process pool.
//!
//! Exit codes used by every engine binary:
//!   0  property held on everything explored (known findings are printed, never fatal)
//!   1  at least one violation that /verif/known_findings.json does not list
//!   2  machinery error (harness bug, vacuous exploration, worker infrastructure failure)

use serde::{Deserialize, Serialize};
use serde_json::{Value, json};
use std::collections::{BTreeMap, BTreeSet};
use std::io::Read;
use std::path::{Path, PathBuf};
use std::process::{Command, Stdio};
use std::time::{Duration, Instant};

/// Root of the verification tree: /verif, or the snapshot the check script runs from (`vp run`).
pub fn verif_root() -> PathBuf {
    PathBuf::from(std::env::var("VERIF_ROOT").unwrap_or_else(|_| "/verif".to_string()))
}

#[derive(Clone, Copy, Debug, PartialEq, Eq)]
pub enum Tier {
    Quick,
    Thorough,
}

impl Tier {
    pub fn as_str(&self) -> &'static str {
        match self {
            Tier::Quick => "quick",
            Tier::Thorough => "thorough",
        }
    }
    pub fn pick<T>(&self, quick: T, thorough: T) -> T {
        match self {
            Tier::Quick => quick,
            Tier::Thorough => thorough,
        }
    }
}

#[derive(Clone, Debug)]
pub struct Args {
    pub property: String,
    pub tier: Tier,
    pub replay: Option<PathBuf>,
    /// Set when this process is a worker of the pool: the shard description.
    pub worker: Option<String>,
    pub seed: i64,
    pub jobs: usize,
    pub rest: Vec<String>,
}

impl Args {
    /// `<bin> <property> [--tier quick|thorough] [--replay path] [--worker shard] [--jobs n] [rest..]`
    pub fn parse() -> Args {
        let mut it = std::env::args().skip(1);
        let property = it.next().unwrap_or_else(|| machinery_error("missing property id"));
        let mut tier = match std::env::var("VERIF_TIER").ok().as_deref() {
            Some("thorough") => Tier::Thorough,
            _ => Tier::Quick,
        };
        let mut replay = None;
        let mut worker = None;
        let mut jobs = std::thread::available_parallelism().map(|n| n.get()).unwrap_or(8);
        let mut rest = vec![];
        while let Some(a) = it.next() {
            match a.as_str() {
                "--tier" => {
                    tier = match it.next().as_deref() {
                        Some("quick") => Tier::Quick,
                        Some("thorough") => Tier::Thorough,
                        other => machinery_error(&format!("bad tier {other:?}")),
                    }
                }
                "--replay" => replay = Some(PathBuf::from(it.next().unwrap_or_else(|| machinery_error("--replay needs a path")))),
                "--worker" => worker = Some(it.next().unwrap_or_else(|| machinery_error("--worker needs a shard"))),
                "--jobs" => jobs = it.next().and_then(|s| s.parse().ok()).unwrap_or_else(|| machinery_error("--jobs needs n")),
                _ => rest.push(a),
            }
        }
        let seed = std::env::var("VERIF_SEED").ok().and_then(|s| s.parse().ok()).unwrap_or(0);
        Args { property, tier, replay, worker, seed, jobs, rest }
    }
}

pub fn machinery_error(msg: &str) -> ! {
    eprintln!("MACHINERY-ERROR: {msg}");
    println!("MACHINERY-ERROR: {msg}");
    std::process::exit(2)
}

// ---------------------------------------------------------------------------------------------
// Evidence
// ---------------------------------------------------------------------------------------------

pub struct Evidence {
    pub property: String,
    pub tier: Tier,
    pub seed: i64,
    pub level: &'static str,
    pub coverage: serde_json::Map<String, Value>,
    pub assumptions: Vec<String>,
    pub start: Instant,
    pub violations: i64,
}

impl Evidence {
    pub fn new(args: &Args, level: &'static str) -> Self {
        Evidence {
            property: args.property.clone(),
            tier: args.tier,
            seed: args.seed,
            level,
            coverage: serde_json::Map::new(),
            assumptions: vec![],
            start: Instant::now(),
            violations: 0,
        }
    }
    pub fn set(&mut self, key: &str, v: impl Into<Value>) -> &mut Self {
        self.coverage.insert(key.to_string(), v.into());
        self
    }
    pub fn assume(&mut self, s: &str) -> &mut Self {
        self.assumptions.push(s.to_string());
        self
    }
    pub fn write(&self) {
        let dir = verif_root().join("evidence");
        let _ = std::fs::create_dir_all(&dir);
        let v = json!({
            "property_id": self.property,
            "tier": self.tier.as_str(),
            "seed": self.seed,
            "level": self.level,
            "coverage": Value::Object(self.coverage.clone()),
            "assumptions": self.assumptions,
            "wall_s": (self.start.elapsed().as_secs_f64() * 1000.0).round() / 1000.0,
            "violations": self.violations,
        });
        let path = dir.join(format!("{}.json", self.property));
        let tmp = dir.join(format!(".{}.json.tmp", self.property));
        std::fs::write(&tmp, serde_json::to_string_pretty(&v).unwrap() + "\n")
            .unwrap_or_else(|e| machinery_error(&format!("cannot write evidence: {e}")));
        std::fs::rename(&tmp, &path).unwrap_or_else(|e| machinery_error(&format!("cannot write evidence: {e}")));
    }
}

// ---------------------------------------------------------------------------------------------
// Known findings and verdicts
// ---------------------------------------------------------------------------------------------

#[derive(Deserialize, Debug, Clone)]
pub struct Finding {
    pub property: String,
    /// "known" (recorded, suppresses exactly this signature) or "fixed" (documentation only, suppresses nothing)
    pub status: String,
    #[serde(default)]
    pub signature: String,
    #[serde(default)]
    pub what: String,
    #[serde(default)]
    pub commit: String,
}

#[derive(Deserialize, Debug, Default)]
pub struct FindingsFile {
    #[serde(default)]
    pub findings: Vec<Finding>,
}

pub fn load_findings() -> Vec<Finding> {
    let p = verif_root().join("known_findings.json");
    match std::fs::read_to_string(&p) {
        Ok(s) => serde_json::from_str::<FindingsFile>(&s)
            .unwrap_or_else(|e| machinery_error(&format!("known_findings.json does not parse: {e}")))
            .findings,
        Err(_) => vec![],
    }
}

/// One violating case found by an engine.
#[derive(Serialize, Deserialize, Debug, Clone)]
pub struct Violation {
    /// Narrow class of the failure; compared with known_findings.json signatures.
    pub signature: String,
    /// One-line human description.
    pub what: String,
    /// The replayable case (engine specific JSON).
    pub case: Value,
}

/// Collects violations, writes replays, prints verdict lines and returns the exit code.
pub struct Verdict {
    pub property: String,
    pub violations: Vec<Violation>,
}

fn fnv(s: &str) -> u64 {
    let mut h: u64 = 0xcbf29ce484222325;
    for b in s.bytes() {
        h ^= b as u64;
        h = h.wrapping_mul(0x100000001b3);
    }
    h
}

impl Verdict {
    pub fn new(property: &str) -> Self {
        Verdict { property: property.to_string(), violations: vec![] }
    }
    pub fn add(&mut self, v: Violation) {
        self.violations.push(v);
    }
    /// Prints KNOWN-FINDING / VIOLATION lines. Returns (exit_code, new_violation_count, known signatures seen).
    pub fn conclude(&self, engine: &str) -> (i32, usize, Vec<String>) {
        let findings = load_findings();
        let known: BTreeMap<String, &Finding> = findings
            .iter()
            .filter(|f| f.property == self.property && f.status == "known")
            .map(|f| (f.signature.clone(), f))
            .collect();
        let mut known_seen = BTreeSet::new();
        let mut new_by_sig: BTreeMap<String, &Violation> = BTreeMap::new();
        for v in &self.violations {
            if known.contains_key(&v.signature) {
                known_seen.insert(v.signature.clone());
            } else {
                // keep the first (engines explore simplest-first) per signature
                new_by_sig.entry(v.signature.clone()).or_insert(v);
            }
        }
        for sig in &known_seen {
            println!("KNOWN-FINDING: property={} {}", self.property, known[sig].what);
        }
        let mut n_new = 0;
        for (sig, v) in &new_by_sig {
            n_new += 1;
            let dir = verif_root().join("replays").join(&self.property);
            let _ = std::fs::create_dir_all(&dir);
            let path = dir.join(format!("{:016x}.json", fnv(&format!("{}|{}", sig, v.case))));
            let body = json!({
                "property": self.property,
                "engine": engine,
                "signature": sig,
                "what": v.what,
                "case": v.case,
            });
            let _ = std::fs::write(&path, serde_json::to_string_pretty(&body).unwrap() + "\n");
            println!("DETAIL property={} signature={} :: {}", self.property, sig, v.what);
            println!("VIOLATION property={} replay={}", self.property, path.display());
            if n_new >= 20 {
                println!("NOTE: further distinct violation signatures suppressed ({} total)", new_by_sig.len());
                break;
            }
        }
        let code = if n_new > 0 { 1 } else { 0 };
        (code, new_by_sig.len(), known_seen.into_iter().collect())
    }
}

pub fn read_replay(path: &Path) -> Value {
    let s = std::fs::read_to_string(path).unwrap_or_else(|e| machinery_error(&format!("cannot read replay {}: {e}", path.display())));
    let v: Value = serde_json::from_str(&s).unwrap_or_else(|e| machinery_error(&format!("replay does not parse: {e}")));
    v
}

// ---------------------------------------------------------------------------------------------
// Worker pool: re-executes the current binary once per shard so that aborts, stack overflows and
// sanitizer kills are attributed to a shard instead of taking the whole check down.
// ---------------------------------------------------------------------------------------------

#[derive(Debug)]
pub struct WorkerOutcome {
    pub shard: String,
    /// stdout of the worker (engines print one JSON document, last line starting with `RESULT `)
    pub result: Option<Value>,
    pub exit: Option<i32>,
    pub signal: Option<i32>,
    pub stderr_tail: String,
    pub timed_out: bool,
}

impl WorkerOutcome {
    pub fn crashed(&self) -> bool {
        self.result.is_none()
    }
}

/// Workers print `RESULT <json>` as their last stdout line.
pub fn worker_emit(v: &Value) {
    println!("RESULT {}", v);
}

pub fn run_pool(property: &str, tier: Tier, shards: Vec<String>, jobs: usize, extra: &[String], timeout: Duration) -> Vec<WorkerOutcome> {
    run_pool_with_exe(&std::env::current_exe().expect("current_exe"), property, tier, shards, jobs, extra, timeout, &[])
}

#[allow(clippy::too_many_arguments)]
pub fn run_pool_with_exe(
    exe: &Path,
    property: &str,
    tier: Tier,
    shards: Vec<String>,
    jobs: usize,
    extra: &[String],
    timeout: Duration,
    envs: &[(String, String)],
) -> Vec<WorkerOutcome> {
    use std::sync::{Arc, Mutex};
    let queue = Arc::new(Mutex::new(shards.into_iter().enumerate().collect::<Vec<_>>()));
    queue.lock().unwrap().reverse();
    let out: Arc<Mutex<Vec<(usize, WorkerOutcome)>>> = Arc::new(Mutex::new(vec![]));
    let mut handles = vec![];
    for _ in 0..jobs.max(1) {
        let queue = queue.clone();
        let out = out.clone();
        let exe = exe.to_path_buf();
        let property = property.to_string();
        let extra = extra.to_vec();
        let envs = envs.to_vec();
        handles.push(std::thread::spawn(move || {
            loop {
                let next = queue.lock().unwrap().pop();
                let Some((idx, shard)) = next else { break };
                let mut cmd = Command::new(&exe);
                cmd.arg(&property).arg("--tier").arg(tier.as_str()).arg("--worker").arg(&shard).args(&extra);
                cmd.env("RUST_BACKTRACE", "0");
                for (k, v) in &envs {
                    cmd.env(k, v);
                }
                cmd.stdin(Stdio::null()).stdout(Stdio::piped()).stderr(Stdio::piped());
                let start = Instant::now();
                let mut child = cmd.spawn().unwrap_or_else(|e| machinery_error(&format!("cannot spawn worker: {e}")));
                let mut stdout = child.stdout.take().unwrap();
                let mut stderr = child.stderr.take().unwrap();
                let t_out = std::thread::spawn(move || {
                    let mut s = String::new();
                    let _ = stdout.read_to_string(&mut s);
                    s
                });
                let t_err = std::thread::spawn(move || {
                    let mut s = Vec::new();
                    let _ = stderr.read_to_end(&mut s);
                    String::from_utf8_lossy(&s).to_string()
                });
                let mut timed_out = false;
                let status = loop {
                    match child.try_wait() {
                        Ok(Some(st)) => break st,
                        Ok(None) => {
                            if start.elapsed() > timeout {
                                let _ = child.kill();
                                timed_out = true;
                            }
                            std::thread::sleep(Duration::from_millis(5));
                        }
                        Err(e) => machinery_error(&format!("wait failed: {e}")),
                    }
                };
                let so = t_out.join().unwrap_or_default();
                let se = t_err.join().unwrap_or_default();
                let result = so
                    .lines()
                    .rev()
                    .find(|l| l.starts_with("RESULT "))
                    .and_then(|l| serde_json::from_str::<Value>(&l["RESULT ".len()..]).ok());
                use std::os::unix::process::ExitStatusExt;
                let tail: String = {
                    // head and tail: the panic message comes first, the abort reason last
                    let lines: Vec<&str> = se.lines().collect();
                    let n = lines.len();
                    if n <= 40 { lines.join("\n") } else { [&lines[..20], &["..."][..], &lines[n - 20..]].concat().join("\n") }
                };
                out.lock().unwrap().push((
                    idx,
                    WorkerOutcome {
                        shard,
                        result: if status.success() && !timed_out { result } else { None },
                        exit: status.code(),
                        signal: status.signal(),
                        stderr_tail: tail,
                        timed_out,
                    },
                ));
            }
        }));
    }
    for h in handles {
        let _ = h.join();
    }
    let mut v = std::mem::take(&mut *out.lock().unwrap());
    v.sort_by_key(|(i, _)| *i);
    v.into_iter().map(|(_, o)| o).collect()
}

/// Silence the default panic message (engines catch panics as verdicts and print their own context).
pub fn quiet_panics() {
    std::panic::set_hook(Box::new(|_| {}));
}

pub fn panic_message(e: &(dyn std::any::Any + Send)) -> String {
    if let Some(s) = e.downcast_ref::<&str>() {
        s.to_string()
    } else if let Some(s) = e.downcast_ref::<String>() {
        s.clone()
    } else {
        "<non-string panic>".to_string()
    }
}

/// Pick first / median / last of a list of samples (evidence wants actual cases written out).
pub fn pick_samples<T: Clone>(all: &[T]) -> Vec<T> {
    match all.len() {
        0 => vec![],
        1 => vec![all[0].clone()],
        2 => vec![all[0].clone(), all[1].clone()],
        n => vec![all[0].clone(), all[n / 2].clone(), all[n - 1].clone()],
    }
}

/// A scratch directory under /dev/shm (falls back to /tmp), removed on drop.
pub struct Scratch(pub PathBuf);
impl Scratch {
    pub fn new(tag: &str) -> Scratch {
        let base = if Path::new("/dev/shm").is_dir() { "/dev/shm" } else { "/tmp" };
        let p = PathBuf::from(format!("{base}/verif-{tag}-{}-{}", std::process::id(), Instant::now().elapsed().as_nanos()));
        let p = if p.exists() { PathBuf::from(format!("{}-x", p.display())) } else { p };
        std::fs::create_dir_all(&p).unwrap_or_else(|e| machinery_error(&format!("scratch: {e}")));
        Scratch(p)
    }
    pub fn path(&self) -> &Path {
        &self.0
    }
}
impl Drop for Scratch {
    fn drop(&mut self) {
        let _ = std::fs::remove_dir_all(&self.0);
    }
}
pub mod isogen;

//! Data-parallel map with per-thread state, dynamic batching, order-preserving
//! (same helper as lsp_mc/src/par.rs).
use std::sync::atomic::{AtomicUsize, Ordering};

pub fn par_map_with<T: Sync, R: Send, W>(items: &[T], jobs: usize, init: impl Fn(usize) -> W + Sync, f: impl Fn(&mut W, &T) -> R + Sync) -> Vec<R> {
    let jobs = jobs.max(1).min(items.len().max(1));
    let next = AtomicUsize::new(0);
    let batch = (items.len() / (jobs * 16)).clamp(1, 256);
    let mut parts: Vec<Vec<(usize, R)>> = vec![];
    std::thread::scope(|s| {
        let hs: Vec<_> = (0..jobs)
            .map(|j| {
                let (next, init, f) = (&next, &init, &f);
                s.spawn(move || {
                    let mut w = init(j);
                    let mut out = vec![];
                    loop {
                        let a = next.fetch_add(batch, Ordering::Relaxed);
                        if a >= items.len() {
                            break;
                        }
                        for i in a..(a + batch).min(items.len()) {
                            out.push((i, f(&mut w, &items[i])));
                        }
                    }
                    out
                })
            })
            .collect();
        for h in hs {
            parts.push(h.join().expect("worker thread panicked outside catch_unwind"));
        }
    });
    let mut all: Vec<(usize, R)> = parts.into_iter().flatten().collect();
    all.sort_by_key(|(i, _)| *i);
    all.into_iter().map(|(_, r)| r).collect()
}

//! swc plumbing: parse a module, run the REAL plugin visitor
//! (`swc_isograph_plugin::compile_iso_literal_visitor`, in-process, the way the crate's own
//! fixture tests do), print with swc_ecma_codegen.

use isograph_config::IsographProjectConfig;
use std::panic::{AssertUnwindSafe, catch_unwind};
use std::path::Path;
use std::sync::{Arc, Mutex};
use swc_common::{
    FileName, GLOBALS, Globals, SourceMap, Spanned,
    errors::{HANDLER, Handler},
    sync::Lrc,
};
use swc_ecma_ast::*;
use swc_ecma_codegen::{Config, Emitter, text_writer::JsWriter};
use swc_ecma_parser::{Parser, StringInput, Syntax, TsSyntax, lexer::Lexer};

pub fn parse_module(src: &str, tsx: bool) -> Result<Module, String> {
    parse_module_cm(src, tsx).map(|x| x.0)
}

/// also returns the source map that owns the module's spans (the plugin's diagnostics render with it)
pub fn parse_module_cm(src: &str, tsx: bool) -> Result<(Module, Lrc<SourceMap>), String> {
    let cm: Lrc<SourceMap> = Default::default();
    let fm = cm.new_source_file(FileName::Custom("m.tsx".into()).into(), src.to_string());
    let lexer = Lexer::new(Syntax::Typescript(TsSyntax { tsx, ..Default::default() }), EsVersion::latest(), StringInput::from(&*fm), None);
    let mut parser = Parser::new_from(lexer);
    let module = parser.parse_module().map_err(|e| format!("{:?} at {:?}", e.kind(), e.span()))?;
    if let Some(e) = parser.take_errors().first() {
        return Err(format!("{:?} at {:?}", e.kind(), e.span()));
    }
    Ok((module, cm))
}

pub fn print_module(m: &Module) -> String {
    let cm: Lrc<SourceMap> = Default::default();
    let mut buf = vec![];
    {
        let mut emitter = Emitter { cfg: Config::default(), cm: cm.clone(), comments: None, wr: JsWriter::new(cm, "\n", &mut buf, None) };
        emitter.emit_module(m).expect("codegen");
    }
    String::from_utf8_lossy(&buf).to_string()
}

pub fn print_item(item: &ModuleItem) -> String {
    print_module(&Module { span: Default::default(), body: vec![item.clone()], shebang: None })
}

pub fn print_expr(e: &Expr) -> String {
    print_item(&ModuleItem::Stmt(Stmt::Expr(ExprStmt { span: Default::default(), expr: Box::new(e.clone()) })))
}

#[derive(Clone)]
struct Sink(Arc<Mutex<Vec<u8>>>);
impl std::io::Write for Sink {
    fn write(&mut self, b: &[u8]) -> std::io::Result<usize> {
        self.0.lock().unwrap().extend_from_slice(b);
        Ok(b.len())
    }
    fn flush(&mut self) -> std::io::Result<()> {
        Ok(())
    }
}

pub struct Transformed {
    pub module: Module,
    /// diagnostics the plugin emitted through swc's HANDLER
    pub errors: String,
}

/// Runs the real visitor over `module`. Err = the plugin panicked (message).
pub fn transform(module: Module, cm: Lrc<SourceMap>, config: &IsographProjectConfig, filepath: &Path, root_dir: &Path) -> Result<Transformed, String> {
    let r = catch_unwind(AssertUnwindSafe(|| {
        GLOBALS.set(&Globals::new(), || {
            let sink = Sink(Arc::new(Mutex::new(vec![])));
            let handler = Handler::with_emitter_writer(Box::new(sink.clone()), Some(cm));
            let out = HANDLER.set(&handler, || {
                let pass = swc_isograph_plugin::compile_iso_literal_visitor(config, filepath, root_dir, None);
                match Program::Module(module).apply(pass) {
                    Program::Module(m) => m,
                    Program::Script(_) => unreachable!("module in, module out"),
                }
            });
            let errors = String::from_utf8_lossy(&sink.0.lock().unwrap()).to_string();
            Transformed { module: out, errors }
        })
    }));
    r.map_err(|p| mc_core::panic_message(&*p))
}

pub fn plugin_config(project_root: &str, artifact_directory: Option<&str>, module: &str) -> IsographProjectConfig {
    let mut v = serde_json::json!({"project_root": project_root, "schema": "./schema.graphql", "options": {"module": module}});
    if let Some(a) = artifact_directory {
        v["artifact_directory"] = serde_json::json!(a);
    }
    serde_json::from_value(v).unwrap_or_else(|e| mc_core::machinery_error(&format!("plugin config does not deserialize: {e}")))
}

//! C28 — the SWC transform resolves each literal to the artifact the compiler wrote.
//!
//! Enumerated (exhaustively, nothing sampled):
//!  * family `layouts`: {entrypoint, field, pointer} x 3 (Type, name) pairs whose names are keywords
//!    or prefixes of keywords x one tail per "first token after the name" class x the FULL PRODUCT
//!    of a gap alphabet over the five header gaps (before the keyword, keyword-Type, Type-dot,
//!    dot-name, name-next token / end of literal);
//!  * family `names`: every keyword x Type x name of the alphabets x every tail x canonical layout,
//!    tight layout and every single-gap deviation over a larger gap alphabet;
//!  * family `grammar`: every sentence of the reference grammar mc_core::isogen up to a token budget
//!    (variable definitions, directives with arguments, descriptions, selection sets) re-headed with
//!    (Type, name) pairs, in canonical, tight and every single-gap-deviation layout;
//!  * family `envs`: every entrypoint header over every (project_root, artifact_directory, file
//!    depth, module) environment.
//! Each distinct token sequence is compiled ONCE by the real compiler (create_config +
//! CompilerState::new + batch compile on a scratch project) — that decides "the compiler accepts"
//! and yields the entrypoint artifact path; every layout of it is parsed by the real
//! `parse_iso_literal` (must be accepted and denote the same declaration) and pushed through the
//! real `compile_iso_literal_visitor` inside a module with unrelated code around the call.

use crate::driver::{Compiled, Project, compile_dir};
use crate::par::par_map_with;
use crate::swcx;
use common_lang_types::{Span, TextSource};
use intern::string_key::Intern;
use isograph_lang_parser::{IsoLiteralExtractionResult, parse_iso_literal};
use mc_core::isogen::{self, T};
use mc_core::*;
use serde::{Deserialize, Serialize};
use serde_json::{Value, json};
use std::collections::{BTreeMap, BTreeSet};
use std::panic::{AssertUnwindSafe, catch_unwind};
use std::path::{Component, Path, PathBuf};
use swc_ecma_ast::*;

pub const TYPES: [&str; 7] = ["Query", "Quer", "field", "fieldX", "entrypointFoo", "a", "a_b"];
pub const NAMES: [&str; 9] = ["field", "fieldX", "entrypointFoo", "Query", "Quer", "a", "a_b", "pointer", "to"];
const ROOT: &str = "/proj";

// ---------------------------------------------------------------------------------------------
// sentences and layouts
// ---------------------------------------------------------------------------------------------

#[derive(Debug, Clone, Copy, PartialEq, Eq, PartialOrd, Ord, Hash, Serialize, Deserialize)]
pub enum Kind {
    Entrypoint,
    Field,
    Pointer,
}
impl Kind {
    pub fn kw(self) -> &'static str {
        match self {
            Kind::Entrypoint => "entrypoint",
            Kind::Field => "field",
            Kind::Pointer => "pointer",
        }
    }
}

/// A token sequence: [keyword, Type, ".", name, tail...] (T::Nl = the next gap is a line break).
#[derive(Debug, Clone, PartialEq, Eq, PartialOrd, Ord, Hash)]
pub struct Sent {
    pub kind: Kind,
    pub toks: Vec<T>,
}
impl Sent {
    fn ty(&self) -> &'static str {
        match self.toks[1] {
            T::S(s) => s,
            _ => unreachable!(),
        }
    }
    fn name(&self) -> &'static str {
        match self.toks[3] {
            T::S(s) => s,
            _ => unreachable!(),
        }
    }
    fn ntoks(&self) -> usize {
        isogen::tokens(&self.toks)
    }
}

fn is_word(c: char) -> bool {
    c.is_ascii_alphanumeric() || c == '_' || c == '-' || c == '"'
}

/// gap i = the text before token i (0 = before the keyword, ntoks = after the last token).
/// `over` replaces individual gaps; otherwise " " (or "\n" where the sentence asks for a line
/// break), or in tight mode "" wherever gluing does not change the tokenisation.
pub fn render(s: &[T], over: &BTreeMap<usize, String>, tight: bool) -> String {
    let mut out = String::new();
    let mut nl = false;
    let mut i = 0usize;
    let mut prev: Option<&str> = None;
    for t in s {
        match t {
            T::Nl => nl = true,
            T::S(x) => {
                if let Some(g) = over.get(&i) {
                    out.push_str(g);
                } else if i == 2 || i == 3 {
                    // `Type.name` is written without spaces unless a layout says otherwise
                } else if let Some(p) = prev {
                    if nl {
                        out.push('\n');
                    } else if !tight || (is_word(p.chars().last().unwrap()) && is_word(x.chars().next().unwrap())) {
                        out.push(' ');
                    }
                }
                out.push_str(x);
                prev = Some(x);
                nl = false;
                i += 1;
            }
        }
    }
    if let Some(g) = over.get(&i) {
        out.push_str(g);
    } else if nl {
        out.push('\n');
    }
    out
}

fn head(kind: Kind, ty: &'static str, name: &'static str) -> Vec<T> {
    vec![T::S(kind.kw()), T::S(ty), T::S("."), T::S(name)]
}

fn toks(ss: &[&'static str]) -> Vec<T> {
    ss.iter().map(|s| if *s == "\n" { T::Nl } else { T::S(s) }).collect()
}

/// hand-written tails: one per class of "what follows the name", each accepted by the compiler in
/// the sentence project (schema below). Descriptions carry decoy headers.
fn tails(kind: Kind) -> Vec<Vec<T>> {
    match kind {
        Kind::Entrypoint => vec![toks(&[]), toks(&["@", "lazyLoad"]), toks(&["@", "lazyLoad", "(", "reader", ":", "true", ")"])],
        Kind::Field => vec![
            toks(&["{", "x", ",", "}"]),
            toks(&["@", "component", "{", "x", ",", "}"]),
            toks(&["(", "$", "v", ":", "Int", ")", "{", "foo", "(", "x", ":", "$", "v", ")", ",", "}"]),
            toks(&["\"entrypoint Query.a\"", "{", "x", ",", "}"]),
            toks(&["\"\"\"pointer Query.a\"\"\"", "{", "x", "\n", "}"]),
        ],
        Kind::Pointer => vec![
            toks(&["to", "Tgt", "{", "x", ",", "}"]),
            toks(&["(", "$", "v", ":", "Int", ")", "to", "Tgt", "{", "foo", "(", "x", ":", "$", "v", ")", ",", "}"]),
            toks(&["to", "Tgt", "\"entrypoint Query.a\"", "{", "x", ",", "}"]),
        ],
    }
}

fn kind_of_kw(kw: &str) -> Kind {
    match kw {
        "entrypoint" => Kind::Entrypoint,
        "field" => Kind::Field,
        _ => Kind::Pointer,
    }
}

/// isogen sentences (head `kw Query . foo`) re-headed; the pointer target `Int` becomes the object type `Tgt`.
fn grammar_sentences(budget: usize, rich: bool, pairs: &[(&'static str, &'static str)]) -> Vec<Sent> {
    let mut g = isogen::Gen::new(rich);
    let mut out = vec![];
    for s in g.literals(budget) {
        let kw = match s[0] {
            T::S(k) => k,
            _ => continue,
        };
        let kind = kind_of_kw(kw);
        for (ty, name) in pairs {
            let mut t = s.clone();
            t[1] = T::S(ty);
            t[3] = T::S(name);
            if kind == Kind::Pointer {
                if let Some(p) = t.iter().position(|x| *x == T::S("to")) {
                    for x in t.iter_mut().skip(p + 1) {
                        match x {
                            T::S("Int") | T::S("ID") => *x = T::S("Tgt"),
                            T::S("@") | T::S("{") => break,
                            T::S(q) if q.starts_with('"') => break,
                            _ => {}
                        }
                    }
                }
            }
            out.push(Sent { kind, toks: t });
        }
    }
    out
}

// ---------------------------------------------------------------------------------------------
// the sentence project (one real compile per token sequence)
// ---------------------------------------------------------------------------------------------

const FN_SRC: &str = "function Comp({ data }) {\n    return data;\n}";

fn sentence_project(kind: Kind, ty: &str, name: &str, text: &str) -> Project {
    let schema = format!("schema {{ query: {ty} }}\ntype {ty} {{ x: Int, foo(x: Int): Int, t: Tgt }}\ntype Tgt {{ id: ID!, x: Int, foo(x: Int): Int }}\n");
    let src = match kind {
        Kind::Entrypoint => format!("import {{ iso }} from './__isograph/iso';\nexport const C = iso(`field {ty}.{name} {{ x, }}`)({FN_SRC});\nconst E = useLazyReference(iso(`{text}`), {{}});\n"),
        _ => format!("import {{ iso }} from './__isograph/iso';\nexport const X = iso(`{text}`)({FN_SRC});\n"),
    };
    Project { project_root: "./src".into(), artifact_directory: None, options: json!({}), schema, files: vec![("src/F.tsx".into(), src)] }
}

#[derive(Debug, Clone, Serialize, Deserialize, PartialEq)]
pub struct Facts {
    pub accepted: bool,
    /// artifacts named entrypoint.ts, relative to the artifact directory
    pub entry_artifacts: Vec<String>,
    pub n_artifacts: usize,
    pub diag: String,
}

fn facts_of(c: &Compiled) -> Facts {
    match c {
        Compiled::Ok(_, arts) => Facts { accepted: true, entry_artifacts: arts.iter().map(|a| a.0.clone()).filter(|p| p.ends_with("entrypoint.ts")).collect(), n_artifacts: arts.len(), diag: String::new() },
        Compiled::Diagnostics(d) => Facts { accepted: false, entry_artifacts: vec![], n_artifacts: 0, diag: d.first().map(|s| s.lines().next().unwrap_or("").to_string()).unwrap_or_default() },
        Compiled::Panic(m) => Facts { accepted: false, entry_artifacts: vec![], n_artifacts: 0, diag: format!("PANIC {m}") },
    }
}

// ---------------------------------------------------------------------------------------------
// environments
// ---------------------------------------------------------------------------------------------

#[derive(Debug, Clone, PartialEq, Eq, Hash, PartialOrd, Ord, Serialize, Deserialize)]
pub struct Env {
    pub project_root: String,
    pub artifact_directory: Option<String>,
    /// source file, relative to the directory of isograph.config.json
    pub file: String,
    /// "esmodule" | "commonjs"
    pub module: String,
}

fn normalize(p: &Path) -> PathBuf {
    let mut out = PathBuf::new();
    for c in p.components() {
        match c {
            Component::CurDir => {}
            Component::ParentDir => {
                out.pop();
            }
            other => out.push(other.as_os_str()),
        }
    }
    out
}

impl Env {
    fn artifact_dir(&self, root: &str) -> PathBuf {
        normalize(&Path::new(root).join(self.artifact_directory.as_deref().unwrap_or(&self.project_root)).join("__isograph"))
    }
    fn file_abs(&self, root: &str) -> PathBuf {
        normalize(&Path::new(root).join(&self.file))
    }
}

fn rel_spec(from_dir: &Path, to: &Path) -> String {
    let a: Vec<_> = from_dir.components().collect();
    let b: Vec<_> = to.components().collect();
    let k = a.iter().zip(&b).take_while(|(x, y)| x == y).count();
    let mut parts: Vec<String> = vec![];
    for _ in k..a.len() {
        parts.push("..".into());
    }
    for c in &b[k..] {
        parts.push(c.as_os_str().to_string_lossy().to_string());
    }
    let s = parts.join("/");
    if s.starts_with("..") { s } else { format!("./{s}") }
}

fn layouts_fs() -> Vec<(&'static str, Option<&'static str>, Vec<&'static str>)> {
    vec![
        ("./src", None, vec!["src/F.tsx", "src/a/F.tsx", "src/a/b/c/F.tsx"]),
        ("./src", Some("./gen"), vec!["src/F.tsx", "src/a/F.tsx", "src/a/b/c/F.tsx"]),
        ("./src", Some("./src/gen"), vec!["src/F.tsx", "src/a/F.tsx", "src/gen/F.tsx"]),
        ("./src", Some("."), vec!["src/F.tsx", "src/a/b/c/F.tsx"]),
        (".", None, vec!["F.tsx", "a/F.tsx"]),
        ("src/", None, vec!["src/F.tsx", "src/a/F.tsx"]),
        ("./src/app", Some("./src/app/../generated"), vec!["src/app/F.tsx", "src/app/a/F.tsx"]),
    ]
}

fn all_envs() -> Vec<Env> {
    let mut out = vec![];
    for (pr, ad, files) in layouts_fs() {
        for f in files {
            for m in ["esmodule", "commonjs"] {
                out.push(Env { project_root: pr.into(), artifact_directory: ad.map(|s| s.to_string()), file: f.into(), module: m.into() });
            }
        }
    }
    out
}

fn small_envs() -> Vec<Env> {
    all_envs().into_iter().filter(|e| e.project_root == "./src" && e.artifact_directory.is_none() && e.file != "src/a/b/c/F.tsx").collect()
}

// ---------------------------------------------------------------------------------------------
// the module around the call, the observation and the oracle
// ---------------------------------------------------------------------------------------------

#[derive(Debug, Clone, Copy, PartialEq, Eq, PartialOrd, Ord, Hash, Serialize, Deserialize)]
pub enum Site {
    /// `useLazyReference(iso(`...`), {})`
    EntryArg,
    /// `export const X = iso(`...`)(function Comp ...)`
    Call,
    /// `export const X = iso(`...`)`
    NoCall,
}

const SITE_INDEX: usize = 3;

fn module_src(text: &str, site: Site, env: &Env) -> String {
    let file = env.file_abs(ROOT);
    let iso = rel_spec(file.parent().unwrap(), &env.artifact_dir(ROOT).join("iso"));
    let site_src = match site {
        Site::EntryArg => format!("const E = useLazyReference(iso(`{text}`), {{}});"),
        Site::Call => format!("export const X = iso(`{text}`)({FN_SRC});"),
        Site::NoCall => format!("export const X = iso(`{text}`);"),
    };
    format!(
        "import {{ iso }} from '{iso}';\nimport {{ other, useLazyReference }} from './other';\nconst before = other(`entrypoint Query.decoy`, 1);\n{site_src}\nexport function after(p) {{\n    const s = `field Query.decoy {{ x }}`;\n    return [before, s, iso, p.iso(1)];\n}}\nexport default after;\n"
    )
}

#[derive(Debug, Clone, PartialEq, Eq, Serialize, Deserialize)]
pub enum SiteObs {
    /// identifier bound by an added `import <local> from "<spec>"`
    Import { local: String, spec: String },
    /// `require("<spec>").default`
    Require { spec: String },
    /// the function that was passed to iso(...)
    Fn,
    /// `(x) => x`
    Identity,
    /// the iso call is still there
    Unchanged,
    Other(String),
}

#[derive(Debug, Clone, PartialEq, Eq, Serialize, Deserialize)]
pub struct Obs {
    pub panic: Option<String>,
    pub site: Option<SiteObs>,
    /// printed module items added in front
    pub added: Vec<String>,
    /// first unrelated item whose printed form changed (before -> after)
    pub other_changed: Option<(String, String)>,
    pub plugin_errors: bool,
    pub printed: String,
}

fn site_expr(item: &ModuleItem, site: Site) -> Option<&Expr> {
    match site {
        Site::Call | Site::NoCall => match item {
            ModuleItem::ModuleDecl(ModuleDecl::ExportDecl(ExportDecl { decl: Decl::Var(v), .. })) if v.decls.len() == 1 => v.decls[0].init.as_deref(),
            _ => None,
        },
        Site::EntryArg => match item {
            ModuleItem::Stmt(Stmt::Decl(Decl::Var(v))) if v.decls.len() == 1 => match v.decls[0].init.as_deref() {
                Some(Expr::Call(c)) if c.args.len() == 2 => Some(&c.args[0].expr),
                _ => None,
            },
            _ => None,
        },
    }
}

fn set_site_expr(item: &mut ModuleItem, site: Site, e: Expr) {
    match site {
        Site::Call | Site::NoCall => {
            if let ModuleItem::ModuleDecl(ModuleDecl::ExportDecl(ExportDecl { decl: Decl::Var(v), .. })) = item {
                v.decls[0].init = Some(Box::new(e));
            }
        }
        Site::EntryArg => {
            if let ModuleItem::Stmt(Stmt::Decl(Decl::Var(v))) = item {
                if let Some(Expr::Call(c)) = v.decls[0].init.as_deref_mut() {
                    c.args[0].expr = Box::new(e);
                }
            }
        }
    }
}

pub fn observe(text: &str, site: Site, env: &Env) -> Obs {
    let src = module_src(text, site, env);
    let (input, cm) = swcx::parse_module_cm(&src, true).unwrap_or_else(|e| machinery_error(&format!("harness module does not parse ({e}):\n{src}")));
    let cfg = swcx::plugin_config(&env.project_root, env.artifact_directory.as_deref(), &env.module);
    let file = env.file_abs(ROOT);
    let t = match swcx::transform(input.clone(), cm, &cfg, &file, Path::new(ROOT)) {
        Ok(t) => t,
        Err(p) => return Obs { panic: Some(p), site: None, added: vec![], other_changed: None, plugin_errors: false, printed: String::new() },
    };
    let out = t.module;
    let printed = swcx::print_module(&out);
    let mut obs = Obs { panic: None, site: None, added: vec![], other_changed: None, plugin_errors: !t.errors.is_empty(), printed };
    if out.body.len() < input.body.len() {
        obs.other_changed = Some((format!("{} items", input.body.len()), format!("{} items", out.body.len())));
        return obs;
    }
    let added = out.body.len() - input.body.len();
    obs.added = out.body[..added].iter().map(swcx::print_item).collect();
    let mut import_of: BTreeMap<String, String> = BTreeMap::new();
    for it in &out.body[..added] {
        if let ModuleItem::ModuleDecl(ModuleDecl::Import(i)) = it {
            if let [ImportSpecifier::Default(d)] = &i.specifiers[..] {
                import_of.insert(d.local.sym.to_string(), i.src.value.to_string());
            }
        }
    }
    for (k, orig) in input.body.iter().enumerate() {
        if k == SITE_INDEX {
            continue;
        }
        let (a, b) = (swcx::print_item(orig), swcx::print_item(&out.body[k + added]));
        if a != b {
            obs.other_changed = Some((a, b));
            return obs;
        }
    }
    let orig_item = &input.body[SITE_INDEX];
    let out_item = &out.body[SITE_INDEX + added];
    let (Some(orig_e), Some(out_e)) = (site_expr(orig_item, site), site_expr(out_item, site)) else {
        obs.other_changed = Some((swcx::print_item(orig_item), swcx::print_item(out_item)));
        return obs;
    };
    // everything around the replaced expression must be untouched
    let mut patched = orig_item.clone();
    set_site_expr(&mut patched, site, out_e.clone());
    if swcx::print_item(&patched) != swcx::print_item(out_item) {
        obs.other_changed = Some((swcx::print_item(orig_item), swcx::print_item(out_item)));
        return obs;
    }
    let fn_expr: Option<&Expr> = match (site, orig_e) {
        (Site::Call, Expr::Call(c)) => c.args.first().map(|a| &*a.expr),
        _ => None,
    };
    let pe = swcx::print_expr(out_e);
    obs.site = Some(match out_e {
        Expr::Ident(i) if import_of.contains_key(&*i.sym) => SiteObs::Import { local: i.sym.to_string(), spec: import_of[&*i.sym].clone() },
        Expr::Member(MemberExpr { obj, prop: MemberProp::Ident(p), .. }) if &*p.sym == "default" => match &**obj {
            Expr::Call(CallExpr { callee: Callee::Expr(c), args, .. }) if matches!(&**c, Expr::Ident(i) if &*i.sym == "require") && args.len() == 1 => match &*args[0].expr {
                Expr::Lit(Lit::Str(s)) => SiteObs::Require { spec: s.value.to_string() },
                _ => SiteObs::Other(pe),
            },
            _ => SiteObs::Other(pe),
        },
        _ if fn_expr.is_some_and(|f| swcx::print_expr(f) == pe) => SiteObs::Fn,
        _ if pe == swcx::print_expr(orig_e) => SiteObs::Unchanged,
        Expr::Arrow(_) if pe.replace([' ', '\n', ';'], "") == "(x)=>x" => SiteObs::Identity,
        _ => SiteObs::Other(pe),
    });
    obs
}

#[derive(Debug, Clone)]
pub struct Parsed {
    pub kind: Kind,
    pub ty: String,
    pub name: String,
    pub ty_span: (usize, usize),
    pub name_span: (usize, usize),
}

pub fn parse(text: &str) -> Result<Option<Parsed>, String> {
    let ts = TextSource { relative_path_to_source_file: "src/F.tsx".intern().into(), span: Some(Span::new(0, text.len() as u32)) };
    let r = catch_unwind(AssertUnwindSafe(|| parse_iso_literal(text.to_string(), "src/F.tsx".intern().into(), Some("X".to_string()), ts)));
    let sp = |s: Span| (s.start as usize, s.end as usize);
    match r {
        Err(p) => Err(panic_message(&*p)),
        Ok(Err(_)) => Ok(None),
        Ok(Ok(res)) => Ok(Some(match res {
            IsoLiteralExtractionResult::EntrypointDeclaration(d) => Parsed { kind: Kind::Entrypoint, ty: d.item.parent_type.item.to_string(), name: d.item.client_field_name.item.to_string(), ty_span: sp(d.item.parent_type.location.span), name_span: sp(d.item.client_field_name.location.span) },
            IsoLiteralExtractionResult::ClientFieldDeclaration(d) => Parsed { kind: Kind::Field, ty: d.item.parent_type.item.to_string(), name: d.item.client_field_name.item.to_string(), ty_span: sp(d.item.parent_type.location.span), name_span: sp(d.item.client_field_name.location.span) },
            IsoLiteralExtractionResult::ClientPointerDeclaration(d) => Parsed { kind: Kind::Pointer, ty: d.item.parent_type.item.to_string(), name: d.item.client_pointer_name.item.to_string(), ty_span: sp(d.item.parent_type.location.span), name_span: sp(d.item.client_pointer_name.location.span) },
        })),
    }
}

/// which feature of the literal text (or environment) the failure is attributed to: keeps
/// signatures independent of the particular names
fn cause(text: &str, p: &Parsed) -> String {
    if text.chars().any(|c| c == '\u{feff}') {
        return "bom-as-whitespace".into();
    }
    let between = text.get(p.ty_span.1..p.name_span.0).unwrap_or("?");
    if between != "." {
        return "space-around-dot".into();
    }
    match text[p.name_span.1..].chars().next() {
        Some(c) if !c.is_whitespace() && c != '(' => format!("name-glued-to-{c}"),
        _ => "other".into(),
    }
}

/// Returns (signature, description) of every way this observation breaks the property.
pub fn judge(text: &str, p: &Parsed, facts: &Facts, site: Site, env: &Env, obs: &Obs) -> Vec<(String, String)> {
    let mut out = vec![];
    let c = cause(text, p);
    let lit = format!("{:?} in {} ({}, project_root {:?}, artifact_directory {:?})", text, env.file, env.module, env.project_root, env.artifact_directory);
    if let Some(m) = &obs.panic {
        out.push((format!("panic:{c}"), format!("the transform panicked on an accepted literal {lit}: {m}")));
        return out;
    }
    if let Some((a, b)) = &obs.other_changed {
        out.push((format!("other-code-changed:{c}"), format!("code outside the iso call changed for {lit}: {a:?} became {b:?}")));
        return out;
    }
    let Some(site_obs) = &obs.site else {
        out.push(("no-observation".into(), format!("no observation for {lit}")));
        return out;
    };
    let expect_entry = p.kind == Kind::Entrypoint;
    let extra_imports = |n: usize, out: &mut Vec<(String, String)>| {
        if obs.added.len() != n {
            out.push((format!("unexpected-import:{c}"), format!("{} module item(s) were added, {n} expected, for {lit}: {:?}", obs.added.len(), obs.added)));
        }
    };
    if expect_entry {
        if facts.entry_artifacts.len() != 1 {
            machinery_error(&format!("the sentence project of {text:?} produced {} entrypoint artifacts", facts.entry_artifacts.len()));
        }
        let expected = env.artifact_dir(ROOT).join(&facts.entry_artifacts[0]);
        let check_path = |spec: &str, out: &mut Vec<(String, String)>| {
            let from = env.file_abs(ROOT);
            let resolved = normalize(&from.parent().unwrap().join(spec));
            let relative = spec.starts_with("./") || spec.starts_with("../");
            if resolved != expected {
                out.push((format!("wrong-path:{c}"), format!("entrypoint {}.{} imports {spec:?} = {} but the compiler wrote {} — {lit}", p.ty, p.name, resolved.display(), expected.display())));
            } else if !relative {
                out.push(("not-relative-path:artifact-directory-below-the-file".into(), format!("entrypoint {}.{} imports {spec:?}: not a relative specifier (no ./ or ../), a module resolver looks it up as a package, although joined to the file's directory it would be {} — {lit}", p.ty, p.name, expected.display())));
            }
        };
        match site_obs {
            SiteObs::Import { spec, .. } => {
                if env.module != "esmodule" {
                    out.push((format!("wrong-module-form:{c}"), format!("import emitted under module=commonjs for {lit}")));
                }
                check_path(spec, &mut out);
                extra_imports(1, &mut out);
            }
            SiteObs::Require { spec } => {
                if env.module != "commonjs" {
                    out.push((format!("wrong-module-form:{c}"), format!("require emitted under module=esmodule for {lit}")));
                }
                check_path(spec, &mut out);
                extra_imports(0, &mut out);
            }
            SiteObs::Unchanged => out.push((format!("unrecognized:{c}"), format!("the compiler accepts the entrypoint literal but the transform leaves the iso call in place (plugin error emitted: {}) — {lit}", obs.plugin_errors))),
            SiteObs::Fn | SiteObs::Identity => out.push((format!("misclassified-as-field:{c}"), format!("the compiler reads an entrypoint, the transform treats it as a field — {lit}"))),
            SiteObs::Other(e) => out.push((format!("bad-replacement:{c}"), format!("entrypoint call replaced by {e:?} — {lit}"))),
        }
    } else {
        match (site, site_obs) {
            (Site::Call, SiteObs::Fn) | (Site::NoCall, SiteObs::Identity) => extra_imports(0, &mut out),
            (_, SiteObs::Unchanged) => out.push((format!("unrecognized:{c}"), format!("the compiler accepts the {:?} literal but the transform leaves the iso call in place (plugin error emitted: {}) — {lit}", p.kind, obs.plugin_errors))),
            (_, SiteObs::Import { spec, .. }) | (_, SiteObs::Require { spec }) => out.push((format!("misclassified-as-entrypoint:{c}"), format!("the compiler reads a {:?} declaration {}.{}, the transform replaces the call by an import of {spec:?} — {lit}", p.kind, p.ty, p.name))),
            (_, o) => out.push((format!("not-replaced-by-function:{c}"), format!("{:?} call became {o:?} — {lit}", p.kind))),
        }
    }
    out
}

// ---------------------------------------------------------------------------------------------
// enumeration
// ---------------------------------------------------------------------------------------------

#[derive(Default, Clone, Copy)]
struct Plan {
    layouts: bool,
    names: bool,
    envs: bool,
    grammar: bool,
}

const SINGLE_GAPS: [&str; 10] = ["", " ", "\n", "  ", "\t", "\n  ", "\r\n", "\u{c}", "\u{feff}", " \u{feff}"];

/// canonical layout, tight layout, and every single-gap deviation (gaps 0..=upto) of both
fn deviations(s: &Sent, upto: usize) -> Vec<String> {
    let none = BTreeMap::new();
    let mut v = vec![render(&s.toks, &none, false), render(&s.toks, &none, true)];
    for g in 0..=upto.min(s.ntoks()) {
        for alt in SINGLE_GAPS {
            let mut over = BTreeMap::new();
            over.insert(g, alt.to_string());
            v.push(render(&s.toks, &over, false));
            v.push(render(&s.toks, &over, true));
        }
    }
    v
}

/// the distinct (text, every-environment?) pairs of one token sequence, with the family that first produced each
fn texts_of(s: &Sent, plan: &Plan, prod_gaps: &[&str]) -> Vec<(String, bool, &'static str)> {
    let none = BTreeMap::new();
    let mut seen: BTreeSet<(String, bool)> = BTreeSet::new();
    let mut out = vec![];
    let mut push = |text: String, all: bool, fam: &'static str, out: &mut Vec<(String, bool, &'static str)>| {
        if seen.insert((text.clone(), all)) {
            out.push((text, all, fam));
        }
    };
    if plan.layouts {
        let n = prod_gaps.len();
        for code in 0..n.pow(5) {
            let mut over = BTreeMap::new();
            let mut c = code;
            for g in 0..5 {
                over.insert(g, prod_gaps[c % n].to_string());
                c /= n;
            }
            push(render(&s.toks, &over, false), false, "layouts", &mut out);
        }
    }
    if plan.names {
        for t in deviations(s, 6) {
            push(t, false, "names", &mut out);
        }
    }
    if plan.envs {
        push(render(&s.toks, &none, false), true, "envs", &mut out);
        push(render(&s.toks, &none, true), true, "envs", &mut out);
    }
    if plan.grammar {
        for t in deviations(s, 7) {
            push(t, false, "grammar", &mut out);
        }
    }
    out
}

#[derive(Default)]
struct Agg {
    texts: u64,
    parser_rejected: u64,
    other_declaration: u64,
    compiler_rejected_texts: u64,
    oracle_texts: u64,
    transform_runs: u64,
    entry_paths_checked: u64,
    rejected_transform_runs: u64,
    outcomes: BTreeSet<String>,
    by_family: BTreeMap<String, u64>,
    violations: Vec<Violation>,
    rejected_panics: Vec<String>,
    parser_panics: Vec<String>,
    samples: Vec<Value>,
}

fn case_json(text: &str, site: Site, env: &Env, sent: &Sent) -> Value {
    let proj = sentence_project(sent.kind, sent.ty(), sent.name(), &render(&sent.toks, &BTreeMap::new(), false));
    json!({"text": text, "site": site, "env": env, "sentence": {"kind": sent.kind, "type": sent.ty(), "name": sent.name(), "canonical": render(&sent.toks, &BTreeMap::new(), false)}, "compile": {"schema": proj.schema, "files": proj.files}})
}

fn sites(kind: Kind) -> &'static [Site] {
    match kind {
        Kind::Entrypoint => &[Site::EntryArg],
        _ => &[Site::Call, Site::NoCall],
    }
}

pub fn main(args: &Args) -> i32 {
    quiet_panics();
    if args.replay.is_some() {
        return replay(args);
    }
    let mut ev = Evidence::new(args, "exploration");
    let thorough = args.tier == Tier::Thorough;

    // ---- environments are bound to the real compiler: one real compile per (project_root, artifact_directory, file)
    let env_checks = bind_envs(args);

    // ---- sentences
    let mut sents: Vec<Sent> = vec![];
    let mut index: BTreeMap<Sent, usize> = BTreeMap::new();
    let mut intern_sent = |s: Sent, sents: &mut Vec<Sent>| -> usize {
        if let Some(i) = index.get(&s) {
            return *i;
        }
        index.insert(s.clone(), sents.len());
        sents.push(s);
        sents.len() - 1
    };
    let none = BTreeMap::new();
    let kinds = [Kind::Entrypoint, Kind::Field, Kind::Pointer];
    // which families a token sequence belongs to (texts are generated inside the workers)
    let mut plan: BTreeMap<usize, Plan> = BTreeMap::new();

    // family layouts: full gap product
    let prod_gaps: Vec<&'static str> = if thorough { vec!["", " ", "\n", "\t", "  ", "\u{feff}"] } else { vec!["", " ", "\n", "\t"] };
    let layout_pairs: [(&'static str, &'static str); 3] = [("Query", "a"), ("field", "entrypointFoo"), ("fieldX", "field")];
    for kind in kinds {
        for (ty, name) in layout_pairs {
            for tail in tails(kind) {
                let mut t = head(kind, ty, name);
                t.extend(tail);
                let si = intern_sent(Sent { kind, toks: t }, &mut sents);
                plan.entry(si).or_default().layouts = true;
            }
        }
    }
    // family names: all names, canonical + tight + single deviations; family envs: entrypoints over every environment
    for kind in kinds {
        for ty in TYPES {
            for name in NAMES {
                for (ti, tail) in tails(kind).into_iter().enumerate() {
                    let mut t = head(kind, ty, name);
                    t.extend(tail);
                    let si = intern_sent(Sent { kind, toks: t }, &mut sents);
                    let p = plan.entry(si).or_default();
                    p.names = true;
                    p.envs = kind == Kind::Entrypoint || ti == 0;
                }
            }
        }
    }
    // family grammar: isogen sentences
    let budget: usize = std::env::var("C28_BUDGET").ok().and_then(|s| s.parse().ok()).unwrap_or(args.tier.pick(12, 13));
    let gpairs: Vec<(&'static str, &'static str)> = if thorough { vec![("Query", "a"), ("field", "entrypointFoo"), ("a_b", "Quer")] } else { vec![("Query", "a"), ("field", "entrypointFoo")] };
    let gs = grammar_sentences(budget, thorough, &gpairs);
    let n_grammar = gs.len();
    for s in gs {
        let si = intern_sent(s, &mut sents);
        plan.entry(si).or_default().grammar = true;
    }
    let work: Vec<(usize, Plan)> = plan.into_iter().collect();

    // ---- one real compile per sentence
    let facts: Vec<Facts> = par_map_with(
        &sents,
        args.jobs,
        |j| Scratch::new(&format!("iso28-{j}")),
        |scratch, s| {
            let dir = scratch.path().join("p");
            sentence_project(s.kind, s.ty(), s.name(), &render(&s.toks, &BTreeMap::new(), false)).write_to(&dir);
            facts_of(&compile_dir(&dir))
        },
    );
    let compiled_ok = facts.iter().filter(|f| f.accepted).count();
    let mut reject_classes: BTreeMap<String, (u64, String)> = BTreeMap::new();
    for (s, f) in sents.iter().zip(&facts) {
        if !f.accepted {
            let e = reject_classes.entry(f.diag.chars().take(80).collect()).or_insert((0, render(&s.toks, &none, false)));
            e.0 += 1;
        }
    }
    // the hand-written tails are meant to be accepted: a rejection there means the harness schema is wrong
    for (s, f) in sents.iter().zip(&facts) {
        let hand = tails(s.kind).iter().any(|t| s.toks[4..] == t[..]);
        if hand && !f.accepted {
            ev.write();
            machinery_error(&format!("the compiler rejects a hand-written sentence {:?}: {}", render(&s.toks, &none, false), f.diag));
        }
        if f.accepted && s.kind == Kind::Entrypoint && f.entry_artifacts != vec![format!("{}/{}/entrypoint.ts", s.ty(), s.name())] {
            // not assumed anywhere (the oracle uses the compiler's own path), but worth knowing
            eprintln!("note: entrypoint artifacts of {:?}: {:?}", render(&s.toks, &none, false), f.entry_artifacts);
        }
    }

    // ---- every text through parser + transform
    let envs_all = all_envs();
    let envs_small = small_envs();
    let results: Vec<Agg> = par_map_with(&work, args.jobs, |_| (), |_, (si, plan)| {
        let mut a = Agg::default();
        for (text, all, family) in texts_of(&sents[*si], plan, &prod_gaps) {
            run_text(family, &text, &sents[*si], &facts[*si], if all { &envs_all } else { &envs_small }, &mut a);
        }
        a
    });
    let mut total = Agg::default();
    for a in results {
        total.texts += a.texts;
        total.parser_rejected += a.parser_rejected;
        total.other_declaration += a.other_declaration;
        total.compiler_rejected_texts += a.compiler_rejected_texts;
        total.oracle_texts += a.oracle_texts;
        total.transform_runs += a.transform_runs;
        total.entry_paths_checked += a.entry_paths_checked;
        total.rejected_transform_runs += a.rejected_transform_runs;
        total.outcomes.extend(a.outcomes);
        for (k, v) in a.by_family {
            *total.by_family.entry(k).or_default() += v;
        }
        total.violations.extend(a.violations);
        total.rejected_panics.extend(a.rejected_panics);
        total.parser_panics.extend(a.parser_panics);
        if total.samples.len() < 64 {
            total.samples.extend(a.samples);
        }
    }
    let mut verdict = Verdict::new("C28");
    total.violations.sort_by_key(|v| (v.case["text"].as_str().map(|s| s.len()).unwrap_or(0), v.case["env"]["file"].as_str().map(|s| s.len()).unwrap_or(0)));
    let mut per_sig: BTreeMap<String, u64> = BTreeMap::new();
    for v in &total.violations {
        *per_sig.entry(v.signature.clone()).or_default() += 1;
    }
    for v in total.violations {
        verdict.add(v);
    }
    let (code, n_new, known) = verdict.conclude("iso_mc/c28");
    total.rejected_panics.sort();
    total.rejected_panics.dedup();
    for p in total.rejected_panics.iter().take(5) {
        println!("NOTE: transform panicked on a literal the compiler rejects (outside the property): {p}");
    }
    ev.violations = n_new as i64;
    ev.set("evaluations", total.transform_runs + total.rejected_transform_runs)
        .set("distinct_nontrivial", total.oracle_texts)
        .set("rule", "distinct (token sequence, layout) literal texts; each token sequence compiled once by the real compiler, each text parsed by the real parse_iso_literal and run through the real compile_iso_literal_visitor in every listed environment and call-site form; non-trivial = the text is accepted by the parser, denotes the declaration of its token sequence, and that token sequence is accepted by the real compiler (so the oracle ran)")
        .set("distinct_texts", total.texts)
        .set("texts_rejected_by_parser", total.parser_rejected)
        .set("texts_accepted_but_other_declaration", total.other_declaration)
        .set("texts_parser_accepted_compiler_rejected", total.compiler_rejected_texts)
        .set("transform_runs_on_accepted", total.transform_runs)
        .set("transform_runs_on_rejected_panic_only", total.rejected_transform_runs)
        .set("entrypoint_paths_checked", total.entry_paths_checked)
        .set("token_sequences", sents.len())
        .set("token_sequences_compiled_ok", compiled_ok)
        .set("grammar_sentences", n_grammar)
        .set("grammar_token_budget", budget)
        .set("compile_reject_classes", json!(reject_classes.iter().map(|(k, (n, ex))| json!({"diagnostic": k, "count": n, "example": ex})).collect::<Vec<_>>()))
        .set("environments", json!(envs_all))
        .set("environment_bindings_checked_by_real_compile", env_checks)
        .set("texts_by_family", json!(total.by_family))
        .set("type_alphabet", json!(TYPES))
        .set("name_alphabet", json!(NAMES))
        .set("product_gap_alphabet", json!(prod_gaps))
        .set("single_gap_alphabet", json!(SINGLE_GAPS))
        .set("outcomes", total.outcomes.len())
        .set("outcome_classes", json!(total.outcomes))
        .set("violating_observations_by_signature", json!(per_sig))
        .set("transform_panics_on_rejected_literals", json!(total.rejected_panics.iter().take(10).collect::<Vec<_>>()))
        .set("parser_panics", json!(total.parser_panics.iter().take(10).collect::<Vec<_>>()))
        .set("observation_same_entrypoint_literal_twice_in_one_module", probe_same_entrypoint_twice())
        .set("samples", json!(pick_samples(&total.samples)))
        .set("known_findings_reobserved", json!(known))
        .set("exhaustive", true);
    ev.assume("module resolution is modelled lexically: a specifier starting with ./ or ../ is joined to the directory of the importing file and normalised; anything else is not a relative path");
    ev.assume("the artifact path of a declaration depends on the token sequence of its literal, not on its whitespace layout (one real compile per token sequence; every layout is checked to parse to the same declaration)");
    ev.assume("the plugin is given an absolute file name and an absolute root_dir (as its WasmConfig documents)");
    ev.write();
    if total.oracle_texts < 2000 || total.entry_paths_checked < 500 || compiled_ok < 200 {
        machinery_error(&format!("vacuous: {} texts reached the oracle, {} entrypoint paths checked, {} token sequences compiled", total.oracle_texts, total.entry_paths_checked, compiled_ok));
    }
    if total.outcomes.len() < 4 {
        machinery_error(&format!("vacuous: only {} distinct outcome classes {:?}", total.outcomes.len(), total.outcomes));
    }
    println!(
        "iso_mc C28: {} token sequences ({} accepted by the real compiler), {} texts, {} reached the oracle, {} transform runs, {} entrypoint paths checked, {} new violation signature(s), known {:?}",
        sents.len(), compiled_ok, total.texts, total.oracle_texts, total.transform_runs, total.entry_paths_checked, n_new, known
    );
    code
}

fn run_text(family: &str, text: &str, sent: &Sent, facts: &Facts, envs: &[Env], a: &mut Agg) {
    a.texts += 1;
    *a.by_family.entry(family.to_string()).or_default() += 1;
    let parsed = match parse(text) {
        Err(p) => {
            a.parser_panics.push(format!("{:?}: {p}", text));
            return;
        }
        Ok(p) => p,
    };
    let in_scope = match &parsed {
        None => {
            a.parser_rejected += 1;
            false
        }
        Some(p) if p.kind != sent.kind || p.ty != sent.ty() || p.name != sent.name() => {
            a.other_declaration += 1;
            false
        }
        Some(_) if !facts.accepted => {
            a.compiler_rejected_texts += 1;
            false
        }
        Some(_) => true,
    };
    if !in_scope {
        // outside the property: the transform may do anything except panic (reported separately)
        let env = &envs[0];
        for site in sites(sent.kind) {
            a.rejected_transform_runs += 1;
            if let Some(p) = observe(text, *site, env).panic {
                a.rejected_panics.push(format!("{:?}: {p}", text));
            }
        }
        return;
    }
    let p = parsed.unwrap();
    a.oracle_texts += 1;
    for env in envs {
        for site in sites(sent.kind) {
            a.transform_runs += 1;
            let obs = observe(text, *site, env);
            if p.kind == Kind::Entrypoint && matches!(obs.site, Some(SiteObs::Import { .. }) | Some(SiteObs::Require { .. })) {
                a.entry_paths_checked += 1;
            }
            let fails = judge(text, &p, facts, *site, env, &obs);
            let class = format!(
                "{:?}/{}/{}",
                p.kind,
                env.module,
                match (&obs.panic, &obs.site) {
                    (Some(_), _) => "panic".to_string(),
                    (_, Some(SiteObs::Import { .. })) => "import".into(),
                    (_, Some(SiteObs::Require { .. })) => "require".into(),
                    (_, Some(SiteObs::Fn)) => "fn".into(),
                    (_, Some(SiteObs::Identity)) => "identity".into(),
                    (_, Some(SiteObs::Unchanged)) => "unchanged".into(),
                    (_, Some(SiteObs::Other(_))) => "other".into(),
                    (_, None) => "none".into(),
                }
            );
            a.outcomes.insert(class);
            if a.samples.len() < 2 && fails.is_empty() {
                a.samples.push(json!({"text": text, "site": site, "env": env, "observed": obs.site, "compiler_entrypoint_artifacts": facts.entry_artifacts}));
            }
            for (sig, what) in fails {
                // keep the shortest per signature per chunk
                match a.violations.iter_mut().find(|v| v.signature == sig) {
                    Some(v) if v.case["text"].as_str().map(|s| s.len()).unwrap_or(0) > text.len() => *v = Violation { signature: sig, what, case: case_json(text, *site, env, sent) },
                    Some(_) => {}
                    None => a.violations.push(Violation { signature: sig, what, case: case_json(text, *site, env, sent) }),
                }
            }
        }
    }
}

/// Informational (not part of the verdict: the property speaks about one literal at a time): what
/// the transform does with a module that uses the same entrypoint literal twice under esmodule.
fn probe_same_entrypoint_twice() -> Value {
    let env = &small_envs()[0];
    let src = "import { iso } from './__isograph/iso';\nconst A = iso(`entrypoint Query.a`);\nconst B = iso(`entrypoint Query.a`);\n";
    let Ok((input, cm)) = swcx::parse_module_cm(src, true) else { return Value::Null };
    let cfg = swcx::plugin_config(&env.project_root, None, "esmodule");
    match swcx::transform(input, cm, &cfg, &env.file_abs(ROOT), Path::new(ROOT)) {
        Ok(t) => {
            let imports: Vec<String> = t.module.body.iter().filter(|i| matches!(i, ModuleItem::ModuleDecl(ModuleDecl::Import(_)))).map(swcx::print_item).collect();
            let dup = imports.iter().filter(|i| i.contains("_Query__a")).count();
            json!({"module": src, "output": swcx::print_module(&t.module), "import_declarations_binding_the_same_identifier": dup, "note": if dup > 1 { "the output declares the same import binding more than once (an early error in an ES module)" } else { "one binding" }})
        }
        Err(p) => json!({"panic": p}),
    }
}

/// Each (project_root, artifact_directory, file) environment used for the transform is realised on
/// disk once and compiled by the real compiler: the artifact directory must be where the oracle
/// assumes, and the entrypoint artifact must be in it.
fn bind_envs(args: &Args) -> usize {
    let mut triples: Vec<Env> = all_envs().into_iter().filter(|e| e.module == "esmodule").collect();
    triples.dedup();
    let r = par_map_with(&triples, args.jobs, |j| Scratch::new(&format!("iso28e-{j}")), |scratch, env| {
        let dir = scratch.path().join("p");
        let file = env.file_abs(dir.to_str().unwrap());
        let iso = rel_spec(file.parent().unwrap(), &env.artifact_dir(dir.to_str().unwrap()).join("iso"));
        let src = format!("import {{ iso }} from '{iso}';\nexport const C = iso(`field Query.a {{ x, }}`)({FN_SRC});\nconst E = useLazyReference(iso(`entrypoint Query.a`), {{}});\n");
        let p = Project { project_root: env.project_root.clone(), artifact_directory: env.artifact_directory.clone(), options: json!({"module": env.module}), schema: "type Query { x: Int }\n".into(), files: vec![(env.file.clone(), src)] };
        p.write_to(&dir);
        match compile_dir(&dir) {
            Compiled::Ok(ad, arts) => {
                let expect = env.artifact_dir(dir.to_str().unwrap());
                if ad != expect {
                    return Err(format!("{env:?}: artifact directory is {} but the harness assumes {}", ad.display(), expect.display()));
                }
                if !arts.iter().any(|a| a.0 == "Query/a/entrypoint.ts") || !expect.join("Query/a/entrypoint.ts").is_file() {
                    return Err(format!("{env:?}: no Query/a/entrypoint.ts among {:?}", arts.iter().map(|a| &a.0).collect::<Vec<_>>()));
                }
                Ok(())
            }
            other => Err(format!("{env:?}: real compile failed: {other:?}")),
        }
    });
    for x in &r {
        if let Err(e) = x {
            machinery_error(&format!("environment binding failed: {e}"));
        }
    }
    r.len()
}

fn replay(args: &Args) -> i32 {
    let path = args.replay.as_ref().unwrap();
    let v = read_replay(path);
    let c = &v["case"];
    let text = c["text"].as_str().unwrap_or_else(|| machinery_error("replay lacks text")).to_string();
    let site: Site = serde_json::from_value(c["site"].clone()).unwrap_or_else(|e| machinery_error(&format!("bad site {e}")));
    let env: Env = serde_json::from_value(c["env"].clone()).unwrap_or_else(|e| machinery_error(&format!("bad env {e}")));
    let files: Vec<(String, String)> = serde_json::from_value(c["compile"]["files"].clone()).unwrap_or_else(|e| machinery_error(&format!("bad files {e}")));
    let schema = c["compile"]["schema"].as_str().unwrap_or("").to_string();
    let scratch = Scratch::new("iso28-replay");
    let run = || {
        let dir = scratch.path().join("p");
        Project { project_root: "./src".into(), artifact_directory: None, options: json!({}), schema: schema.clone(), files: files.clone() }.write_to(&dir);
        let facts = facts_of(&compile_dir(&dir));
        let parsed = parse(&text);
        let obs = observe(&text, site, &env);
        (facts, parsed, obs)
    };
    let (f1, p1, o1) = run();
    let (f2, p2, o2) = run();
    if f1 != f2 || o1 != o2 || format!("{p1:?}") != format!("{p2:?}") {
        machinery_error("replay is not deterministic: two runs gave different observations");
    }
    println!("literal text: {text:?}\nenvironment: {env:?}\ncall site: {site:?}");
    println!("real compiler on the sentence project: accepted={} entrypoint artifacts={:?} {}", f1.accepted, f1.entry_artifacts, f1.diag);
    println!("real parser: {p1:?}");
    println!("transform output:\n{}", o1.printed);
    println!("observed at the call site: {:?}; added items: {:?}; plugin errors: {}; panic: {:?}", o1.site, o1.added, o1.plugin_errors, o1.panic);
    let Ok(Some(p)) = p1 else {
        println!("REPLAY: the parser does not accept the literal: outside the property");
        return 0;
    };
    if !f1.accepted {
        println!("REPLAY: the compiler does not accept the sentence project: outside the property");
        return 0;
    }
    let fails = judge(&text, &p, &f1, site, &env, &o1);
    if fails.is_empty() {
        println!("REPLAY: no failure");
        return 0;
    }
    for (sig, what) in &fails {
        println!("REPLAY: [{sig}] {what}");
    }
    println!("VIOLATION property=C28 replay={}", path.display());
    1
}

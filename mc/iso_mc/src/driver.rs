//! Runs the real compiler on a project directory (the CLI's path: create_config + CompilerState::new
//! + batch compile), as comp_mc/src/driver.rs does.
use common_lang_types::CurrentWorkingDirectory;
use graphql_network_protocol::GraphQLAndJavascriptProfile;
use intern::string_key::Intern;
use isograph_compiler::{CompilerState, batch_compile::compile};
use isograph_config::create_config;
use std::panic::{AssertUnwindSafe, catch_unwind};
use std::path::{Path, PathBuf};

#[derive(Debug, Clone)]
pub enum Compiled {
    /// absolute artifact directory + (path relative to it, content), sorted by path
    Ok(PathBuf, Vec<(String, String)>),
    Diagnostics(Vec<String>),
    Panic(String),
}

fn read_artifacts(artifact_dir: &Path) -> Vec<(String, String)> {
    fn walk(base: &Path, d: &Path, out: &mut Vec<(String, String)>) {
        let Ok(rd) = std::fs::read_dir(d) else { return };
        for e in rd.flatten() {
            let p = e.path();
            if p.is_dir() {
                walk(base, &p, out);
            } else {
                out.push((p.strip_prefix(base).unwrap().to_string_lossy().to_string(), String::from_utf8_lossy(&std::fs::read(&p).unwrap_or_default()).to_string()));
            }
        }
    }
    let mut out = vec![];
    walk(artifact_dir, artifact_dir, &mut out);
    out.sort();
    out
}

/// Fresh batch compile of the project in `dir` (as `isograph_cli` does).
pub fn compile_dir(dir: &Path) -> Compiled {
    let r = catch_unwind(AssertUnwindSafe(|| {
        let cwd: CurrentWorkingDirectory = dir.to_str().unwrap().intern().into();
        let config = create_config(&dir.join("isograph.config.json"), cwd);
        let mut state = match CompilerState::<GraphQLAndJavascriptProfile>::new(config, cwd) {
            Ok(s) => s,
            Err(e) => return Compiled::Diagnostics(vec![e.to_string()]),
        };
        match compile::<GraphQLAndJavascriptProfile>(&mut state) {
            Ok(_) => {
                let ad = state.db.get_isograph_config().artifact_directory.absolute_path.clone();
                let arts = read_artifacts(&ad);
                Compiled::Ok(ad, arts)
            }
            Err(diags) => Compiled::Diagnostics(diags.iter().map(|d| d.printable(state.db.print_location_fn(false)).to_string()).collect()),
        }
    }));
    r.unwrap_or_else(|p| Compiled::Panic(mc_core::panic_message(&*p)))
}

/// A project on disk: config (project_root / artifact_directory / options), schema, source files.
#[derive(Debug, Clone)]
pub struct Project {
    pub project_root: String,
    pub artifact_directory: Option<String>,
    pub options: serde_json::Value,
    pub schema: String,
    /// (path relative to the project directory, content)
    pub files: Vec<(String, String)>,
}

impl Project {
    pub fn write_to(&self, dir: &Path) {
        let _ = std::fs::remove_dir_all(dir);
        std::fs::create_dir_all(dir).unwrap();
        std::fs::write(dir.join("schema.graphql"), &self.schema).unwrap();
        let mut cfg = serde_json::json!({"project_root": self.project_root, "schema": "./schema.graphql", "options": self.options});
        if let Some(a) = &self.artifact_directory {
            cfg["artifact_directory"] = serde_json::json!(a);
        }
        std::fs::write(dir.join("isograph.config.json"), serde_json::to_string_pretty(&cfg).unwrap()).unwrap();
        for (p, c) in &self.files {
            let f = dir.join(p);
            std::fs::create_dir_all(f.parent().unwrap()).unwrap();
            std::fs::write(f, c).unwrap();
        }
    }
}

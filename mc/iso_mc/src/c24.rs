//! C24 — each iso literal resolves to its own generated overload.
//!
//! Enumerated: every program that declares at most n slots of the universe
//! {A, AB} x {f, fx, fxy, f_} (names that are prefixes of one another, on types that are prefixes of
//! one another; A is the query root, AB the mutation root), each slot a client field, a client
//! field with an entrypoint, a client pointer (thorough: also @component fields), compiled by the
//! REAL compiler from a project on disk; x whitespace layouts of the literal headers.
//!
//! Trusted base (no tsc in the sandbox), stated once: a call `iso(`text`)` resolves to the FIRST
//! overload, in file order, whose parameter type accepts the literal type of `text`; an overload
//! `param: T & MatchesWhitespaceAndString<P, T>` accepts it iff the conditional type does not
//! evaluate to `never`. The conditional types themselves are NOT re-derived: `WhitespaceCharacter`,
//! `Whitespace` and `MatchesWhitespaceAndString` are read from the generated iso.ts with swc and
//! interpreted (strip leading characters of the union; match the template literal pattern made of
//! literal text, the TString parameter and `${string}` holes); any other shape is a machinery
//! error. The overload list, its order, the pattern strings and the declaration each overload
//! belongs to (through the import its return type refers to) are read from the same parse.
//! Template literal text is cooked as ECMAScript does (CRLF -> LF).

use crate::driver::{Compiled, Project, compile_dir};
use crate::par::par_map_with;
use crate::swcx;
use mc_core::*;
use serde::{Deserialize, Serialize};
use serde_json::{Value, json};
use std::collections::{BTreeMap, BTreeSet};
use swc_ecma_ast::*;

// ---------------------------------------------------------------------------------------------
// iso.ts as read by swc
// ---------------------------------------------------------------------------------------------

#[derive(Debug, Clone, PartialEq, Eq, PartialOrd, Ord, Serialize, Deserialize)]
pub struct DeclId {
    pub ty: String,
    pub name: String,
    pub entrypoint: bool,
}

#[derive(Debug, Clone, PartialEq)]
pub enum Wrapper {
    IdentityWithParam { has_return_constraint: bool },
    IdentityWithParamComponent,
    TypeofEntrypoint,
}

#[derive(Debug, Clone, PartialEq)]
pub enum Overload {
    Specific { pattern: String, decl: Option<DeclId>, wrapper: Wrapper, ret: String },
    /// `iso(text: string)`: accepts every literal
    CatchAll,
}

#[derive(Debug, Clone, PartialEq)]
pub enum Part {
    Lit(String),
    TString,
    AnyString,
}

#[derive(Debug, Clone, PartialEq)]
pub struct IsoTs {
    pub ws: Vec<char>,
    /// MatchesWhitespaceAndString strips leading whitespace of T before matching
    pub strips: bool,
    pub pattern: Vec<Part>,
    pub overloads: Vec<Overload>,
}

fn ref_name(t: &TsType) -> Option<(&str, Vec<&TsType>)> {
    match t {
        TsType::TsTypeRef(r) => match &r.type_name {
            TsEntityName::Ident(i) => Some((&*i.sym, r.type_params.as_ref().map(|p| p.params.iter().map(|b| &**b).collect()).unwrap_or_default())),
            _ => None,
        },
        _ => None,
    }
}

fn str_lit(t: &TsType) -> Option<String> {
    match t {
        TsType::TsLitType(TsLitType { lit: TsLit::Str(s), .. }) => Some(s.value.to_string()),
        _ => None,
    }
}

fn tpl(t: &TsType) -> Option<&TsTplLitType> {
    match t {
        TsType::TsLitType(TsLitType { lit: TsLit::Tpl(t), .. }) => Some(t),
        _ => None,
    }
}

fn is_param(t: &TsType, name: &str) -> bool {
    matches!(ref_name(t), Some((n, a)) if n == name && a.is_empty())
}

fn strip_ts(spec: &str) -> &str {
    spec.strip_suffix(".ts").unwrap_or(spec)
}

const UNPARSABLE: &str = "iso.ts does not parse: ";

pub fn read_iso_ts(src: &str) -> Result<IsoTs, String> {
    let module = swcx::parse_module(src, false).map_err(|e| format!("{UNPARSABLE}{e}"))?;
    let mut aliases: BTreeMap<String, &TsTypeAliasDecl> = BTreeMap::new();
    // local name -> (module specifier, is default import)
    let mut imports: BTreeMap<String, (String, bool)> = BTreeMap::new();
    for item in &module.body {
        match item {
            ModuleItem::Stmt(Stmt::Decl(Decl::TsTypeAlias(a))) => {
                aliases.insert(a.id.sym.to_string(), a);
            }
            ModuleItem::ModuleDecl(ModuleDecl::Import(i)) => {
                for s in &i.specifiers {
                    match s {
                        ImportSpecifier::Named(n) => {
                            imports.insert(n.local.sym.to_string(), (i.src.value.to_string(), false));
                        }
                        ImportSpecifier::Default(d) => {
                            imports.insert(d.local.sym.to_string(), (i.src.value.to_string(), true));
                        }
                        _ => {}
                    }
                }
            }
            _ => {}
        }
    }
    // WhitespaceCharacter: a union of one-character string literals
    let wsa = aliases.get("WhitespaceCharacter").ok_or("iso.ts has no WhitespaceCharacter alias")?;
    let mut ws = vec![];
    let members: Vec<&TsType> = match &*wsa.type_ann {
        TsType::TsUnionOrIntersectionType(TsUnionOrIntersectionType::TsUnionType(u)) => u.types.iter().map(|b| &**b).collect(),
        other => vec![other],
    };
    for m in members {
        let s = str_lit(m).ok_or("WhitespaceCharacter is not a union of string literals")?;
        let mut it = s.chars();
        match (it.next(), it.next()) {
            (Some(c), None) => ws.push(c),
            _ => return Err(format!("WhitespaceCharacter member {s:?} is not one character")),
        }
    }
    // Whitespace<In> = In extends `${WhitespaceCharacter}${infer In}` ? Whitespace<In> : In
    let w = aliases.get("Whitespace").ok_or("iso.ts has no Whitespace alias")?;
    let shape_ok = (|| {
        let p = w.type_params.as_ref()?;
        if p.params.len() != 1 {
            return None;
        }
        let pn = p.params[0].name.sym.to_string();
        let TsType::TsConditionalType(c) = &*w.type_ann else { return None };
        if !is_param(&c.check_type, &pn) {
            return None;
        }
        let t = tpl(&c.extends_type)?;
        if t.types.len() != 2 || t.quasis.iter().any(|q| !q.raw.is_empty()) {
            return None;
        }
        if !is_param(&t.types[0], "WhitespaceCharacter") {
            return None;
        }
        let TsType::TsInferType(inf) = &*t.types[1] else { return None };
        let inner = inf.type_param.name.sym.to_string();
        let (n, a) = ref_name(&c.true_type)?;
        if n != "Whitespace" || a.len() != 1 || !is_param(a[0], &inner) {
            return None;
        }
        if !is_param(&c.false_type, &pn) {
            return None;
        }
        Some(())
    })();
    if shape_ok.is_none() {
        return Err("the Whitespace<In> alias of iso.ts no longer has the shape `In extends `${WhitespaceCharacter}${infer In}` ? Whitespace<In> : In`; the reference interpreter must be re-derived".into());
    }
    // MatchesWhitespaceAndString<TString, T> = (Whitespace<T> | T) extends `...` ? T : never
    let m = aliases.get("MatchesWhitespaceAndString").ok_or("iso.ts has no MatchesWhitespaceAndString alias")?;
    let (strips, pattern) = (|| {
        let p = m.type_params.as_ref()?;
        if p.params.len() != 2 {
            return None;
        }
        let (ts_name, t_name) = (p.params[0].name.sym.to_string(), p.params[1].name.sym.to_string());
        let TsType::TsConditionalType(c) = &*m.type_ann else { return None };
        let strips = if is_param(&c.check_type, &t_name) {
            false
        } else {
            let (n, a) = ref_name(&c.check_type)?;
            if n != "Whitespace" || a.len() != 1 || !is_param(a[0], &t_name) {
                return None;
            }
            true
        };
        if !is_param(&c.true_type, &t_name) || !matches!(&*c.false_type, TsType::TsKeywordType(k) if k.kind == TsKeywordTypeKind::TsNeverKeyword) {
            return None;
        }
        let t = tpl(&c.extends_type)?;
        let mut parts = vec![];
        for (i, q) in t.quasis.iter().enumerate() {
            let text = q.cooked.as_ref().map(|c| c.to_string()).unwrap_or_else(|| q.raw.to_string());
            if !text.is_empty() {
                parts.push(Part::Lit(text));
            }
            if let Some(ty) = t.types.get(i) {
                if is_param(ty, &ts_name) {
                    parts.push(Part::TString);
                } else if matches!(&**ty, TsType::TsKeywordType(k) if k.kind == TsKeywordTypeKind::TsStringKeyword) {
                    parts.push(Part::AnyString);
                } else {
                    return None;
                }
            }
        }
        Some((strips, parts))
    })()
    .ok_or("the MatchesWhitespaceAndString alias of iso.ts no longer has the shape `(Whitespace<T> | T) extends `<text, ${TString}, ${string}>` ? T : never`; the reference interpreter must be re-derived")?;

    // overloads, in file order
    let mut overloads = vec![];
    for item in &module.body {
        let ModuleItem::ModuleDecl(ModuleDecl::ExportDecl(ExportDecl { decl: Decl::Fn(f), .. })) = item else { continue };
        if &*f.ident.sym != "iso" {
            continue;
        }
        let func = &f.function;
        if func.params.len() != 1 {
            return Err("an iso overload does not take exactly one parameter".into());
        }
        let Pat::Ident(pid) = &func.params[0].pat else { return Err("an iso overload parameter is not an identifier".into()) };
        let pty = pid.type_ann.as_ref().ok_or("an iso overload parameter has no type")?;
        if matches!(&*pty.type_ann, TsType::TsKeywordType(k) if k.kind == TsKeywordTypeKind::TsStringKeyword) {
            overloads.push(Overload::CatchAll);
            continue;
        }
        let tparams = func.type_params.as_ref().ok_or("a specific iso overload has no type parameter")?;
        if tparams.params.len() != 1 {
            return Err("a specific iso overload does not have exactly one type parameter".into());
        }
        let tname = tparams.params[0].name.sym.to_string();
        let TsType::TsUnionOrIntersectionType(TsUnionOrIntersectionType::TsIntersectionType(x)) = &*pty.type_ann else { return Err("a specific iso overload parameter is not `T & MatchesWhitespaceAndString<..>`".into()) };
        if x.types.len() != 2 || !is_param(&x.types[0], &tname) {
            return Err("a specific iso overload parameter is not `T & MatchesWhitespaceAndString<..>`".into());
        }
        let (n, a) = ref_name(&x.types[1]).ok_or("a specific iso overload parameter is not `T & MatchesWhitespaceAndString<..>`")?;
        if n != "MatchesWhitespaceAndString" || a.len() != 2 || !is_param(a[1], &tname) {
            return Err("a specific iso overload parameter is not `T & MatchesWhitespaceAndString<'..', T>`".into());
        }
        let pattern_s = str_lit(a[0]).ok_or("the pattern of an iso overload is not a string literal")?;
        let ret = func.return_type.as_ref().ok_or("an iso overload has no return type")?;
        let ret_src = {
            let lo = ret.type_ann.span().lo.0 as usize - 1;
            let hi = ret.type_ann.span().hi.0 as usize - 1;
            src.get(lo..hi).unwrap_or("").to_string()
        };
        let (wrapper, local) = match &*ret.type_ann {
            TsType::TsTypeQuery(q) => match &q.expr_name {
                TsTypeQueryExpr::TsEntityName(TsEntityName::Ident(i)) => (Wrapper::TypeofEntrypoint, i.sym.to_string()),
                _ => return Err(format!("unrecognised overload return type {ret_src}")),
            },
            other => {
                let (n, a) = ref_name(other).ok_or(format!("unrecognised overload return type {ret_src}"))?;
                let w = match n {
                    "IdentityWithParam" => Wrapper::IdentityWithParam { has_return_constraint: a.len() > 1 },
                    "IdentityWithParamComponent" => Wrapper::IdentityWithParamComponent,
                    _ => return Err(format!("unrecognised overload return type {ret_src}")),
                };
                let (p, pa) = a.first().and_then(|t| ref_name(t)).ok_or(format!("unrecognised overload return type {ret_src}"))?;
                if !pa.is_empty() {
                    return Err(format!("unrecognised overload return type {ret_src}"));
                }
                (w, p.to_string())
            }
        };
        // which declaration do these types belong to: follow the import
        let decl = imports.get(&local).and_then(|(spec, default)| {
            let parts: Vec<&str> = strip_ts(spec).split('/').collect();
            match (&wrapper, *default, &parts[..]) {
                (Wrapper::TypeofEntrypoint, true, ["..", "__isograph", ty, name, "entrypoint"]) => Some(DeclId { ty: ty.to_string(), name: name.to_string(), entrypoint: true }),
                (Wrapper::IdentityWithParam { .. } | Wrapper::IdentityWithParamComponent, false, [".", ty, name, "param_type"]) => Some(DeclId { ty: ty.to_string(), name: name.to_string(), entrypoint: false }),
                _ => None,
            }
        });
        overloads.push(Overload::Specific { pattern: pattern_s, decl, wrapper, ret: ret_src });
    }
    Ok(IsoTs { ws, strips, pattern, overloads })
}

use swc_common::Spanned;

/// ECMAScript template literal cooking, as far as our texts need it: CRLF and CR become LF.
pub fn cook(text: &str) -> String {
    text.replace("\r\n", "\n").replace('\r', "\n")
}

fn match_parts(parts: &[Part], tstring: &str, s: &str) -> bool {
    match parts.split_first() {
        None => s.is_empty(),
        Some((Part::Lit(l), rest)) => s.strip_prefix(l.as_str()).is_some_and(|r| match_parts(rest, tstring, r)),
        Some((Part::TString, rest)) => s.strip_prefix(tstring).is_some_and(|r| match_parts(rest, tstring, r)),
        Some((Part::AnyString, rest)) => {
            if rest.is_empty() {
                return true;
            }
            let mut idx: Vec<usize> = s.char_indices().map(|(i, _)| i).collect();
            idx.push(s.len());
            idx.into_iter().any(|i| match_parts(rest, tstring, &s[i..]))
        }
    }
}

impl IsoTs {
    pub fn accepts(&self, pattern: &str, text: &str) -> bool {
        let cooked = cook(text);
        let s: &str = if self.strips { cooked.trim_start_matches(|c| self.ws.contains(&c)) } else { &cooked };
        match_parts(&self.pattern, pattern, s)
    }
    /// index of the first overload, in file order, that accepts the literal
    pub fn resolve(&self, text: &str) -> Option<usize> {
        self.overloads.iter().position(|o| match o {
            Overload::CatchAll => true,
            Overload::Specific { pattern, .. } => self.accepts(pattern, text),
        })
    }
}

// ---------------------------------------------------------------------------------------------
// programs
// ---------------------------------------------------------------------------------------------

const TYPES: [&str; 2] = ["A", "AB"];
const NAMES: [&str; 4] = ["f", "fx", "fxy", "f_"];
const SCHEMA: &str = "schema { query: A, mutation: AB }\ntype A { x: Int, a: A, ab: AB }\ntype AB { x: Int, a: A, ab: AB }\n";
const FN_SRC: &str = "function Comp({ data }) {\n    return data;\n}";

#[derive(Debug, Clone, Copy, PartialEq, Eq, PartialOrd, Ord, Hash, Serialize, Deserialize)]
pub enum SlotKind {
    Field,
    FieldEntry,
    Pointer,
    Component,
    ComponentEntry,
}

#[derive(Debug, Clone, PartialEq, Eq, PartialOrd, Ord, Hash, Serialize, Deserialize)]
pub struct Slot {
    pub ty: String,
    pub name: String,
    pub kind: SlotKind,
}

#[derive(Debug, Clone, PartialEq, Eq, PartialOrd, Ord, Hash, Serialize, Deserialize)]
pub struct Layout {
    pub g0: String,
    pub g1: String,
    pub g2: String,
    pub g3: String,
    pub g4: String,
}

fn lay(g0: &str, g1: &str, g2: &str, g3: &str, g4: &str) -> Layout {
    Layout { g0: g0.into(), g1: g1.into(), g2: g2.into(), g3: g3.into(), g4: g4.into() }
}
fn canonical() -> Layout {
    lay("\n  ", " ", "", "", " ")
}

const G0: [&str; 6] = ["\n  ", "", " ", "\t", "\n\n    ", "\r\n  "];
const G1: [&str; 5] = [" ", "  ", "\n", "\t", "\n  "];
const GDOT: [(&str, &str); 4] = [("", ""), (" ", ""), ("", " "), (" ", " ")];
const G4: [&str; 4] = [" ", "", "\n", "  "];

fn single_deviation_layouts() -> Vec<Layout> {
    let mut v = vec![canonical()];
    for g in &G0[1..] {
        v.push(Layout { g0: g.to_string(), ..canonical() });
    }
    for g in &G1[1..] {
        v.push(Layout { g1: g.to_string(), ..canonical() });
    }
    for (a, b) in &GDOT[1..] {
        v.push(Layout { g2: a.to_string(), g3: b.to_string(), ..canonical() });
    }
    for g in &G4[1..] {
        v.push(Layout { g4: g.to_string(), ..canonical() });
    }
    v
}

fn product_layouts() -> Vec<Layout> {
    let mut v = vec![];
    for g0 in G0 {
        for g1 in G1 {
            for (g2, g3) in GDOT {
                for g4 in G4 {
                    v.push(lay(g0, g1, g2, g3, g4));
                }
            }
        }
    }
    v
}

/// the literals of one slot: (declaration, keyword, literal text)
fn slot_literals(s: &Slot, l: &Layout) -> Vec<(DeclId, &'static str, String)> {
    let other = if s.ty == "A" { "AB" } else { "A" };
    let (kw, tail): (&'static str, String) = match s.kind {
        SlotKind::Field | SlotKind::FieldEntry => ("field", "{\n    x,\n  }\n".into()),
        SlotKind::Component | SlotKind::ComponentEntry => ("field", "@component {\n    x,\n  }\n".into()),
        SlotKind::Pointer => ("pointer", format!("to {other} {{\n    x,\n  }}\n")),
    };
    // `name` glued to the keyword `to` would be another token sequence
    let g4: &str = if s.kind == SlotKind::Pointer && l.g4.is_empty() { " " } else { &l.g4 };
    let mut out = vec![(DeclId { ty: s.ty.clone(), name: s.name.clone(), entrypoint: false }, kw, format!("{}{kw}{}{}{}.{}{}{g4}{tail}", l.g0, l.g1, s.ty, l.g2, l.g3, s.name))];
    if matches!(s.kind, SlotKind::FieldEntry | SlotKind::ComponentEntry) {
        out.push((DeclId { ty: s.ty.clone(), name: s.name.clone(), entrypoint: true }, "entrypoint", format!("{}entrypoint{}{}{}.{}{}{}", l.g0, l.g1, s.ty, l.g2, l.g3, s.name, l.g4)));
    }
    out
}

fn project(slots: &[Slot], l: &Layout, options: &Value) -> Project {
    let mut src = String::from("import { iso } from './__isograph/iso';\n\n");
    for (i, s) in slots.iter().enumerate() {
        for (d, _, text) in slot_literals(s, l) {
            if d.entrypoint {
                src.push_str(&format!("const E{i} = iso(`{text}`);\n\n"));
            } else {
                src.push_str(&format!("export const D{i} = iso(`{text}`)({FN_SRC});\n\n"));
            }
        }
    }
    Project { project_root: "./src".into(), artifact_directory: None, options: options.clone(), schema: SCHEMA.into(), files: vec![("src/F.tsx".into(), src)] }
}

fn programs(n: usize, kinds: &[SlotKind]) -> Vec<Vec<Slot>> {
    let universe: Vec<(&str, &str)> = TYPES.iter().flat_map(|t| NAMES.iter().map(move |f| (*t, *f))).collect();
    let mut out: Vec<Vec<Slot>> = vec![];
    fn rec(universe: &[(&str, &str)], from: usize, n: usize, kinds: &[SlotKind], cur: &mut Vec<Slot>, out: &mut Vec<Vec<Slot>>) {
        if !cur.is_empty() {
            out.push(cur.clone());
        }
        if cur.len() == n {
            return;
        }
        for i in from..universe.len() {
            for k in kinds {
                cur.push(Slot { ty: universe[i].0.into(), name: universe[i].1.into(), kind: *k });
                rec(universe, i + 1, n, kinds, cur, out);
                cur.pop();
            }
        }
    }
    rec(&universe, 0, n, kinds, &mut vec![], &mut out);
    out.sort_by_key(|p| p.len());
    out
}

// ---------------------------------------------------------------------------------------------
// the oracle
// ---------------------------------------------------------------------------------------------

fn ws_cause(iso: &IsoTs, l: &Layout) -> &'static str {
    if !l.g2.is_empty() || !l.g3.is_empty() {
        "space-around-dot"
    } else if l.g1 != " " {
        "keyword-gap-not-one-space"
    } else if cook(&l.g0).chars().any(|c| !iso.ws.contains(&c)) {
        "leading-character-not-stripped"
    } else {
        "other"
    }
}

#[derive(Default)]
struct Tally {
    evaluations: u64,
    nontrivial: u64,
    order_decides: u64,
    parser_rejected: u64,
    fails: Vec<(String, String, Value)>,
}

/// one declaration literal against the overload list
fn judge_literal(iso: &IsoTs, d: &DeclId, kind: SlotKind, text: &str, l: &Layout, t: &mut Tally, case: &dyn Fn() -> Value) {
    t.evaluations += 1;
    // non-trivial: the file holds another overload whose pattern is a proper prefix / extension of this declaration's own
    let own_pattern = iso.overloads.iter().find_map(|o| match o {
        Overload::Specific { pattern, decl: Some(x), .. } if x == d => Some(pattern.as_str()),
        _ => None,
    });
    if let Some(p) = own_pattern {
        if iso.overloads.iter().any(|o| matches!(o, Overload::Specific { pattern: q, .. } if q != p && (q.starts_with(p) || p.starts_with(q.as_str())))) {
            t.nontrivial += 1;
        }
    }
    let accepting = iso.overloads.iter().filter(|o| matches!(o, Overload::Specific { pattern, .. } if iso.accepts(pattern, text))).count();
    if accepting >= 2 {
        t.order_decides += 1;
    }
    let mut fail = |sig: String, what: String| {
        if t.fails.iter().filter(|f| f.0 == sig).count() < 2 {
            t.fails.push((sig, what, case()));
        }
    };
    let own: Vec<usize> = iso.overloads.iter().enumerate().filter(|(_, o)| matches!(o, Overload::Specific { decl: Some(x), .. } if x == d)).map(|(i, _)| i).collect();
    let what_decl = format!("{} {}.{}", if d.entrypoint { "entrypoint" } else if kind == SlotKind::Pointer { "pointer" } else { "field" }, d.ty, d.name);
    if own.is_empty() {
        fail(format!("missing-overload:{}", if d.entrypoint { "entrypoint" } else { "client-declaration" }), format!("iso.ts has no overload whose return type belongs to {what_decl}"));
        return;
    }
    if own.len() > 1 {
        fail("duplicate-overload".into(), format!("iso.ts has {} overloads for {what_decl}", own.len()));
    }
    if let Overload::Specific { wrapper, ret, .. } = &iso.overloads[own[0]] {
        let ok = match (d.entrypoint, kind) {
            (true, _) => *wrapper == Wrapper::TypeofEntrypoint,
            (false, SlotKind::Component | SlotKind::ComponentEntry) => *wrapper == Wrapper::IdentityWithParamComponent,
            (false, SlotKind::Pointer) => *wrapper == Wrapper::IdentityWithParam { has_return_constraint: true },
            (false, _) => *wrapper == Wrapper::IdentityWithParam { has_return_constraint: false },
        };
        if !ok {
            fail("wrong-wrapper-type".into(), format!("the overload of {what_decl} returns {ret}"));
        }
    }
    match iso.resolve(text) {
        None => fail("no-overload-at-all".into(), format!("no overload (not even the catch-all) accepts {text:?} of {what_decl}")),
        Some(i) => match &iso.overloads[i] {
            Overload::CatchAll => fail(format!("no-specific-overload:{}", ws_cause(iso, l)), format!("the literal {text:?} of {what_decl} is accepted by no specific overload (its own pattern is {:?}); it resolves to the catch-all `string` overload and gets the union type", match &iso.overloads[own[0]] { Overload::Specific { pattern, .. } => pattern.as_str(), _ => "" })),
            Overload::Specific { decl, pattern, ret, .. } => {
                if decl.as_ref() != Some(d) {
                    let cause = match decl {
                        Some(o) if o.ty == d.ty && o.entrypoint == d.entrypoint && d.name.starts_with(&o.name) && d.name != o.name => "shadowed-by-prefix-name",
                        _ => "other",
                    };
                    fail(format!("wrong-overload:{cause}"), format!("the literal {text:?} of {what_decl} resolves to overload #{i} with pattern {pattern:?} returning {ret}, which belongs to {decl:?}; its own overload is #{}", own[0]));
                }
            }
        },
    }
}

#[derive(Debug, Clone, Serialize, Deserialize)]
struct Job {
    slots: Vec<Slot>,
    /// layouts compiled for real (each judged against its own iso.ts)
    compile_layouts: Vec<Layout>,
    /// judged against the canonical compile's iso.ts as well
    product: bool,
    options: Value,
}

#[derive(Default)]
struct JobOut {
    compiles: u64,
    accepted: u64,
    rejected: Vec<String>,
    layout_dependent: Vec<String>,
    tally: Tally,
    outcomes: BTreeSet<String>,
    sample: Option<Value>,
    machinery: Option<String>,
}

fn compile_iso(dir: &std::path::Path, p: &Project) -> Result<Result<(IsoTs, String), String>, String> {
    p.write_to(dir);
    match compile_dir(dir) {
        Compiled::Ok(_, arts) => {
            let Some((_, src)) = arts.iter().find(|a| a.0 == "iso.ts") else { return Err("the compile produced no iso.ts".into()) };
            let iso = match read_iso_ts(src) {
                Ok(i) => i,
                Err(e) if e.starts_with(UNPARSABLE) => return Ok(Err(e)),
                Err(e) => return Err(e),
            };
            Ok(Ok((iso, src.clone())))
        }
        Compiled::Diagnostics(d) => Ok(Err(d.first().cloned().unwrap_or_default())),
        Compiled::Panic(m) => Ok(Err(format!("PANIC {m}"))),
    }
}

fn run_job(dir: &std::path::Path, job: &Job, products: &[Layout]) -> JobOut {
    let mut out = JobOut::default();
    let mut canonical_iso: Option<IsoTs> = None;
    for (li, l) in job.compile_layouts.iter().enumerate() {
        let p = project(&job.slots, l, &job.options);
        out.compiles += 1;
        let (iso, _src) = match compile_iso(dir, &p) {
            Err(m) => {
                out.machinery = Some(m);
                return out;
            }
            Ok(Err(diag)) if diag.starts_with(UNPARSABLE) => {
                if out.tally.fails.iter().all(|f| f.0 != "iso-ts-does-not-parse") {
                    let d0 = slot_literals(&job.slots[0], l).pop().unwrap();
                    out.tally.fails.push(("iso-ts-does-not-parse".into(), format!("the generated iso.ts is not a TypeScript module ({diag}) for {:?} with options {} and layout {:?}: no literal resolves to any overload", job.slots, job.options, l), json!({"schema": SCHEMA, "files": p.files, "options": job.options, "decl": d0.0, "kind": job.slots[0].kind, "text": d0.2, "layout": l})));
                }
                continue;
            }
            Ok(Err(diag)) => {
                out.rejected.push(format!("{:?} / {:?}: {}", job.slots, l, diag.lines().next().unwrap_or("")));
                continue;
            }
            Ok(Ok(x)) => x,
        };
        out.accepted += 1;
        if li == 0 {
            canonical_iso = Some(iso.clone());
            out.sample = Some(json!({"slots": job.slots, "layout": l, "overload_patterns": iso.overloads.iter().map(|o| match o { Overload::Specific { pattern, .. } => pattern.clone(), Overload::CatchAll => "<string>".into() }).collect::<Vec<_>>()}));
        } else if canonical_iso.as_ref().is_some_and(|c| *c != iso) {
            out.layout_dependent.push(format!("{:?} / {:?}", job.slots, l));
        }
        out.outcomes.insert(format!("{:?}", iso.overloads.iter().map(|o| match o { Overload::Specific { pattern, .. } => pattern.clone(), Overload::CatchAll => "*".into() }).collect::<Vec<_>>()));
        for s in &job.slots {
            for (d, _, text) in slot_literals(s, l) {
                let case = || json!({"schema": SCHEMA, "files": p.files, "options": job.options, "decl": d, "kind": s.kind, "text": text, "layout": l});
                judge_literal(&iso, &d, s.kind, &text, l, &mut out.tally, &case);
            }
        }
    }
    if job.product {
        if let Some(iso) = &canonical_iso {
            for l in products {
                if job.compile_layouts.contains(l) {
                    continue; // already judged against its own real compile
                }
                for s in &job.slots {
                    for (d, kw, text) in slot_literals(s, l) {
                        // the text must be a literal the real parser accepts as this declaration
                        match crate::c28::parse(&text) {
                            Ok(Some(p)) if p.ty == d.ty && p.name == d.name && p.kind.kw() == kw => {}
                            _ => {
                                out.tally.parser_rejected += 1;
                                continue;
                            }
                        }
                        let case = || json!({"schema": SCHEMA, "files": project(&job.slots, l, &job.options).files, "options": job.options, "decl": d, "kind": s.kind, "text": text, "layout": l});
                        judge_literal(iso, &d, s.kind, &text, l, &mut out.tally, &case);
                    }
                }
            }
        }
    }
    out
}

pub fn main(args: &Args) -> i32 {
    quiet_panics();
    if args.replay.is_some() {
        return replay(args);
    }
    let mut ev = Evidence::new(args, "exploration");
    let thorough = args.tier == Tier::Thorough;
    let base_kinds = [SlotKind::Field, SlotKind::FieldEntry, SlotKind::Pointer];
    let all_kinds = [SlotKind::Field, SlotKind::FieldEntry, SlotKind::Pointer, SlotKind::Component, SlotKind::ComponentEntry];
    let n_max: usize = std::env::var("C24_N").ok().and_then(|s| s.parse().ok()).unwrap_or(args.tier.pick(3, 4));
    let singles = single_deviation_layouts();
    let products = product_layouts();
    let mut jobs: Vec<Job> = vec![];
    let mut seen: BTreeSet<Vec<Slot>> = BTreeSet::new();
    // every program up to n_max slots: canonical compile + the full layout product on its iso.ts;
    // programs up to 2 slots: a real compile per single-deviation layout
    for p in programs(n_max, &base_kinds) {
        seen.insert(p.clone());
        let cl = if p.len() <= 2 { singles.clone() } else { vec![canonical()] };
        jobs.push(Job { slots: p, compile_layouts: cl, product: true, options: json!({}) });
    }
    // all five kinds at a smaller size
    for p in programs(if thorough { 3 } else { 2 }, &all_kinds) {
        if seen.insert(p.clone()) {
            let cl = if p.len() <= 1 { singles.clone() } else { vec![canonical()] };
            jobs.push(Job { slots: p, compile_layouts: cl, product: true, options: json!({}) });
        }
    }
    // compiler options that change iso.ts
    for p in programs(if thorough { 2 } else { 1 }, &all_kinds) {
        for o in [json!({"no_babel_transform": true}), json!({"include_file_extensions_in_import_statements": true}), json!({"module": "commonjs"})] {
            // (a literal that starts on the line of the backtick as well: see iso-ts-does-not-parse)
            jobs.push(Job { slots: p.clone(), compile_layouts: vec![lay("", " ", "", "", " "), canonical()], product: false, options: o });
        }
    }
    let results = par_map_with(&jobs, args.jobs, |j| Scratch::new(&format!("iso24-{j}")), |scratch, job| run_job(&scratch.path().join("p"), job, &products));
    let mut total = Tally::default();
    let (mut compiles, mut accepted) = (0u64, 0u64);
    let mut rejected = vec![];
    let mut layout_dependent = vec![];
    let mut outcomes = BTreeSet::new();
    let mut samples = vec![];
    let mut verdict = Verdict::new("C24");
    for r in results {
        if let Some(m) = r.machinery {
            ev.write();
            machinery_error(&m);
        }
        compiles += r.compiles;
        accepted += r.accepted;
        rejected.extend(r.rejected);
        layout_dependent.extend(r.layout_dependent);
        outcomes.extend(r.outcomes);
        samples.extend(r.sample);
        total.evaluations += r.tally.evaluations;
        total.nontrivial += r.tally.nontrivial;
        total.order_decides += r.tally.order_decides;
        total.parser_rejected += r.tally.parser_rejected;
        for (sig, what, case) in r.tally.fails {
            verdict.add(Violation { signature: sig, what, case });
        }
    }
    // simplest first: fewest declarations, then shortest literal
    verdict.violations.sort_by_key(|v| (v.case["files"][0][1].as_str().map(|s| s.len()).unwrap_or(0), v.case["text"].as_str().map(|s| s.len()).unwrap_or(0)));
    let mut per_sig: BTreeMap<String, u64> = BTreeMap::new();
    for v in &verdict.violations {
        *per_sig.entry(v.signature.clone()).or_default() += 1;
    }
    let (code, n_new, known) = verdict.conclude("iso_mc/c24");
    ev.violations = n_new as i64;
    ev.set("evaluations", total.evaluations)
        .set("distinct_nontrivial", total.nontrivial)
        .set("rule", "every (accepted program, layout, declaration literal): the literal text as written in the source file is resolved against the overload list parsed from the iso.ts the real compiler generated for that program; non-trivial = the same iso.ts holds another overload whose pattern is a proper prefix or a proper extension of the pattern of this literal's declaration, so that overload order decides")
        .set("literals_accepted_by_two_or_more_patterns", total.order_decides)
        .set("programs", jobs.len())
        .set("max_declared_slots", n_max)
        .set("real_compiles", compiles)
        .set("real_compiles_accepted", accepted)
        .set("compile_rejections", json!(rejected.iter().take(5).collect::<Vec<_>>()))
        .set("layouts_compiled_for_real", singles.len())
        .set("layouts_in_product", products.len())
        .set("product_texts_rejected_by_parser", total.parser_rejected)
        .set("iso_ts_depends_on_layout", json!(layout_dependent.iter().take(5).collect::<Vec<_>>()))
        .set("universe", json!({"types": TYPES, "names": NAMES, "schema": SCHEMA}))
        .set("outcomes", outcomes.len())
        .set("failing_evaluations_by_signature_capped", json!(per_sig))
        .set("samples", json!(pick_samples(&samples)))
        .set("known_findings_reobserved", json!(known))
        .set("exhaustive", true);
    ev.assume("TypeScript resolves iso(`text`) to the first overload in file order whose parameter type accepts the literal type of the cooked template text (no tsc available: trusted base)");
    ev.assume("the helper types WhitespaceCharacter / Whitespace / MatchesWhitespaceAndString are interpreted from the generated file: strip leading characters of the union, then match `text ${TString} ${string}` patterns; a template literal type accepts a string iff some split of the string fits (holes typed `string`)");
    ev.assume("for programs of 3+ slots and for the layout product the overload list of the canonical-layout compile is used (iso.ts is checked not to depend on the layout on the real per-layout compiles of the smaller programs)");
    ev.write();
    if !rejected.is_empty() {
        machinery_error(&format!("the compiler rejects a program of the family (harness schema or literal is wrong): {}", rejected[0]));
    }
    if accepted < 200 || total.order_decides < 500 || outcomes.len() < 20 {
        machinery_error(&format!("vacuous: {accepted} accepted compiles, {} literals where the order decides, {} distinct overload lists", total.order_decides, outcomes.len()));
    }
    if !layout_dependent.is_empty() && code == 0 {
        machinery_error(&format!("iso.ts depends on the whitespace layout of the literals ({}); the extrapolation used for the layout product is unsound", layout_dependent[0]));
    }
    println!("iso_mc C24: {} programs, {} real compiles ({} accepted), {} literal resolutions ({} where two or more patterns accept), {} distinct overload lists, {} new violation signature(s), known {:?}", jobs.len(), compiles, accepted, total.evaluations, total.order_decides, outcomes.len(), n_new, known);
    code
}

fn replay(args: &Args) -> i32 {
    let path = args.replay.as_ref().unwrap();
    let v = read_replay(path);
    let c = &v["case"];
    let files: Vec<(String, String)> = serde_json::from_value(c["files"].clone()).unwrap_or_else(|e| machinery_error(&format!("bad files {e}")));
    let d: DeclId = serde_json::from_value(c["decl"].clone()).unwrap_or_else(|e| machinery_error(&format!("bad decl {e}")));
    let kind: SlotKind = serde_json::from_value(c["kind"].clone()).unwrap_or_else(|e| machinery_error(&format!("bad kind {e}")));
    let l: Layout = serde_json::from_value(c["layout"].clone()).unwrap_or_else(|e| machinery_error(&format!("bad layout {e}")));
    let text = c["text"].as_str().unwrap_or_else(|| machinery_error("replay lacks text")).to_string();
    let p = Project { project_root: "./src".into(), artifact_directory: None, options: c["options"].clone(), schema: c["schema"].as_str().unwrap_or(SCHEMA).into(), files };
    let scratch = Scratch::new("iso24-replay");
    let run = || compile_iso(&scratch.path().join("p"), &p);
    let (a, b) = (run(), run());
    let iso = match (a, b) {
        (Ok(Ok((i1, s1))), Ok(Ok((i2, s2)))) => {
            if i1 != i2 || s1 != s2 {
                machinery_error("replay is not deterministic: two compiles gave different iso.ts");
            }
            println!("--- generated iso.ts overloads, in order:");
            for (i, o) in i1.overloads.iter().enumerate() {
                match o {
                    Overload::Specific { pattern, decl, ret, .. } => println!("#{i} pattern {pattern:?} -> {ret}   (declaration {decl:?})"),
                    Overload::CatchAll => println!("#{i} catch-all (string)"),
                }
            }
            println!("whitespace characters stripped: {:?}; pattern shape: {:?}", i1.ws, i1.pattern);
            i1
        }
        (Err(m), _) | (_, Err(m)) => machinery_error(&m),
        (Ok(Err(d)), _) | (_, Ok(Err(d))) if d.starts_with(UNPARSABLE) => {
            println!("REPLAY: [iso-ts-does-not-parse] {d}");
            println!("VIOLATION property=C24 replay={}", path.display());
            return 1;
        }
        (Ok(Err(d)), _) | (_, Ok(Err(d))) => {
            println!("REPLAY: the compiler rejects the program: {d}");
            return 0;
        }
    };
    println!("literal text: {text:?}\ndeclaration: {d:?}");
    if !matches!(crate::c28::parse(&text), Ok(Some(_))) {
        println!("REPLAY: the parser does not accept the literal: outside the property");
        return 0;
    }
    println!("resolves to overload: {:?}", iso.resolve(&text));
    let mut t = Tally::default();
    judge_literal(&iso, &d, kind, &text, &l, &mut t, &|| Value::Null);
    if t.fails.is_empty() {
        println!("REPLAY: no failure");
        return 0;
    }
    for f in &t.fails {
        println!("REPLAY: [{}] {}", f.0, f.1);
    }
    println!("VIOLATION property=C24 replay={}", path.display());
    1
}

//! iso_mc — the iso literal as seen by three readers that must agree:
//! C28 (SWC transform vs compiler: classification, entrypoint artifact path, replacement) and
//! C24 (generated iso.ts overloads: each literal resolves to its own overload).

mod c24;
mod c28;
mod driver;
mod par;
mod swcx;

use mc_core::*;

fn main() {
    let args = Args::parse();
    let code = match args.property.as_str() {
        "C24" => c24::main(&args),
        "C28" => c28::main(&args),
        _ => machinery_error("iso_mc serves C24 C28"),
    };
    std::process::exit(code);
}

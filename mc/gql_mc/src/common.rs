//! Shared by C29 and C30: tree comparison with a path to the first difference, naming of
//! disagreements, the deduplicating parallel driver and result aggregation.

use crate::sentences::{Gen, Sentence};
use crate::mutate;
use crate::reference::Relaxations;
use crate::reference::ast as r;
use crate::reference::parser::SyntaxError;
use mc_core::*;
use serde::Serialize;
use serde_json::Value as J;
use std::collections::{BTreeMap, BTreeSet, HashSet};
use std::sync::Mutex;

// ---------------------------------------------------------------------------------------------
// tree comparison
// ---------------------------------------------------------------------------------------------

pub struct Difference {
    /// path of field names to the first difference, list indices dropped (`definitions.Operation.selection_set.Field.arguments.value`)
    pub path: String,
    pub reference: String,
    pub implementation: String,
}

fn short(j: &J) -> String {
    let s = j.to_string();
    if s.chars().count() > 400 && !j.is_string() { format!("{}...", s.chars().take(400).collect::<String>()) } else { s }
}

fn diff_json(a: &J, b: &J, path: &mut Vec<String>) -> Option<Difference> {
    match (a, b) {
        (J::Object(x), J::Object(y)) => {
            let keys: BTreeSet<&String> = x.keys().chain(y.keys()).collect();
            for k in keys {
                match (x.get(k), y.get(k)) {
                    (Some(p), Some(q)) => {
                        path.push(k.clone());
                        if let Some(d) = diff_json(p, q, path) {
                            return Some(d);
                        }
                        path.pop();
                    }
                    // different enum variants: serde renders `{"Variant": ...}`
                    _ => return Some(Difference { path: simplify_path(path), reference: short(a), implementation: short(b) }),
                }
            }
            None
        }
        (J::Array(x), J::Array(y)) => {
            if x.len() != y.len() {
                return Some(Difference { path: format!("{}.<length>", simplify_path(path)), reference: short(a), implementation: short(b) });
            }
            for (p, q) in x.iter().zip(y) {
                if let Some(d) = diff_json(p, q, path) {
                    return Some(d);
                }
            }
            None
        }
        _ => {
            if a == b {
                None
            } else {
                Some(Difference { path: simplify_path(path), reference: short(a), implementation: short(b) })
            }
        }
    }
}

/// `definitions.kind.Object.fields.ty` -> `fields.ty`: the class of a difference should not depend
/// on the kind of definition it was met in.
fn simplify_path(path: &[String]) -> String {
    let mut out: Vec<&str> = vec![];
    let mut skip_next = false;
    for seg in path {
        if skip_next {
            skip_next = false;
            continue;
        }
        match seg.as_str() {
            "definitions" => {}
            "kind" => skip_next = true,
            s => out.push(s),
        }
    }
    if out.is_empty() { "definition-kind".to_string() } else { out.join(".") }
}

/// `None` when the two trees are equal.
pub fn difference<T: Serialize + PartialEq>(reference: &T, implementation: &T) -> Option<Difference> {
    if reference == implementation {
        return None;
    }
    let a = serde_json::to_value(reference).expect("plain AST serialises");
    let b = serde_json::to_value(implementation).expect("plain AST serialises");
    difference_json(&a, &b)
}

pub fn difference_json(a: &J, b: &J) -> Option<Difference> {
    if a == b {
        return None;
    }
    diff_json(a, b, &mut vec![]).or_else(|| Some(Difference { path: "<unlocated>".into(), reference: short(a), implementation: short(b) }))
}

/// Removes every `"block"` key (whether a string was written as a block string is a matter of
/// spelling, not of value; the printer is free to change it).
pub fn without_block_flags(j: &mut J) {
    match j {
        J::Object(m) => {
            m.remove("block");
            m.values_mut().for_each(without_block_flags);
        }
        J::Array(v) => v.iter_mut().for_each(without_block_flags),
        _ => {}
    }
}

/// Narrow class of a tree difference. String values get a finer name because the block-string
/// algorithm has several independent ways to go wrong.
pub fn tree_signature(prefix: &str, d: &Difference) -> String {
    let leaf = d.path.rsplit('.').next().unwrap_or("");
    if leaf == "value" && (d.path.contains("String") || d.path.contains("description") || d.path.contains("second_string")) {
        let cook = |s: &str| serde_json::from_str::<String>(s).unwrap_or_default();
        let (rv, iv) = (cook(&d.reference), cook(&d.implementation));
        let class = if iv.replace("\\\"\"\"", "\"\"\"") == rv {
            "block-string-escaped-triple-quote-kept"
        } else if iv.contains('\r') && !rv.contains('\r') {
            "block-string-lone-cr-not-a-line-terminator"
        } else if crate::reference::lexer::cook_quoted(&iv).as_deref() == Some(rv.as_str()) {
            if d.path.contains("description") { "quoted-description-escapes-not-processed" } else { "quoted-string-value-escapes-not-processed" }
        } else {
            "string-value"
        };
        return format!("{prefix}:{class}");
    }
    format!("{prefix}:{}", d.path)
}

// ---------------------------------------------------------------------------------------------
// naming "the implementation accepts what the reference rejects"
// ---------------------------------------------------------------------------------------------

/// Finds the named relaxations under which the reference accepts `text`.
/// Returns `None` when even the fully relaxed grammar rejects it.
pub fn explaining_relaxations(accepts_under: &dyn Fn(&Relaxations) -> bool) -> Option<Relaxations> {
    for (_, rx) in Relaxations::singles() {
        if accepts_under(&rx) {
            return Some(rx);
        }
    }
    let mut set = Relaxations::all();
    if !accepts_under(&set) {
        return None;
    }
    // greedy minimisation: drop every relaxation that is not needed
    for (_, rx) in Relaxations::singles() {
        let smaller = set.minus(rx);
        if accepts_under(&smaller) {
            set = smaller;
        }
    }
    Some(set)
}

pub fn unclassified_accept_signature(e: &SyntaxError) -> String {
    format!("accepts:unclassified:{}:{}", e.production, e.found)
}

/// Digits masked (panic messages).
pub fn mask_digits(m: &str) -> String {
    let mut out = String::new();
    for c in m.chars() {
        if c.is_ascii_digit() {
            if !out.ends_with('N') {
                out.push('N');
            }
        } else {
            out.push(if c == '\n' { ' ' } else { c });
        }
    }
    out.chars().take(100).collect::<String>().trim().to_string()
}

/// Digits and quoted fragments masked, so that a message class does not depend on the input.
pub fn normalise_message(m: &str) -> String {
    let mut out = String::new();
    let mut in_tick = false;
    for c in m.chars() {
        if c == '`' || c == '"' {
            in_tick = !in_tick;
            out.push(c);
            continue;
        }
        if in_tick {
            continue;
        }
        if c.is_ascii_digit() {
            if !out.ends_with('N') {
                out.push('N');
            }
            continue;
        }
        out.push(if c == '\n' { ' ' } else { c });
    }
    out.chars().take(100).collect::<String>().trim().to_string()
}

/// Does the text contain an IntValue token outside the i64 range?
pub fn has_int_outside_i64(text: &str) -> bool {
    use crate::reference::lexer::TokenKind;
    crate::reference::parser::tokens_of(text).is_some_and(|ts| ts.iter().any(|t| t.kind == TokenKind::Int && t.text.parse::<i64>().is_err()))
}

// ---------------------------------------------------------------------------------------------
// value canonicalisation shared by the projections
// ---------------------------------------------------------------------------------------------

/// IntValue has exactly one non-canonical spelling: `-0`.
pub fn canonical_int(text: &str) -> String {
    if text == "-0" { "0".to_string() } else { text.to_string() }
}

pub fn map_values_in_executable(doc: &mut r::ExecutableDocument, f: &dyn Fn(&mut r::Value)) {
    fn dirs(ds: &mut [r::Directive], f: &dyn Fn(&mut r::Value)) {
        for d in ds {
            for a in &mut d.arguments {
                walk(&mut a.value, f);
            }
        }
    }
    fn sels(ss: &mut [r::Selection], f: &dyn Fn(&mut r::Value)) {
        for s in ss {
            match s {
                r::Selection::Field { arguments, directives, selection_set, .. } => {
                    for a in arguments {
                        walk(&mut a.value, f);
                    }
                    dirs(directives, f);
                    if let Some(s) = selection_set {
                        sels(s, f);
                    }
                }
                r::Selection::FragmentSpread { directives, .. } => dirs(directives, f),
                r::Selection::InlineFragment { directives, selection_set, .. } => {
                    dirs(directives, f);
                    sels(selection_set, f);
                }
            }
        }
    }
    for d in &mut doc.definitions {
        match d {
            r::ExecutableDefinition::Operation { variable_definitions, directives, selection_set, .. } => {
                for v in variable_definitions {
                    if let Some(d) = &mut v.default_value {
                        walk(d, f);
                    }
                    dirs(&mut v.directives, f);
                }
                dirs(directives, f);
                sels(selection_set, f);
            }
            r::ExecutableDefinition::Fragment { directives, selection_set, .. } => {
                dirs(directives, f);
                sels(selection_set, f);
            }
        }
    }
}

pub fn map_values_in_type_system(doc: &mut r::TypeSystemDocument, f: &dyn Fn(&mut r::Value)) {
    fn dirs(ds: &mut [r::Directive], f: &dyn Fn(&mut r::Value)) {
        for d in ds {
            for a in &mut d.arguments {
                walk(&mut a.value, f);
            }
        }
    }
    fn ivs(vs: &mut [r::InputValueDefinition], f: &dyn Fn(&mut r::Value)) {
        for v in vs {
            if let Some(d) = &mut v.default_value {
                walk(d, f);
            }
            dirs(&mut v.directives, f);
        }
    }
    fn fields(fs: &mut [r::FieldDefinition], f: &dyn Fn(&mut r::Value)) {
        for x in fs {
            ivs(&mut x.arguments, f);
            dirs(&mut x.directives, f);
        }
    }
    for d in &mut doc.definitions {
        match &mut d.kind {
            r::DefinitionKind::Schema { directives, .. } | r::DefinitionKind::Scalar { directives, .. } | r::DefinitionKind::Union { directives, .. } => dirs(directives, f),
            r::DefinitionKind::Object { directives, fields: fs, .. } | r::DefinitionKind::Interface { directives, fields: fs, .. } => {
                dirs(directives, f);
                fields(fs, f);
            }
            r::DefinitionKind::Enum { directives, values, .. } => {
                dirs(directives, f);
                for v in values {
                    dirs(&mut v.directives, f);
                }
            }
            r::DefinitionKind::InputObject { directives, fields: fs, .. } => {
                dirs(directives, f);
                ivs(fs, f);
            }
            r::DefinitionKind::Directive { arguments, .. } => ivs(arguments, f),
        }
    }
}

fn walk(v: &mut r::Value, f: &dyn Fn(&mut r::Value)) {
    match v {
        r::Value::List(items) => items.iter_mut().for_each(|i| walk(i, f)),
        r::Value::Object(fields) => fields.iter_mut().for_each(|(_, i)| walk(i, f)),
        _ => {}
    }
    f(v);
}

// ---------------------------------------------------------------------------------------------
// driver
// ---------------------------------------------------------------------------------------------

/// What one text contributed.
#[derive(Default)]
pub struct TextOutcome {
    pub reference_accepts: bool,
    pub implementation_accepts: bool,
    /// rejected by the reference at token index >= 2 (for the non-triviality count)
    pub rejected_late: bool,
    /// hash of the reference tree when accepted (for `outcomes`)
    pub tree_hash: Option<u64>,
    /// additional oracle steps that ran (print round trips)
    pub extra_checks: u64,
    /// (signature, what, rank): rank 0 = the text shows this deviation alone, 1 = together with
    /// others (a rank-0 witness is preferred over a shorter rank-1 one)
    pub violations: Vec<(String, String, u8)>,
}

pub fn hash64(s: &str) -> u64 {
    let mut h: u64 = 0xcbf29ce484222325;
    for b in s.bytes() {
        h ^= b as u64;
        h = h.wrapping_mul(0x100000001b3);
    }
    h
}

/// Which witness to show for a signature: alone before combined, short before long, plain spaces
/// before control characters.
fn witness_key(rank: u8, text: &str) -> (u8, usize, usize, &str) {
    (rank, text.len(), text.chars().filter(|c| c.is_control()).count(), text)
}

#[derive(Default, Clone)]
pub struct Totals {
    pub evaluations: u64,
    pub reference_accepted: u64,
    pub implementation_accepted: u64,
    pub both_accepted: u64,
    pub nontrivial: u64,
    pub extra_checks: u64,
    pub violating_texts: u64,
    /// signature -> (count, best witness text, its description, its rank)
    pub by_signature: BTreeMap<String, (u64, String, String, u8)>,
    pub tree_hashes: HashSet<u64>,
}

impl Totals {
    pub fn merge(&mut self, o: Totals) {
        self.evaluations += o.evaluations;
        self.reference_accepted += o.reference_accepted;
        self.implementation_accepted += o.implementation_accepted;
        self.both_accepted += o.both_accepted;
        self.nontrivial += o.nontrivial;
        self.extra_checks += o.extra_checks;
        self.violating_texts += o.violating_texts;
        for (sig, (n, text, what, rank)) in o.by_signature {
            let e = self.by_signature.entry(sig).or_insert((0, text.clone(), what.clone(), rank));
            e.0 += n;
            if witness_key(rank, &text) < witness_key(e.3, &e.1) {
                e.1 = text;
                e.2 = what;
                e.3 = rank;
            }
        }
        self.tree_hashes.extend(o.tree_hashes);
    }
    pub fn record(&mut self, text: &str, o: TextOutcome) {
        self.evaluations += 1;
        self.reference_accepted += o.reference_accepts as u64;
        self.implementation_accepted += o.implementation_accepts as u64;
        self.both_accepted += (o.reference_accepts && o.implementation_accepts) as u64;
        self.nontrivial += (o.reference_accepts || o.implementation_accepts || o.rejected_late) as u64;
        self.extra_checks += o.extra_checks;
        if let Some(h) = o.tree_hash {
            self.tree_hashes.insert(h);
        }
        if !o.violations.is_empty() {
            self.violating_texts += 1;
        }
        for (sig, what, rank) in o.violations {
            let e = self.by_signature.entry(sig).or_insert((0, text.to_string(), what.clone(), rank));
            e.0 += 1;
            if witness_key(rank, text) < witness_key(e.3, &e.1) {
                e.1 = text.to_string();
                e.2 = what;
                e.3 = rank;
            }
        }
    }
}

/// Sharded set of text hashes: a text is executed once however many families produce it.
pub struct Seen(Vec<Mutex<HashSet<u64>>>);
impl Seen {
    pub fn new() -> Self {
        Seen((0..256).map(|_| Mutex::new(HashSet::new())).collect())
    }
    /// true if the text is new
    pub fn insert(&self, text: &str) -> bool {
        let h = hash64(text);
        self.0[(h >> 56) as usize].lock().unwrap().insert(h)
    }
}

pub enum Item {
    /// a sentence: families (a), (c) and, if the flag is set, (d)
    Sentence(Sentence, bool),
    /// a token-level prefix: family (b)
    Prefix(Sentence),
}

pub struct InputPlan {
    pub items: Vec<Item>,
    pub strict_sentences: Vec<Sentence>,
    pub n_relaxed_only_sentences: usize,
    pub n_prefixes: usize,
    pub budget: usize,
    pub edit_budget: usize,
}

#[derive(Clone, Copy, PartialEq, Eq)]
pub enum DocKind {
    Executable,
    TypeSystem,
}

/// Sentences of the strict grammar and of the relaxed grammar up to `budget` tokens; single-token
/// edits (family d) for the sentences of at most `edit_budget` tokens.
pub fn plan(kind: DocKind, budget: usize, edit_budget: usize, relaxed_budget: usize, rich: bool) -> InputPlan {
    let enumerate_at = |relax: Relaxations, budget: usize| -> Vec<Sentence> {
        let mut g = Gen::new(relax, rich);
        match kind {
            DocKind::Executable => g.executable_documents(budget),
            DocKind::TypeSystem => g.type_system_documents(budget),
        }
    };
    let strict = enumerate_at(Relaxations::none(), budget);
    let enumerate = |relax: Relaxations| -> Vec<Sentence> {
        // the relaxed productions add tokens; sentences of the strict grammar beyond `budget` are not wanted here
        let strict_big: BTreeSet<Sentence> = if relaxed_budget > budget { enumerate_at(Relaxations::none(), relaxed_budget).into_iter().collect() } else { BTreeSet::new() };
        enumerate_at(relax, relaxed_budget).into_iter().filter(|s| !strict_big.contains(s)).collect()
    };
    let strict_set: BTreeSet<&Sentence> = strict.iter().collect();
    // one relaxation at a time (all at once would square the count without adding shapes)
    let mut relaxed: BTreeSet<Sentence> = BTreeSet::new();
    for (_, rx) in Relaxations::singles() {
        for s in enumerate(rx) {
            if !strict_set.contains(&s) {
                relaxed.insert(s);
            }
        }
    }
    // one fixed witness per relaxation whose smallest sentence lies beyond the quick budgets
    match kind {
        DocKind::Executable => {
            relaxed.insert("query ( $ v : T @ d ) { a }".split(' ').collect());
            relaxed.insert("query ( $ v : T = 1 @ d ( k : 1 ) ) { a }".split(' ').collect());
            relaxed.insert("query ( $ v : T @ d ( k : $ v ) ) { a }".split(' ').collect());
        }
        DocKind::TypeSystem => {
            relaxed.insert("type T { \"d\" \"e\" a : T }".split(' ').collect());
            relaxed.insert("\"d\" extend type T @ d".split(' ').collect());
        }
    }
    // deep constant and variable values (lists in lists, objects in lists in objects): their smallest
    // sentences lie beyond the token budgets; they are sentences of the June 2018 grammar and get every
    // family including the single-token edits
    let deep: Vec<Sentence> = match kind {
        DocKind::Executable => vec![
            "query ( $ v : [ [ T ] ] = [ [ 1 ] , [ ] ] ) { a ( k : [ [ 1 ] , { a : [ $ v ] } ] ) }",
            "{ a ( k : { a : { b : [ { c : 1 } ] } } ) }",
            "{ a @ d ( k : [ [ \"s\" ] , [ true , null ] ] ) }",
        ],
        DocKind::TypeSystem => vec![
            "scalar T @ d ( k : [ [ 1 ] , [ ] , [ { a : [ 2 ] } ] ] )",
            "input T { a : [ [ T ] ] = [ [ 1 , 2 ] , [ 3 ] ] }",
            "type T { a ( b : [ T ] = [ { k : [ 1 ] } ] ) : T }",
            "directive @ d ( a : [ [ T ! ] ! ] ! = [ [ E ] ] ) on QUERY",
        ],
    }
    .into_iter()
    .map(|t| t.split(' ').collect())
    .collect();
    let mut prefixes: BTreeSet<Sentence> = BTreeSet::new();
    for s in strict.iter() {
        for i in 0..=s.len() {
            prefixes.insert(s[..i].to_vec());
        }
    }
    let mut items: Vec<Item> = vec![];
    // single-token edits only around the sentences of the June 2018 grammar; the relaxed sentences
    // are extra inputs and get families (a) - (c)
    for s in strict.iter() {
        items.push(Item::Sentence(s.clone(), s.len() <= edit_budget));
    }
    for s in relaxed.iter() {
        items.push(Item::Sentence(s.clone(), false));
    }
    for s in deep.iter() {
        items.push(Item::Sentence(s.clone(), true));
    }
    let n_prefixes = prefixes.len();
    for p in prefixes {
        items.push(Item::Prefix(p));
    }
    // interleave cheap and expensive items so that the static chunking of par_map balances
    let n = items.len();
    let mut order: Vec<usize> = (0..n).collect();
    order.sort_by_key(|i| (i * 7919) % n.max(1));
    let mut slots: Vec<Option<Item>> = items.into_iter().map(Some).collect();
    let items = order.into_iter().map(|i| slots[i].take().unwrap()).collect();
    InputPlan { items, n_relaxed_only_sentences: relaxed.len(), strict_sentences: strict, n_prefixes, budget, edit_budget }
}

/// Runs `check` on every distinct text of the plan, in parallel. `check` returns one outcome per
/// *lane* (C30 judges two entry points on each text); the result has one `Totals` per lane.
pub fn run_plan(plan: &InputPlan, jobs: usize, seen: &Seen, lanes: usize, check: &(dyn Fn(&str) -> Vec<TextOutcome> + Sync)) -> Vec<Totals> {
    let alphabet = mutate::alphabet();
    let parts = crate::par::par_map(&plan.items, jobs, |item| {
        let mut t: Vec<Totals> = (0..lanes).map(|_| Totals::default()).collect();
        let mut emit = |text: String| {
            if seen.insert(&text) {
                for (lane, o) in check(&text).into_iter().enumerate() {
                    t[lane].record(&text, o);
                }
            }
        };
        match item {
            Item::Sentence(s, edits) => mutate::sentence_texts(s, &alphabet, *edits, &mut emit),
            Item::Prefix(p) => mutate::prefix_texts(p, &alphabet, &mut emit),
        }
        t
    });
    let mut total: Vec<Totals> = (0..lanes).map(|_| Totals::default()).collect();
    for p in parts {
        for (lane, t) in p.into_iter().enumerate() {
            total[lane].merge(t);
        }
    }
    total
}

/// Turns the aggregated signatures into a verdict (shortest witness per signature).
pub fn verdict_from(property: &str, totals: &[(&str, &Totals)], case_of: &dyn Fn(&str, &str) -> serde_json::Value) -> Verdict {
    let mut verdict = Verdict::new(property);
    let mut all: Vec<(String, String, String, &str, u8)> = vec![];
    for (label, t) in totals {
        for (sig, (_, text, what, rank)) in &t.by_signature {
            all.push((sig.clone(), text.clone(), what.clone(), label, *rank));
        }
    }
    all.sort_by_key(|(sig, text, _, _, rank)| (*rank, text.len(), text.chars().filter(|c| c.is_control()).count(), sig.clone()));
    for (sig, text, what, label, _) in all {
        verdict.add(Violation { signature: sig, what: format!("{what} — input ({label}): {text:?}"), case: case_of(label, &text) });
    }
    verdict
}

pub fn signature_counts(totals: &[(&str, &Totals)]) -> serde_json::Value {
    let mut m = serde_json::Map::new();
    for (_, t) in totals {
        for (sig, (n, text, _, rank)) in &t.by_signature {
            let e = m.entry(sig.clone()).or_insert(serde_json::json!({"texts": 0, "witness": text, "rank": rank}));
            e["texts"] = serde_json::json!(e["texts"].as_u64().unwrap_or(0) + n);
            let better = witness_key(*rank, text) < witness_key(e["rank"].as_u64().unwrap_or(9) as u8, e["witness"].as_str().unwrap_or(""));
            if better {
                e["witness"] = serde_json::json!(text);
                e["rank"] = serde_json::json!(rank);
            }
        }
    }
    serde_json::Value::Object(m)
}

//! From sentences to texts: the token alphabet, and the text families derived from each sentence
//! and each token-level prefix.
//!
//!  (a) the sentence itself, tokens separated by one space;
//!  (b) every prefix of a sentence, alone and extended by each alphabet token;
//!  (c) lexical variants: each single gap of a sentence replaced by each alternative separator
//!      (comma, line terminators, tab, BOM, a comment, nothing where the two tokens cannot merge);
//!  (d) single-token edits of a sentence: each token replaced by each alphabet token, each
//!      alphabet token inserted at each position, each token deleted. This is what brings the rich
//!      terminals (keyword-like names, every number / string / block-string form) to every
//!      position of every shape while the sentence enumerator stays small.

/// The token alphabet. Every entry is one lexical unit (valid or deliberately invalid).
pub fn alphabet() -> Vec<&'static str> {
    vec![
        // punctuators, and the non-punctuators that look like them
        "!", "$", "(", ")", "...", ":", "=", "@", "[", "]", "{", "|", "}", "&", ".", "..",
        // names, including every keyword-like name
        "a", "T", "_", "on", "query", "mutation", "subscription", "fragment", "true", "false", "null", "type", "schema", "scalar", "interface", "union", "enum", "input", "directive", "extend", "implements",
        "repeatable", "QUERY", "SCHEMA", "VARIABLE_DEFINITION",
        // numbers: valid ...
        "0", "1", "-1", "-0", "1.5", "1e3", "-1.5E-3", "1e+3", "9223372036854775807", "9223372036854775808", "-9223372036854775809", "99999999999999999999", "1e999",
        // ... and invalid
        "01", "-01", "00", "1.", "1e", "1.5e", "-", "+1", "1a", "1_", "0x1", ".5", "1.5.5", "1..",
        // strings: every escape form
        "\"s\"", "\"\"", "\"é\"", "\"a b\"", "\"\\\"\"", "\"\\\\\"", "\"\\/\"", "\"\\b\\f\\n\\r\\t\"", "\"\\u00e9\"", "\"\\u00E9\"", "\"a\\u0041b\"", "\"\t\"", "\"#\"", "\"a,b\"",
        // ... and invalid strings
        "\"u", "\"\\q\"", "\"\\u12\"", "\"\\u12G4\"", "\"\\x41\"", "\"a\nb\"", "\"\\",
        // block strings: plain, empty, quotes inside, escaped triple quote
        "\"\"\"b\"\"\"", "\"\"\"\"\"\"", "\"\"\"a\"b\"\"c\"\"\"", "\"\"\"a\\\"\"\"b\"\"\"", "\"\"\"\\q \\\\ \\u00e9\"\"\"", "\"\"\"é\"\"\"",
        // block strings: indentation cases
        "\"\"\"\n  a\n  b\n\"\"\"",             // common indent 2
        "\"\"\"\n  a\n    b\n  c\n\"\"\"",      // deeper line keeps the extra indent
        "\"\"\"  a\n    b\n  c\"\"\"",          // first line is not part of the common indent and keeps its own
        "\"\"\"\n\n  a\n\n  b\n\n\"\"\"",       // leading, inner and trailing blank lines
        "\"\"\"\n \t\n  a\n \n\"\"\"",          // whitespace-only lines (shorter than the common indent)
        "\"\"\"\n\ta\n  b\n\"\"\"",             // tab vs spaces: one tab and two spaces, common indent 1
        "\"\"\"\n\t\ta\n\t\tb\n\"\"\"",         // tabs only
        "\"\"\"\n    a\n  \n      b\n\"\"\"",   // a line shorter than the common indent
        "\"\"\"a\r  b\r  c\"\"\"",              // lone CR is a LineTerminator
        "\"\"\"a\r\n  b\r\n  c\"\"\"",          // CR LF
        "\"\"\"\n  a\n\"\"\"",                  // single indented line
        "\"\"\" \n \"\"\"",                     // only whitespace
        "\"\"\"a\n\"\"\"",                      // trailing newline
        "\"\"\"\n  a \n  b\t\n\"\"\"",          // trailing whitespace inside lines is kept
        // ... and unterminated
        "\"\"\"u", "\"\"\"u\"\"", "\"\"\"u\\\"\"\"",
        // ignored tokens
        ",", "#c\n", "#\n", "\u{feff}", "\t", "\n", "\r", "\r\n",
        // characters that start no token
        "é", "\u{000C}", "\u{000B}", "%", "\\", "'", "?", "*", "~", "<", "\u{2028}",
    ]
}

fn is_punctuator(t: &str) -> bool {
    matches!(t, "!" | "$" | "(" | ")" | "..." | ":" | "=" | "@" | "[" | "]" | "{" | "|" | "}" | "&")
}

/// May the separator between `left` and `right` be dropped without changing the token sequence?
/// (The specification makes white space insignificant exactly where tokens cannot merge.)
fn may_touch(left: &str, right: &str) -> bool {
    if !(is_punctuator(left) || is_punctuator(right)) {
        return false;
    }
    // a number must not be followed by '.', and '.'-runs would merge
    if right.starts_with('.') && (left.ends_with('.') || left.chars().last().is_some_and(|c| c.is_ascii_alphanumeric())) {
        return false;
    }
    // a string token next to a quote would merge into a different string token
    if left.ends_with('"') && right.starts_with('"') {
        return false;
    }
    true
}

pub fn render(s: &[&str]) -> String {
    s.join(" ")
}

/// Calls `emit` with every text of families (a), (c), (d) for one sentence.
pub fn sentence_texts(s: &[&'static str], alphabet: &[&'static str], with_edits: bool, emit: &mut dyn FnMut(String)) {
    // (a)
    emit(render(s));
    // (c) one gap at a time
    for gap in 1..s.len() {
        let left = render(&s[..gap]);
        let right = render(&s[gap..]);
        for sep in [",", "\n", "\r", "\r\n", "\t", "  ", " , ", ",,", "\u{feff}", " #c\n", "#c\r"] {
            emit(format!("{left}{sep}{right}"));
        }
        if may_touch(s[gap - 1], s[gap]) {
            emit(format!("{left}{right}"));
        }
    }
    // every gap at once: all commas, all newlines, and as tight as the tokens allow
    if s.len() > 1 {
        emit(s.join(","));
        emit(s.join("\n"));
        let mut tight = String::new();
        for (i, t) in s.iter().enumerate() {
            if i > 0 && !may_touch(s[i - 1], t) {
                tight.push(' ');
            }
            tight.push_str(t);
        }
        emit(tight);
        // leading and trailing ignored tokens
        emit(format!("\u{feff}{}", render(s)));
        emit(format!(",{}\n", render(s)));
        emit(format!("#c\n{} #c", render(s)));
    }
    if !with_edits {
        return;
    }
    // (d) single-token edits
    let mut buf: Vec<&str> = Vec::with_capacity(s.len() + 1);
    for pos in 0..s.len() {
        // delete
        buf.clear();
        buf.extend_from_slice(&s[..pos]);
        buf.extend_from_slice(&s[pos + 1..]);
        emit(render(&buf));
        // replace
        for a in alphabet {
            if *a == s[pos] {
                continue;
            }
            buf.clear();
            buf.extend_from_slice(&s[..pos]);
            buf.push(a);
            buf.extend_from_slice(&s[pos + 1..]);
            emit(render(&buf));
        }
    }
    for pos in 0..=s.len() {
        for a in alphabet {
            buf.clear();
            buf.extend_from_slice(&s[..pos]);
            buf.push(a);
            buf.extend_from_slice(&s[pos..]);
            emit(render(&buf));
        }
    }
}

/// Calls `emit` with every text of family (b) for one prefix.
pub fn prefix_texts(p: &[&'static str], alphabet: &[&'static str], emit: &mut dyn FnMut(String)) {
    let base = render(p);
    for a in alphabet {
        if base.is_empty() { emit(a.to_string()) } else { emit(format!("{base} {a}")) }
    }
    emit(base);
}

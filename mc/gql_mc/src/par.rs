//! Tiny data-parallel helper: map over a slice on all cores, preserving order.
pub fn par_map<T: Sync, R: Send>(items: &[T], jobs: usize, f: impl Fn(&T) -> R + Sync) -> Vec<R> {
    let jobs = jobs.max(1);
    let chunk = items.len().div_ceil(jobs).max(1);
    let mut out: Vec<Vec<R>> = Vec::new();
    std::thread::scope(|s| {
        let hs: Vec<_> = items.chunks(chunk).map(|c| { let f = &f; s.spawn(move || c.iter().map(f).collect::<Vec<R>>()) }).collect();
        for h in hs {
            out.push(h.join().expect("worker thread panicked outside catch_unwind"));
        }
    });
    out.into_iter().flatten().collect()
}

//! Reference lexer: GraphQL June 2018, section 2.1 "Source Text" and appendix B.1-B.3.
//!
//! Spec-ordered and deliberately plain. Every production is quoted above the code that
//! implements it.
//!
//! Two decisions that the June 2018 text leaves to the reader are fixed here, both as stated in
//! the brief for this check:
//!  * `&` is a Punctuator (the June 2018 grammar uses it in ImplementsInterfaces; the Punctuator
//!    list itself gained it in an erratum).
//!  * A numeric token must not be followed by a Digit, `.`, a letter or `_` (the lookahead
//!    restriction the later editions spell out; graphql-js enforced the digit part in 2018).

use super::Relaxations;

#[derive(Debug, Clone, PartialEq, Eq)]
pub enum TokenKind {
    /// `! $ ( ) ... : = @ [ ] { | } &` — the text is in `Token::text`
    Punctuator,
    Name,
    Int,
    Float,
    /// `"..."`; `Token::string_value` holds the value after escape processing
    String,
    /// `"""..."""`; `Token::string_value` holds `BlockStringValue(rawValue)`
    BlockString,
    /// end of input (always the last token)
    Eof,
}

#[derive(Debug, Clone, PartialEq, Eq)]
pub struct Token {
    pub kind: TokenKind,
    /// the source text of the token
    pub text: String,
    /// for String / BlockString: the semantic value (section 2.9.4)
    pub string_value: Option<String>,
    /// byte offset in the source
    pub start: usize,
}

#[derive(Debug, Clone, PartialEq, Eq)]
pub struct LexError {
    pub at: usize,
    /// short class of the problem, e.g. "unterminated string"
    pub what: &'static str,
    /// number of complete tokens before the error
    pub tokens_before: usize,
}

/// SourceCharacter :: /[\u0009\u000A\u000D\u0020-\uFFFF]/
pub fn is_source_character(c: char) -> bool {
    matches!(c, '\u{0009}' | '\u{000A}' | '\u{000D}') || ('\u{0020}'..='\u{FFFF}').contains(&c)
}

/// WhiteSpace :: Horizontal Tab (U+0009) | Space (U+0020)
pub fn is_white_space(c: char) -> bool {
    c == '\u{0009}' || c == '\u{0020}'
}

fn is_name_start(c: char) -> bool {
    c == '_' || c.is_ascii_alphabetic()
}
fn is_name_continue(c: char) -> bool {
    c == '_' || c.is_ascii_alphanumeric()
}

pub fn lex(source: &str, relax: &Relaxations) -> Result<Vec<Token>, LexError> {
    let chars: Vec<(usize, char)> = source.char_indices().collect();
    let n = chars.len();
    let at = |i: usize| -> Option<char> { chars.get(i).map(|p| p.1) };
    let byte = |i: usize| -> usize { chars.get(i).map(|p| p.0).unwrap_or(source.len()) };
    let mut tokens: Vec<Token> = vec![];
    let mut i = 0usize;
    macro_rules! fail {
        ($i:expr, $what:expr) => {
            return Err(LexError { at: byte($i), what: $what, tokens_before: tokens.len() })
        };
    }
    while i < n {
        let c = chars[i].1;

        // Ignored :: UnicodeBOM | WhiteSpace | LineTerminator | Comment | Comma
        // UnicodeBOM :: Byte Order Mark (U+FEFF)
        // LineTerminator :: New Line (U+000A) | Carriage Return (U+000D) [lookahead != LF] | CR LF
        // Comma :: ,
        if c == '\u{FEFF}' || is_white_space(c) || c == '\n' || c == '\r' || c == ',' {
            i += 1;
            continue;
        }
        // NOT in June 2018 (form feed is not even a SourceCharacter): named deviation only.
        if relax.form_feed_ignored && c == '\u{000C}' {
            i += 1;
            continue;
        }
        // Comment :: # CommentChar*        CommentChar :: SourceCharacter but not LineTerminator
        if c == '#' {
            i += 1;
            while let Some(d) = at(i) {
                if d == '\n' || d == '\r' {
                    break;
                }
                if !is_source_character(d) {
                    fail!(i, "character outside SourceCharacter in comment");
                }
                i += 1;
            }
            continue;
        }

        let start = i;

        // Punctuator :: one of ! $ ( ) ... : = @ [ ] { | }   (and & — see module comment)
        if matches!(c, '!' | '$' | '(' | ')' | ':' | '=' | '@' | '[' | ']' | '{' | '|' | '}' | '&') {
            tokens.push(Token { kind: TokenKind::Punctuator, text: c.to_string(), string_value: None, start: byte(start) });
            i += 1;
            continue;
        }
        if c == '.' {
            if at(i + 1) == Some('.') && at(i + 2) == Some('.') {
                tokens.push(Token { kind: TokenKind::Punctuator, text: "...".to_string(), string_value: None, start: byte(start) });
                i += 3;
                continue;
            }
            fail!(i, "'.' that is not part of '...'");
        }

        // Name :: /[_A-Za-z][_0-9A-Za-z]*/
        if is_name_start(c) {
            while at(i).is_some_and(is_name_continue) {
                i += 1;
            }
            let text: String = chars[start..i].iter().map(|p| p.1).collect();
            tokens.push(Token { kind: TokenKind::Name, text, string_value: None, start: byte(start) });
            continue;
        }

        // IntValue :: IntegerPart
        // IntegerPart :: NegativeSign? 0 | NegativeSign? NonZeroDigit Digit*
        // FloatValue :: IntegerPart FractionalPart | IntegerPart ExponentPart
        //             | IntegerPart FractionalPart ExponentPart
        // FractionalPart :: . Digit+
        // ExponentPart :: ExponentIndicator Sign? Digit+
        if c == '-' || c.is_ascii_digit() {
            if c == '-' {
                i += 1;
            }
            match at(i) {
                Some('0') => i += 1,
                Some(d) if d.is_ascii_digit() => {
                    while at(i).is_some_and(|d| d.is_ascii_digit()) {
                        i += 1;
                    }
                }
                _ => fail!(i, "'-' not followed by a digit"),
            }
            let mut is_float = false;
            // FractionalPart (only if a digit follows the '.'; otherwise the lookahead check below fails)
            if at(i) == Some('.') && at(i + 1).is_some_and(|d| d.is_ascii_digit()) {
                is_float = true;
                i += 1;
                while at(i).is_some_and(|d| d.is_ascii_digit()) {
                    i += 1;
                }
            }
            // ExponentPart (only if complete)
            if matches!(at(i), Some('e') | Some('E')) {
                let mut j = i + 1;
                if matches!(at(j), Some('+') | Some('-')) {
                    j += 1;
                }
                if at(j).is_some_and(|d| d.is_ascii_digit()) {
                    is_float = true;
                    while at(j).is_some_and(|d| d.is_ascii_digit()) {
                        j += 1;
                    }
                    i = j;
                }
            }
            // lookahead restriction: not followed by Digit, '.', NameStart
            if let Some(d) = at(i) {
                if d.is_ascii_digit() || d == '.' || is_name_start(d) {
                    fail!(i, "number followed by a digit, '.', a letter or '_'");
                }
            }
            let text: String = chars[start..i].iter().map(|p| p.1).collect();
            tokens.push(Token { kind: if is_float { TokenKind::Float } else { TokenKind::Int }, text, string_value: None, start: byte(start) });
            continue;
        }

        // StringValue :: """ BlockStringCharacter* """
        // BlockStringCharacter :: SourceCharacter but not """ or \""" | \"""
        if c == '"' && at(i + 1) == Some('"') && at(i + 2) == Some('"') {
            i += 3;
            let mut raw = String::new();
            loop {
                match at(i) {
                    None => fail!(start, "unterminated block string"),
                    Some('"') if at(i + 1) == Some('"') && at(i + 2) == Some('"') => {
                        i += 3;
                        break;
                    }
                    Some('\\') if at(i + 1) == Some('"') && at(i + 2) == Some('"') && at(i + 3) == Some('"') => {
                        // BlockStringCharacter :: \"""  — "Return the character sequence """."
                        raw.push_str("\"\"\"");
                        i += 4;
                    }
                    Some(d) => {
                        if !is_source_character(d) {
                            fail!(i, "character outside SourceCharacter in block string");
                        }
                        raw.push(d);
                        i += 1;
                    }
                }
            }
            let text: String = chars[start..i].iter().map(|p| p.1).collect();
            tokens.push(Token { kind: TokenKind::BlockString, text, string_value: Some(block_string_value(&raw)), start: byte(start) });
            continue;
        }

        // StringValue :: " StringCharacter* "
        // StringCharacter :: SourceCharacter but not " or \ or LineTerminator
        //                  | \u EscapedUnicode | \ EscapedCharacter
        // EscapedUnicode :: /[0-9A-Fa-f]{4}/        EscapedCharacter :: one of " \ / b f n r t
        if c == '"' {
            i += 1;
            let mut value = String::new();
            loop {
                match at(i) {
                    None => fail!(start, "unterminated string"),
                    Some('"') => {
                        i += 1;
                        break;
                    }
                    Some('\n') | Some('\r') => fail!(start, "unterminated string"),
                    Some('\\') => {
                        i += 1;
                        match at(i) {
                            Some('"') => value.push('"'),
                            Some('\\') => value.push('\\'),
                            Some('/') => value.push('/'),
                            Some('b') => value.push('\u{0008}'),
                            Some('f') => value.push('\u{000C}'),
                            Some('n') => value.push('\n'),
                            Some('r') => value.push('\r'),
                            Some('t') => value.push('\t'),
                            Some('u') => {
                                let mut code: u32 = 0;
                                for k in 1..=4 {
                                    match at(i + k).and_then(|h| h.to_digit(16)) {
                                        Some(h) => code = code * 16 + h,
                                        None => fail!(i - 1, "bad \\u escape"),
                                    }
                                }
                                // A lone surrogate code unit has no `char`; keep it visible.
                                value.push(char::from_u32(code).unwrap_or('\u{FFFD}'));
                                i += 4;
                            }
                            _ => fail!(i - 1, "bad escape sequence"),
                        }
                        i += 1;
                    }
                    Some(d) => {
                        if !is_source_character(d) {
                            fail!(i, "character outside SourceCharacter in string");
                        }
                        value.push(d);
                        i += 1;
                    }
                }
            }
            let text: String = chars[start..i].iter().map(|p| p.1).collect();
            tokens.push(Token { kind: TokenKind::String, text, string_value: Some(value), start: byte(start) });
            continue;
        }

        fail!(i, "character that starts no token");
    }
    tokens.push(Token { kind: TokenKind::Eof, text: String::new(), string_value: None, start: source.len() });
    Ok(tokens)
}

/// Escape processing of the *inside* of a `"..."` literal (used to normalise implementations that
/// keep quoted strings raw). `None` if the text is not a valid StringCharacter* sequence.
pub fn cook_quoted(raw_inside: &str) -> Option<String> {
    let text = format!("\"{raw_inside}\"");
    match lex(&text, &Relaxations::none()) {
        Ok(toks) if toks.len() == 2 && toks[0].kind == TokenKind::String => toks[0].string_value.clone(),
        _ => None,
    }
}

/// BlockStringValue(rawValue), section 2.9.4, transcribed step by step.
pub fn block_string_value(raw_value: &str) -> String {
    // 1. Let lines be the result of splitting rawValue by LineTerminator.
    let mut lines: Vec<String> = vec![];
    {
        let cs: Vec<char> = raw_value.chars().collect();
        let mut cur = String::new();
        let mut i = 0;
        while i < cs.len() {
            match cs[i] {
                '\n' => {
                    lines.push(std::mem::take(&mut cur));
                    i += 1;
                }
                '\r' => {
                    lines.push(std::mem::take(&mut cur));
                    i += if cs.get(i + 1) == Some(&'\n') { 2 } else { 1 };
                }
                c => {
                    cur.push(c);
                    i += 1;
                }
            }
        }
        lines.push(cur);
    }
    // 2. Let commonIndent be null.
    let mut common_indent: Option<usize> = None;
    // 3. For each line in lines:
    for (idx, line) in lines.iter().enumerate() {
        // a. If line is the first item in lines, continue to the next line.
        if idx == 0 {
            continue;
        }
        // b. Let length be the number of characters in line.
        let length = line.chars().count();
        // c. Let indent be the number of leading consecutive WhiteSpace characters in line.
        let indent = line.chars().take_while(|c| is_white_space(*c)).count();
        // d. If indent is less than length:
        if indent < length {
            // i. If commonIndent is null or indent is less than commonIndent: let commonIndent be indent.
            if common_indent.is_none_or(|ci| indent < ci) {
                common_indent = Some(indent);
            }
        }
    }
    // 4. If commonIndent is not null: for each line (but the first) remove commonIndent
    //    characters from the beginning of line.
    if let Some(ci) = common_indent {
        for (idx, line) in lines.iter_mut().enumerate() {
            if idx == 0 {
                continue;
            }
            *line = line.chars().skip(ci).collect();
        }
    }
    // 5. While the first item line in lines contains only WhiteSpace: remove the first item.
    while lines.first().is_some_and(|l| l.chars().all(is_white_space)) {
        lines.remove(0);
    }
    // 6. While the last item line in lines contains only WhiteSpace: remove the last item.
    while lines.last().is_some_and(|l| l.chars().all(is_white_space)) {
        lines.pop();
    }
    // 7.-9. Join with U+000A.
    lines.join("\n")
}

#[cfg(test)]
mod tests {
    use super::*;

    #[test]
    fn block_string_examples() {
        // the example of section 2.9.4
        let raw = "\n    Hello,\n      World!\n\n    Yours,\n      GraphQL.\n  ";
        assert_eq!(block_string_value(raw), "Hello,\n  World!\n\nYours,\n  GraphQL.");
        assert_eq!(block_string_value(""), "");
        assert_eq!(block_string_value("  a"), "  a");
        assert_eq!(block_string_value("a\r  b\r\n   c"), "a\nb\n c");
        assert_eq!(block_string_value("\n\ta\n  b"), "a\n b");
    }

    #[test]
    fn numbers() {
        let r = Relaxations::none();
        assert!(lex("01", &r).is_err());
        assert!(lex("1.", &r).is_err());
        assert!(lex("1e", &r).is_err());
        assert!(lex("1a", &r).is_err());
        assert!(lex("-", &r).is_err());
        assert!(lex(".5", &r).is_err());
        assert_eq!(lex("-0", &r).unwrap()[0].kind, TokenKind::Int);
        assert_eq!(lex("1.5e-3", &r).unwrap()[0].kind, TokenKind::Float);
        assert_eq!(lex("1E3", &r).unwrap()[0].kind, TokenKind::Float);
        assert_eq!(lex("1...", &r).is_err(), true);
    }
}

//! Plain syntax tree of the reference implementation (GraphQL, June 2018 edition).
//!
//! Only Strings, Vecs and enums: no spans, no interning. Every tree of the implementations under
//! test is *projected* into these types and compared with `==` (or through its JSON rendering when
//! a path to the first difference is wanted).

use serde::Serialize;

// ---------------------------------------------------------------------------------------------
// Values and types (spec section 2.9, 2.11)
// ---------------------------------------------------------------------------------------------

/// A string literal after the semantics of section 2.9.4 have been applied: escape sequences
/// processed for `"..."`, `BlockStringValue()` for `"""..."""`.
#[derive(Debug, Clone, PartialEq, Eq, Serialize)]
pub struct StringValue {
    pub value: String,
    /// written as a block string
    pub block: bool,
}

#[derive(Debug, Clone, PartialEq, Eq, Serialize)]
pub enum Value {
    Variable(String),
    /// source text of the IntValue token (the grammar puts no range on it); compared numerically
    Int(String),
    /// source text of the FloatValue token
    Float(String),
    String(StringValue),
    Boolean(bool),
    Null,
    Enum(String),
    List(Vec<Value>),
    Object(Vec<(String, Value)>),
}

#[derive(Debug, Clone, PartialEq, Eq, Serialize)]
pub enum Type {
    Named(String),
    List(Box<Type>),
    NonNull(Box<Type>),
}

#[derive(Debug, Clone, PartialEq, Eq, Serialize)]
pub struct Argument {
    pub name: String,
    pub value: Value,
}

#[derive(Debug, Clone, PartialEq, Eq, Serialize)]
pub struct Directive {
    pub name: String,
    pub arguments: Vec<Argument>,
}

// ---------------------------------------------------------------------------------------------
// Executable documents (spec section 2.2 - 2.8, 2.10)
// ---------------------------------------------------------------------------------------------

#[derive(Debug, Clone, Copy, PartialEq, Eq, Serialize)]
pub enum OperationType {
    Query,
    Mutation,
    Subscription,
}

#[derive(Debug, Clone, PartialEq, Eq, Serialize)]
pub struct VariableDefinition {
    pub name: String,
    pub ty: Type,
    pub default_value: Option<Value>,
    /// Always empty under the June 2018 grammar (directives on variable definitions are later).
    pub directives: Vec<Directive>,
}

#[derive(Debug, Clone, PartialEq, Eq, Serialize)]
pub enum Selection {
    Field { alias: Option<String>, name: String, arguments: Vec<Argument>, directives: Vec<Directive>, selection_set: Option<Vec<Selection>> },
    FragmentSpread { name: String, directives: Vec<Directive> },
    InlineFragment { type_condition: Option<String>, directives: Vec<Directive>, selection_set: Vec<Selection> },
}

#[derive(Debug, Clone, PartialEq, Eq, Serialize)]
pub enum ExecutableDefinition {
    Operation {
        /// the `{ ... }` query shorthand (no operation type keyword)
        shorthand: bool,
        operation: OperationType,
        name: Option<String>,
        variable_definitions: Vec<VariableDefinition>,
        directives: Vec<Directive>,
        selection_set: Vec<Selection>,
    },
    Fragment { name: String, type_condition: String, directives: Vec<Directive>, selection_set: Vec<Selection> },
}

#[derive(Debug, Clone, PartialEq, Eq, Serialize)]
pub struct ExecutableDocument {
    pub definitions: Vec<ExecutableDefinition>,
}

// ---------------------------------------------------------------------------------------------
// Type system documents (spec section 3)
// ---------------------------------------------------------------------------------------------

#[derive(Debug, Clone, PartialEq, Eq, Serialize)]
pub struct InputValueDefinition {
    pub description: Option<StringValue>,
    pub name: String,
    pub ty: Type,
    pub default_value: Option<Value>,
    pub directives: Vec<Directive>,
}

#[derive(Debug, Clone, PartialEq, Eq, Serialize)]
pub struct FieldDefinition {
    pub description: Option<StringValue>,
    /// Never present under the June 2018 grammar; see `Relaxations::second_string_before_definition`.
    pub second_string: Option<StringValue>,
    pub name: String,
    pub arguments: Vec<InputValueDefinition>,
    pub ty: Type,
    pub directives: Vec<Directive>,
}

#[derive(Debug, Clone, PartialEq, Eq, Serialize)]
pub struct EnumValueDefinition {
    pub description: Option<StringValue>,
    pub name: String,
    pub directives: Vec<Directive>,
}

#[derive(Debug, Clone, PartialEq, Eq, Serialize)]
pub struct OperationTypeDefinition {
    pub operation: OperationType,
    pub named_type: String,
}

#[derive(Debug, Clone, PartialEq, Eq, Serialize)]
pub enum DefinitionKind {
    Schema { directives: Vec<Directive>, operation_types: Vec<OperationTypeDefinition> },
    Scalar { name: String, directives: Vec<Directive> },
    Object { name: String, interfaces: Vec<String>, directives: Vec<Directive>, fields: Vec<FieldDefinition> },
    /// `interfaces` is always empty under the June 2018 grammar
    Interface { name: String, interfaces: Vec<String>, directives: Vec<Directive>, fields: Vec<FieldDefinition> },
    Union { name: String, directives: Vec<Directive>, members: Vec<String> },
    Enum { name: String, directives: Vec<Directive>, values: Vec<EnumValueDefinition> },
    InputObject { name: String, directives: Vec<Directive>, fields: Vec<InputValueDefinition> },
    /// `repeatable` is always false under the June 2018 grammar
    Directive { name: String, arguments: Vec<InputValueDefinition>, repeatable: bool, locations: Vec<String> },
}

impl DefinitionKind {
    pub fn keyword(&self) -> &'static str {
        match self {
            DefinitionKind::Schema { .. } => "schema",
            DefinitionKind::Scalar { .. } => "scalar",
            DefinitionKind::Object { .. } => "type",
            DefinitionKind::Interface { .. } => "interface",
            DefinitionKind::Union { .. } => "union",
            DefinitionKind::Enum { .. } => "enum",
            DefinitionKind::InputObject { .. } => "input",
            DefinitionKind::Directive { .. } => "directive",
        }
    }
}

#[derive(Debug, Clone, PartialEq, Eq, Serialize)]
pub struct TypeSystemDefinition {
    /// `extend ...` (TypeSystemExtension); never true for `Directive`
    pub extension: bool,
    /// Under June 2018: only on type definitions and directive definitions (not on `schema`, not
    /// on extensions).
    pub description: Option<StringValue>,
    /// Never present under the June 2018 grammar; see `Relaxations::second_string_before_definition`.
    pub second_string: Option<StringValue>,
    pub kind: DefinitionKind,
}

#[derive(Debug, Clone, PartialEq, Eq, Serialize)]
pub struct TypeSystemDocument {
    pub definitions: Vec<TypeSystemDefinition>,
}

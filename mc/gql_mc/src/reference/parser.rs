//! Reference parser: GraphQL June 2018, appendix B.4 and B.5, one function per production, in the
//! order of the specification. Recursive descent with one token of lookahead.
//!
//! Two entry points, matching the two kinds of document the implementations under test parse:
//!  * `parse_executable_document`  — `Document` restricted to `ExecutableDefinition`
//!  * `parse_type_system_document` — `Document` restricted to `TypeSystemDefinition` and
//!                                   `TypeSystemExtension`
//!
//! Lines marked `RELAXATION` are not part of the June 2018 grammar; see `super::Relaxations`.

use super::Relaxations;
use super::ast::*;
use super::lexer::{LexError, Token, TokenKind, lex};

#[derive(Debug, Clone, PartialEq, Eq)]
pub struct SyntaxError {
    /// index of the offending token (for lexical errors: number of complete tokens before it)
    pub token_index: usize,
    /// the production that could not continue
    pub production: &'static str,
    /// what was found: a punctuator, `Name`, `Int`, `Float`, `String`, `BlockString`, `<EOF>`, or
    /// `lexical: ...`
    pub found: String,
}

impl From<LexError> for SyntaxError {
    fn from(e: LexError) -> Self {
        SyntaxError { token_index: e.tokens_before, production: "Token", found: format!("lexical: {}", e.what) }
    }
}

type PResult<T> = Result<T, SyntaxError>;

pub fn parse_executable_document(source: &str, relax: &Relaxations) -> PResult<ExecutableDocument> {
    let tokens = lex(source, relax)?;
    let mut p = Parser { tokens, pos: 0, relax: *relax };
    // Document : Definition+        (here: ExecutableDefinition only)
    let mut definitions = vec![];
    while !p.at_eof() {
        definitions.push(p.executable_definition()?);
    }
    if definitions.is_empty() && !p.relax.empty_document /* RELAXATION */ {
        return p.error("Document");
    }
    Ok(ExecutableDocument { definitions })
}

pub fn parse_type_system_document(source: &str, relax: &Relaxations) -> PResult<TypeSystemDocument> {
    let tokens = lex(source, relax)?;
    let mut p = Parser { tokens, pos: 0, relax: *relax };
    // Document : Definition+        (here: TypeSystemDefinition and TypeSystemExtension only)
    let mut definitions = vec![];
    while !p.at_eof() {
        definitions.push(p.type_system_definition_or_extension()?);
    }
    if definitions.is_empty() && !p.relax.empty_document /* RELAXATION */ {
        return p.error("Document");
    }
    Ok(TypeSystemDocument { definitions })
}

/// The tokens of a text (for classification helpers); `None` on a lexical error.
pub fn tokens_of(source: &str) -> Option<Vec<Token>> {
    lex(source, &Relaxations::none()).ok()
}

struct Parser {
    tokens: Vec<Token>,
    pos: usize,
    relax: Relaxations,
}

const EXECUTABLE_DIRECTIVE_LOCATIONS: [&str; 7] = ["QUERY", "MUTATION", "SUBSCRIPTION", "FIELD", "FRAGMENT_DEFINITION", "FRAGMENT_SPREAD", "INLINE_FRAGMENT"];
const TYPE_SYSTEM_DIRECTIVE_LOCATIONS: [&str; 11] =
    ["SCHEMA", "SCALAR", "OBJECT", "FIELD_DEFINITION", "ARGUMENT_DEFINITION", "INTERFACE", "UNION", "ENUM", "ENUM_VALUE", "INPUT_OBJECT", "INPUT_FIELD_DEFINITION"];

impl Parser {
    // ----------------------------------------------------------------------------------------
    // token helpers
    // ----------------------------------------------------------------------------------------

    fn peek(&self) -> &Token {
        &self.tokens[self.pos]
    }
    fn at_eof(&self) -> bool {
        self.peek().kind == TokenKind::Eof
    }
    fn advance(&mut self) -> Token {
        let t = self.tokens[self.pos].clone();
        if t.kind != TokenKind::Eof {
            self.pos += 1;
        }
        t
    }
    fn error<T>(&self, production: &'static str) -> PResult<T> {
        let t = self.peek();
        let found = match t.kind {
            TokenKind::Punctuator => t.text.clone(),
            TokenKind::Name => "Name".to_string(),
            TokenKind::Int => "Int".to_string(),
            TokenKind::Float => "Float".to_string(),
            TokenKind::String => "String".to_string(),
            TokenKind::BlockString => "BlockString".to_string(),
            TokenKind::Eof => "<EOF>".to_string(),
        };
        Err(SyntaxError { token_index: self.pos, production, found })
    }
    fn is_punctuator(&self, p: &str) -> bool {
        let t = self.peek();
        t.kind == TokenKind::Punctuator && t.text == p
    }
    fn is_keyword(&self, k: &str) -> bool {
        let t = self.peek();
        t.kind == TokenKind::Name && t.text == k
    }
    fn is_string(&self) -> bool {
        matches!(self.peek().kind, TokenKind::String | TokenKind::BlockString)
    }
    fn skip_punctuator(&mut self, p: &str) -> bool {
        if self.is_punctuator(p) {
            self.advance();
            true
        } else {
            false
        }
    }
    fn expect_punctuator(&mut self, p: &str, production: &'static str) -> PResult<()> {
        if self.skip_punctuator(p) { Ok(()) } else { self.error(production) }
    }
    fn expect_keyword(&mut self, k: &str, production: &'static str) -> PResult<()> {
        if self.is_keyword(k) {
            self.advance();
            Ok(())
        } else {
            self.error(production)
        }
    }
    /// Name :: /[_A-Za-z][_0-9A-Za-z]*/
    fn name(&mut self, production: &'static str) -> PResult<String> {
        if self.peek().kind == TokenKind::Name { Ok(self.advance().text) } else { self.error(production) }
    }

    // ----------------------------------------------------------------------------------------
    // B.4 Document — executable definitions
    // ----------------------------------------------------------------------------------------

    /// ExecutableDefinition : OperationDefinition | FragmentDefinition
    fn executable_definition(&mut self) -> PResult<ExecutableDefinition> {
        if self.is_punctuator("{") || self.is_keyword("query") || self.is_keyword("mutation") || self.is_keyword("subscription") {
            self.operation_definition()
        } else if self.is_keyword("fragment") {
            self.fragment_definition()
        } else {
            self.error("ExecutableDefinition")
        }
    }

    /// OperationDefinition :
    ///   - SelectionSet
    ///   - OperationType Name? VariableDefinitions? Directives? SelectionSet
    fn operation_definition(&mut self) -> PResult<ExecutableDefinition> {
        if self.is_punctuator("{") {
            let selection_set = self.selection_set()?;
            return Ok(ExecutableDefinition::Operation { shorthand: true, operation: OperationType::Query, name: None, variable_definitions: vec![], directives: vec![], selection_set });
        }
        let operation = self.operation_type("OperationDefinition")?;
        let name = if self.peek().kind == TokenKind::Name { Some(self.name("OperationDefinition")?) } else { None };
        let variable_definitions = if self.is_punctuator("(") { self.variable_definitions()? } else { vec![] };
        let directives = self.directives(false)?;
        let selection_set = self.selection_set()?;
        Ok(ExecutableDefinition::Operation { shorthand: false, operation, name, variable_definitions, directives, selection_set })
    }

    /// OperationType : one of `query` `mutation` `subscription`
    fn operation_type(&mut self, production: &'static str) -> PResult<OperationType> {
        let op = if self.is_keyword("query") {
            OperationType::Query
        } else if self.is_keyword("mutation") {
            OperationType::Mutation
        } else if self.is_keyword("subscription") {
            OperationType::Subscription
        } else {
            return self.error(production);
        };
        self.advance();
        Ok(op)
    }

    /// SelectionSet : { Selection+ }
    fn selection_set(&mut self) -> PResult<Vec<Selection>> {
        self.expect_punctuator("{", "SelectionSet")?;
        let mut selections = vec![self.selection()?];
        while !self.is_punctuator("}") {
            selections.push(self.selection()?);
        }
        self.expect_punctuator("}", "SelectionSet")?;
        Ok(selections)
    }

    /// Selection : Field | FragmentSpread | InlineFragment
    fn selection(&mut self) -> PResult<Selection> {
        if self.is_punctuator("...") {
            self.fragment_spread_or_inline_fragment()
        } else if self.peek().kind == TokenKind::Name {
            self.field()
        } else {
            self.error("Selection")
        }
    }

    /// Field : Alias? Name Arguments? Directives? SelectionSet?
    /// Alias : Name :
    fn field(&mut self) -> PResult<Selection> {
        let first = self.name("Field")?;
        let (alias, name) = if self.skip_punctuator(":") { (Some(first), self.name("Field")?) } else { (None, first) };
        let arguments = if self.is_punctuator("(") { self.arguments(false)? } else { vec![] };
        let directives = self.directives(false)?;
        let selection_set = if self.is_punctuator("{") { Some(self.selection_set()?) } else { None };
        Ok(Selection::Field { alias, name, arguments, directives, selection_set })
    }

    /// Arguments[Const] : ( Argument[?Const]+ )
    /// Argument[Const] : Name : Value[?Const]
    fn arguments(&mut self, is_const: bool) -> PResult<Vec<Argument>> {
        self.expect_punctuator("(", "Arguments")?;
        let mut arguments = vec![];
        loop {
            let name = self.name("Argument")?;
            self.expect_punctuator(":", "Argument")?;
            let value = self.value(is_const)?;
            arguments.push(Argument { name, value });
            if self.is_punctuator(")") {
                break;
            }
        }
        self.expect_punctuator(")", "Arguments")?;
        Ok(arguments)
    }

    /// FragmentSpread : ... FragmentName Directives?
    /// InlineFragment : ... TypeCondition? Directives? SelectionSet
    /// FragmentName : Name but not `on`
    fn fragment_spread_or_inline_fragment(&mut self) -> PResult<Selection> {
        self.expect_punctuator("...", "FragmentSpread")?;
        if self.peek().kind == TokenKind::Name && !self.is_keyword("on") {
            let name = self.name("FragmentSpread")?;
            let directives = self.directives(false)?;
            return Ok(Selection::FragmentSpread { name, directives });
        }
        let type_condition = if self.is_keyword("on") { Some(self.type_condition()?) } else { None };
        let directives = self.directives(false)?;
        let selection_set = self.selection_set()?;
        Ok(Selection::InlineFragment { type_condition, directives, selection_set })
    }

    /// FragmentDefinition : fragment FragmentName TypeCondition Directives? SelectionSet
    fn fragment_definition(&mut self) -> PResult<ExecutableDefinition> {
        self.expect_keyword("fragment", "FragmentDefinition")?;
        // FragmentName : Name but not `on`
        if self.is_keyword("on") && !self.relax.fragment_named_on /* RELAXATION */ {
            return self.error("FragmentName");
        }
        let name = self.name("FragmentName")?;
        let type_condition = self.type_condition()?;
        let directives = self.directives(false)?;
        let selection_set = self.selection_set()?;
        Ok(ExecutableDefinition::Fragment { name, type_condition, directives, selection_set })
    }

    /// TypeCondition : on NamedType
    fn type_condition(&mut self) -> PResult<String> {
        self.expect_keyword("on", "TypeCondition")?;
        self.name("TypeCondition")
    }

    /// Value[Const] :
    ///   - [~Const] Variable
    ///   - IntValue | FloatValue | StringValue | BooleanValue | NullValue | EnumValue
    ///   - ListValue[?Const] | ObjectValue[?Const]
    fn value(&mut self, is_const: bool) -> PResult<Value> {
        let t = self.peek().clone();
        match t.kind {
            TokenKind::Punctuator if t.text == "$" => {
                if is_const {
                    return self.error("Value[Const]");
                }
                Ok(Value::Variable(self.variable()?))
            }
            TokenKind::Int => {
                self.advance();
                Ok(Value::Int(t.text))
            }
            TokenKind::Float => {
                self.advance();
                Ok(Value::Float(t.text))
            }
            TokenKind::String | TokenKind::BlockString => Ok(Value::String(self.string_value("Value")?)),
            // BooleanValue : one of `true` `false`;  NullValue : `null`
            // EnumValue : Name but not `true`, `false` or `null`
            TokenKind::Name => {
                self.advance();
                Ok(match t.text.as_str() {
                    "true" => Value::Boolean(true),
                    "false" => Value::Boolean(false),
                    "null" => Value::Null,
                    _ => Value::Enum(t.text),
                })
            }
            // ListValue[Const] : [ ] | [ Value[?Const]+ ]
            TokenKind::Punctuator if t.text == "[" => {
                self.advance();
                let mut items = vec![];
                while !self.is_punctuator("]") {
                    items.push(self.value(is_const)?);
                }
                self.expect_punctuator("]", "ListValue")?;
                Ok(Value::List(items))
            }
            // ObjectValue[Const] : { } | { ObjectField[?Const]+ }
            // ObjectField[Const] : Name : Value[?Const]
            TokenKind::Punctuator if t.text == "{" => {
                self.advance();
                let mut fields = vec![];
                while !self.is_punctuator("}") {
                    let name = self.name("ObjectField")?;
                    self.expect_punctuator(":", "ObjectField")?;
                    let value = self.value(is_const)?;
                    fields.push((name, value));
                }
                self.expect_punctuator("}", "ObjectValue")?;
                Ok(Value::Object(fields))
            }
            _ => self.error("Value"),
        }
    }

    fn string_value(&mut self, production: &'static str) -> PResult<StringValue> {
        if !self.is_string() {
            return self.error(production);
        }
        let t = self.advance();
        Ok(StringValue { value: t.string_value.expect("string tokens carry their value"), block: t.kind == TokenKind::BlockString })
    }

    /// VariableDefinitions : ( VariableDefinition+ )
    fn variable_definitions(&mut self) -> PResult<Vec<VariableDefinition>> {
        self.expect_punctuator("(", "VariableDefinitions")?;
        let mut definitions = vec![self.variable_definition()?];
        while !self.is_punctuator(")") {
            definitions.push(self.variable_definition()?);
        }
        self.expect_punctuator(")", "VariableDefinitions")?;
        Ok(definitions)
    }

    /// VariableDefinition : Variable : Type DefaultValue?
    /// DefaultValue : = Value[Const]
    fn variable_definition(&mut self) -> PResult<VariableDefinition> {
        let name = self.variable()?;
        self.expect_punctuator(":", "VariableDefinition")?;
        let ty = self.type_reference()?;
        let default_value = if self.skip_punctuator("=") { Some(self.value(true)?) } else { None };
        // June 2018: nothing more. RELAXATION: Directives[Const]? (October 2021), or even non-const.
        let directives = if self.relax.variable_definition_directives_non_const {
            self.directives(false)?
        } else if self.relax.variable_definition_directives {
            self.directives(true)?
        } else {
            vec![]
        };
        Ok(VariableDefinition { name, ty, default_value, directives })
    }

    /// Variable : $ Name
    fn variable(&mut self) -> PResult<String> {
        self.expect_punctuator("$", "Variable")?;
        self.name("Variable")
    }

    /// Type : NamedType | ListType | NonNullType
    /// NamedType : Name
    /// ListType : [ Type ]
    /// NonNullType : NamedType ! | ListType !
    fn type_reference(&mut self) -> PResult<Type> {
        let inner = if self.skip_punctuator("[") {
            let item = self.type_reference()?;
            self.expect_punctuator("]", "ListType")?;
            Type::List(Box::new(item))
        } else {
            Type::Named(self.name("Type")?)
        };
        if self.skip_punctuator("!") { Ok(Type::NonNull(Box::new(inner))) } else { Ok(inner) }
    }

    /// Directives[Const] : Directive[?Const]+          (callers treat "none" as the `?`)
    /// Directive[Const] : @ Name Arguments[?Const]?
    fn directives(&mut self, is_const: bool) -> PResult<Vec<Directive>> {
        let mut directives = vec![];
        while self.skip_punctuator("@") {
            let name = self.name("Directive")?;
            let arguments = if self.is_punctuator("(") { self.arguments(is_const)? } else { vec![] };
            directives.push(Directive { name, arguments });
        }
        Ok(directives)
    }

    // ----------------------------------------------------------------------------------------
    // B.5 Type system
    // ----------------------------------------------------------------------------------------

    /// TypeSystemDefinition : SchemaDefinition | TypeDefinition | DirectiveDefinition
    /// TypeSystemExtension : SchemaExtension | TypeExtension
    /// Description : StringValue           (on TypeDefinition and DirectiveDefinition only)
    fn type_system_definition_or_extension(&mut self) -> PResult<TypeSystemDefinition> {
        let description = if self.is_string() { Some(self.string_value("Description")?) } else { None };
        // RELAXATION: a second string before the definition keyword
        let second_string = if description.is_some() && self.relax.second_string_before_definition && self.is_string() { Some(self.string_value("Description")?) } else { None };
        let has_description = description.is_some();

        if self.is_keyword("schema") {
            // SchemaDefinition : schema Directives[Const]? { OperationTypeDefinition+ }      (no Description)
            if has_description && !self.relax.description_on_schema_definition /* RELAXATION */ {
                return self.error("SchemaDefinition");
            }
            self.advance();
            let directives = self.directives(true)?;
            let operation_types = self.operation_type_definitions()?;
            return Ok(TypeSystemDefinition { extension: false, description, second_string, kind: DefinitionKind::Schema { directives, operation_types } });
        }
        if self.is_keyword("extend") {
            if has_description && !self.relax.description_before_extend /* RELAXATION */ {
                return self.error("TypeSystemExtension");
            }
            self.advance();
            let kind = self.extension_body()?;
            return Ok(TypeSystemDefinition { extension: true, description, second_string, kind });
        }
        let kind = if self.is_keyword("scalar") {
            self.scalar_type_definition()?
        } else if self.is_keyword("type") {
            self.object_type_definition()?
        } else if self.is_keyword("interface") {
            self.interface_type_definition()?
        } else if self.is_keyword("union") {
            self.union_type_definition()?
        } else if self.is_keyword("enum") {
            self.enum_type_definition()?
        } else if self.is_keyword("input") {
            self.input_object_type_definition()?
        } else if self.is_keyword("directive") {
            self.directive_definition()?
        } else {
            return self.error("TypeSystemDefinition");
        };
        Ok(TypeSystemDefinition { extension: false, description, second_string, kind })
    }

    /// { OperationTypeDefinition+ }
    /// OperationTypeDefinition : OperationType : NamedType
    fn operation_type_definitions(&mut self) -> PResult<Vec<OperationTypeDefinition>> {
        self.expect_punctuator("{", "SchemaDefinition")?;
        let mut out = vec![];
        loop {
            let operation = self.operation_type("OperationTypeDefinition")?;
            self.expect_punctuator(":", "OperationTypeDefinition")?;
            let named_type = self.name("OperationTypeDefinition")?;
            out.push(OperationTypeDefinition { operation, named_type });
            if self.is_punctuator("}") {
                break;
            }
        }
        self.expect_punctuator("}", "SchemaDefinition")?;
        Ok(out)
    }

    /// ScalarTypeDefinition : Description? scalar Name Directives[Const]?
    fn scalar_type_definition(&mut self) -> PResult<DefinitionKind> {
        self.expect_keyword("scalar", "ScalarTypeDefinition")?;
        let name = self.name("ScalarTypeDefinition")?;
        let directives = self.directives(true)?;
        Ok(DefinitionKind::Scalar { name, directives })
    }

    /// ObjectTypeDefinition : Description? type Name ImplementsInterfaces? Directives[Const]? FieldsDefinition?
    fn object_type_definition(&mut self) -> PResult<DefinitionKind> {
        self.expect_keyword("type", "ObjectTypeDefinition")?;
        let name = self.name("ObjectTypeDefinition")?;
        let interfaces = if self.is_keyword("implements") { self.implements_interfaces()? } else { vec![] };
        let directives = self.directives(true)?;
        let fields = if self.is_punctuator("{") { self.fields_definition()? } else { vec![] };
        Ok(DefinitionKind::Object { name, interfaces, directives, fields })
    }

    /// ImplementsInterfaces :
    ///   - implements `&`? NamedType
    ///   - ImplementsInterfaces & NamedType
    fn implements_interfaces(&mut self) -> PResult<Vec<String>> {
        self.expect_keyword("implements", "ImplementsInterfaces")?;
        self.skip_punctuator("&");
        let mut interfaces = vec![self.name("ImplementsInterfaces")?];
        while self.skip_punctuator("&") {
            interfaces.push(self.name("ImplementsInterfaces")?);
        }
        Ok(interfaces)
    }

    /// FieldsDefinition : { FieldDefinition+ }
    fn fields_definition(&mut self) -> PResult<Vec<FieldDefinition>> {
        self.expect_punctuator("{", "FieldsDefinition")?;
        let mut fields = vec![self.field_definition()?];
        while !self.is_punctuator("}") {
            fields.push(self.field_definition()?);
        }
        self.expect_punctuator("}", "FieldsDefinition")?;
        Ok(fields)
    }

    /// FieldDefinition : Description? Name ArgumentsDefinition? : Type Directives[Const]?
    fn field_definition(&mut self) -> PResult<FieldDefinition> {
        let description = if self.is_string() { Some(self.string_value("Description")?) } else { None };
        // RELAXATION: a second string before the field name
        let second_string = if description.is_some() && self.relax.second_string_before_definition && self.is_string() { Some(self.string_value("Description")?) } else { None };
        let name = self.name("FieldDefinition")?;
        let arguments = if self.is_punctuator("(") { self.arguments_definition()? } else { vec![] };
        self.expect_punctuator(":", "FieldDefinition")?;
        let ty = self.type_reference()?;
        let directives = self.directives(true)?;
        Ok(FieldDefinition { description, second_string, name, arguments, ty, directives })
    }

    /// ArgumentsDefinition : ( InputValueDefinition+ )
    fn arguments_definition(&mut self) -> PResult<Vec<InputValueDefinition>> {
        self.expect_punctuator("(", "ArgumentsDefinition")?;
        let mut arguments = vec![self.input_value_definition()?];
        while !self.is_punctuator(")") {
            arguments.push(self.input_value_definition()?);
        }
        self.expect_punctuator(")", "ArgumentsDefinition")?;
        Ok(arguments)
    }

    /// InputValueDefinition : Description? Name : Type DefaultValue? Directives[Const]?
    fn input_value_definition(&mut self) -> PResult<InputValueDefinition> {
        let description = if self.is_string() { Some(self.string_value("Description")?) } else { None };
        let name = self.name("InputValueDefinition")?;
        self.expect_punctuator(":", "InputValueDefinition")?;
        let ty = self.type_reference()?;
        let default_value = if self.skip_punctuator("=") { Some(self.value(true)?) } else { None };
        let directives = self.directives(true)?;
        Ok(InputValueDefinition { description, name, ty, default_value, directives })
    }

    /// InterfaceTypeDefinition : Description? interface Name Directives[Const]? FieldsDefinition?
    fn interface_type_definition(&mut self) -> PResult<DefinitionKind> {
        self.expect_keyword("interface", "InterfaceTypeDefinition")?;
        let name = self.name("InterfaceTypeDefinition")?;
        // June 2018: no ImplementsInterfaces here. RELAXATION (October 2021).
        let interfaces = if self.relax.interface_implements_interfaces && self.is_keyword("implements") { self.implements_interfaces()? } else { vec![] };
        let directives = self.directives(true)?;
        let fields = if self.is_punctuator("{") { self.fields_definition()? } else { vec![] };
        Ok(DefinitionKind::Interface { name, interfaces, directives, fields })
    }

    /// UnionTypeDefinition : Description? union Name Directives[Const]? UnionMemberTypes?
    fn union_type_definition(&mut self) -> PResult<DefinitionKind> {
        self.expect_keyword("union", "UnionTypeDefinition")?;
        let name = self.name("UnionTypeDefinition")?;
        let directives = self.directives(true)?;
        let members = if self.is_punctuator("=") { self.union_member_types()? } else { vec![] };
        Ok(DefinitionKind::Union { name, directives, members })
    }

    /// UnionMemberTypes :
    ///   - = `|`? NamedType
    ///   - UnionMemberTypes | NamedType
    fn union_member_types(&mut self) -> PResult<Vec<String>> {
        self.expect_punctuator("=", "UnionMemberTypes")?;
        self.skip_punctuator("|");
        let mut members = vec![self.name("UnionMemberTypes")?];
        while self.skip_punctuator("|") {
            members.push(self.name("UnionMemberTypes")?);
        }
        Ok(members)
    }

    /// EnumTypeDefinition : Description? enum Name Directives[Const]? EnumValuesDefinition?
    fn enum_type_definition(&mut self) -> PResult<DefinitionKind> {
        self.expect_keyword("enum", "EnumTypeDefinition")?;
        let name = self.name("EnumTypeDefinition")?;
        let directives = self.directives(true)?;
        let values = if self.is_punctuator("{") { self.enum_values_definition()? } else { vec![] };
        Ok(DefinitionKind::Enum { name, directives, values })
    }

    /// EnumValuesDefinition : { EnumValueDefinition+ }
    fn enum_values_definition(&mut self) -> PResult<Vec<EnumValueDefinition>> {
        self.expect_punctuator("{", "EnumValuesDefinition")?;
        let mut values = vec![self.enum_value_definition()?];
        while !self.is_punctuator("}") {
            values.push(self.enum_value_definition()?);
        }
        self.expect_punctuator("}", "EnumValuesDefinition")?;
        Ok(values)
    }

    /// EnumValueDefinition : Description? EnumValue Directives[Const]?
    /// EnumValue : Name but not `true`, `false` or `null`
    fn enum_value_definition(&mut self) -> PResult<EnumValueDefinition> {
        let description = if self.is_string() { Some(self.string_value("Description")?) } else { None };
        if (self.is_keyword("true") || self.is_keyword("false") || self.is_keyword("null")) && !self.relax.enum_value_definition_true_false_null /* RELAXATION */ {
            return self.error("EnumValue");
        }
        let name = self.name("EnumValueDefinition")?;
        let directives = self.directives(true)?;
        Ok(EnumValueDefinition { description, name, directives })
    }

    /// InputObjectTypeDefinition : Description? input Name Directives[Const]? InputFieldsDefinition?
    fn input_object_type_definition(&mut self) -> PResult<DefinitionKind> {
        self.expect_keyword("input", "InputObjectTypeDefinition")?;
        let name = self.name("InputObjectTypeDefinition")?;
        let directives = self.directives(true)?;
        let fields = if self.is_punctuator("{") { self.input_fields_definition()? } else { vec![] };
        Ok(DefinitionKind::InputObject { name, directives, fields })
    }

    /// InputFieldsDefinition : { InputValueDefinition+ }
    fn input_fields_definition(&mut self) -> PResult<Vec<InputValueDefinition>> {
        self.expect_punctuator("{", "InputFieldsDefinition")?;
        let mut fields = vec![self.input_value_definition()?];
        while !self.is_punctuator("}") {
            fields.push(self.input_value_definition()?);
        }
        self.expect_punctuator("}", "InputFieldsDefinition")?;
        Ok(fields)
    }

    /// DirectiveDefinition : Description? directive @ Name ArgumentsDefinition? on DirectiveLocations
    fn directive_definition(&mut self) -> PResult<DefinitionKind> {
        self.expect_keyword("directive", "DirectiveDefinition")?;
        if !self.skip_punctuator("@") && !self.relax.directive_definition_without_at /* RELAXATION */ {
            return self.error("DirectiveDefinition");
        }
        let name = self.name("DirectiveDefinition")?;
        let arguments = if self.is_punctuator("(") { self.arguments_definition()? } else { vec![] };
        // June 2018: `on` follows directly. RELAXATION (October 2021): `repeatable`? first.
        let mut repeatable = false;
        if self.relax.repeatable_directive_definition && self.is_keyword("repeatable") {
            self.advance();
            repeatable = true;
        }
        self.expect_keyword("on", "DirectiveDefinition")?;
        let locations = self.directive_locations()?;
        Ok(DefinitionKind::Directive { name, arguments, repeatable, locations })
    }

    /// DirectiveLocations :
    ///   - `|`? DirectiveLocation
    ///   - DirectiveLocations | DirectiveLocation
    fn directive_locations(&mut self) -> PResult<Vec<String>> {
        self.skip_punctuator("|");
        let mut locations = vec![self.directive_location()?];
        while self.skip_punctuator("|") {
            locations.push(self.directive_location()?);
        }
        Ok(locations)
    }

    /// DirectiveLocation : ExecutableDirectiveLocation | TypeSystemDirectiveLocation
    fn directive_location(&mut self) -> PResult<String> {
        let t = self.peek().clone();
        if t.kind == TokenKind::Name {
            let known = EXECUTABLE_DIRECTIVE_LOCATIONS.contains(&t.text.as_str())
                || TYPE_SYSTEM_DIRECTIVE_LOCATIONS.contains(&t.text.as_str())
                || (self.relax.directive_location_variable_definition /* RELAXATION */ && t.text == "VARIABLE_DEFINITION");
            if known {
                self.advance();
                return Ok(t.text);
            }
        }
        self.error("DirectiveLocation")
    }

    /// After `extend`:
    /// SchemaExtension :
    ///   - extend schema Directives[Const]? { OperationTypeDefinition+ }
    ///   - extend schema Directives[Const]
    /// ScalarTypeExtension : extend scalar Name Directives[Const]
    /// ObjectTypeExtension :
    ///   - extend type Name ImplementsInterfaces? Directives[Const]? FieldsDefinition
    ///   - extend type Name ImplementsInterfaces? Directives[Const]
    ///   - extend type Name ImplementsInterfaces
    /// InterfaceTypeExtension :
    ///   - extend interface Name Directives[Const]? FieldsDefinition
    ///   - extend interface Name Directives[Const]
    /// UnionTypeExtension :
    ///   - extend union Name Directives[Const]? UnionMemberTypes
    ///   - extend union Name Directives[Const]
    /// EnumTypeExtension :
    ///   - extend enum Name Directives[Const]? EnumValuesDefinition
    ///   - extend enum Name Directives[Const]
    /// InputObjectTypeExtension :
    ///   - extend input Name Directives[Const]? InputFieldsDefinition
    ///   - extend input Name Directives[Const]
    ///
    /// Every form requires at least one of its optional parts ("nothing to add" is not a sentence).
    fn extension_body(&mut self) -> PResult<DefinitionKind> {
        let may_be_empty = self.relax.extension_without_body; // RELAXATION
        if self.is_keyword("schema") {
            self.advance();
            let directives = self.directives(true)?;
            let operation_types = if self.is_punctuator("{") { self.operation_type_definitions()? } else { vec![] };
            if directives.is_empty() && operation_types.is_empty() && !may_be_empty {
                return self.error("SchemaExtension");
            }
            Ok(DefinitionKind::Schema { directives, operation_types })
        } else if self.is_keyword("scalar") {
            let kind = self.scalar_type_definition()?;
            if let DefinitionKind::Scalar { directives, .. } = &kind {
                if directives.is_empty() && !may_be_empty {
                    return self.error("ScalarTypeExtension");
                }
            }
            Ok(kind)
        } else if self.is_keyword("type") {
            let kind = self.object_type_definition()?;
            if let DefinitionKind::Object { interfaces, directives, fields, .. } = &kind {
                if interfaces.is_empty() && directives.is_empty() && fields.is_empty() && !may_be_empty {
                    return self.error("ObjectTypeExtension");
                }
            }
            Ok(kind)
        } else if self.is_keyword("interface") {
            let kind = self.interface_type_definition()?;
            if let DefinitionKind::Interface { interfaces, directives, fields, .. } = &kind {
                if interfaces.is_empty() && directives.is_empty() && fields.is_empty() && !may_be_empty {
                    return self.error("InterfaceTypeExtension");
                }
            }
            Ok(kind)
        } else if self.is_keyword("union") {
            let kind = self.union_type_definition()?;
            if let DefinitionKind::Union { directives, members, .. } = &kind {
                if directives.is_empty() && members.is_empty() && !may_be_empty {
                    return self.error("UnionTypeExtension");
                }
            }
            Ok(kind)
        } else if self.is_keyword("enum") {
            let kind = self.enum_type_definition()?;
            if let DefinitionKind::Enum { directives, values, .. } = &kind {
                if directives.is_empty() && values.is_empty() && !may_be_empty {
                    return self.error("EnumTypeExtension");
                }
            }
            Ok(kind)
        } else if self.is_keyword("input") {
            let kind = self.input_object_type_definition()?;
            if let DefinitionKind::InputObject { directives, fields, .. } = &kind {
                if directives.is_empty() && fields.is_empty() && !may_be_empty {
                    return self.error("InputObjectTypeExtension");
                }
            }
            Ok(kind)
        } else {
            self.error("TypeSystemExtension")
        }
    }
}

#[cfg(test)]
mod tests {
    use super::*;
    fn ex(s: &str) -> bool {
        parse_executable_document(s, &Relaxations::none()).is_ok()
    }
    fn ts(s: &str) -> bool {
        parse_type_system_document(s, &Relaxations::none()).is_ok()
    }
    #[test]
    fn executable() {
        assert!(ex("{ a }"));
        assert!(ex("query Q($v: [T!]! = [1]) @d(k: $v) { x: a(k: {k: [1, \"s\"]}) @d { ... F ... on T { a } ... @d { a } } } fragment F on T { a }"));
        assert!(!ex(""));
        assert!(!ex("{ }"));
        assert!(!ex("fragment on on T { a }"));
        assert!(!ex("query ($v: T @d) { a }"));
        assert!(!ex("query ($v: T = $w) { a }"));
        assert!(!ex("{ a() }"));
        assert!(ex("{ on }"));
        assert!(ex("{ ... on on { a } }"));
        assert!(!ex("type T"));
    }
    #[test]
    fn type_system() {
        assert!(ts("schema @d { query: Q mutation: M }"));
        assert!(ts("\"d\" type T implements & A & B @d { \"d\" a(\"d\" k: T = 1 @d): [T!]! @d }"));
        assert!(ts("type T"));
        assert!(!ts("type T { }"));
        assert!(ts("union U"));
        assert!(ts("union U = | A | B"));
        assert!(ts("enum E { A @d B }"));
        assert!(!ts("enum E { true }"));
        assert!(ts("input I { k: T = {k: 1} }"));
        assert!(ts("directive @d(k: T) on | QUERY | FIELD"));
        assert!(!ts("directive @d repeatable on QUERY"));
        assert!(!ts("directive @d on VARIABLE_DEFINITION"));
        assert!(!ts("interface I implements J"));
        assert!(ts("extend type T implements A"));
        assert!(!ts("extend type T"));
        assert!(!ts("extend scalar S"));
        assert!(ts("extend scalar S @d"));
        assert!(ts("extend schema @d"));
        assert!(!ts("extend schema"));
        assert!(!ts("\"d\" schema { query: Q }"));
        assert!(!ts("\"d\" extend type T @d"));
        assert!(!ts("\"d\" \"e\" type T"));
        assert!(!ts("{ a }"));
        assert!(!ts(""));
    }
}

//! The reference implementation of the GraphQL June 2018 syntax: the TRUSTED BASE of C29 and C30.
//!
//! * `lexer`  — section 2.1 (tokens, ignored tokens, string semantics, `BlockStringValue`)
//! * `parser` — appendix B.4 (Document), B.5 (type system), as a recursive-descent parser
//! * `ast`    — the plain tree both produce
//!
//! The oracle always runs the STRICT grammar (`Relaxations::none()`).
//!
//! `Relaxations` lists, by name, the ways in which an implementation has been seen (or is
//! expected) to deviate from June 2018. Each one is a single, commented `if` in the lexer or
//! parser. They serve two purposes and never change a verdict:
//!  * naming: once the strict parse has established that an implementation accepts a text the
//!    specification rejects, the text is re-parsed with single relaxations switched on; the ones
//!    that make the reference accept give the violation its signature (`accepts:<name>`), and the
//!    trees are still compared under that relaxed grammar;
//!  * input generation: the sentence enumerator also enumerates the relaxed grammar so that every
//!    named deviation is reached by some input (the strict reference still judges those inputs).

pub mod ast;
pub mod lexer;
pub mod parser;

macro_rules! relaxations {
    ($( $(#[$doc:meta])* $field:ident => $name:literal ),* $(,)?) => {
        #[derive(Debug, Clone, Copy, PartialEq, Eq, Default)]
        pub struct Relaxations {
            $( $(#[$doc])* pub $field: bool, )*
        }
        impl Relaxations {
            /// the June 2018 grammar
            pub fn none() -> Self { Self::default() }
            pub fn all() -> Self { Relaxations { $( $field: true, )* } }
            /// every single relaxation with its signature name
            pub fn singles() -> Vec<(&'static str, Relaxations)> {
                vec![ $( ($name, Relaxations { $field: true, ..Self::default() }), )* ]
            }
            pub fn plus(self, o: Relaxations) -> Relaxations {
                Relaxations { $( $field: self.$field || o.$field, )* }
            }
            pub fn minus(self, o: Relaxations) -> Relaxations {
                Relaxations { $( $field: self.$field && !o.$field, )* }
            }
            pub fn names(self) -> Vec<&'static str> {
                let mut v = vec![];
                $( if self.$field { v.push($name); } )*
                v
            }
        }
    };
}

relaxations! {
    // ---- syntax of later editions of the specification ("post-2018") ----
    /// October 2021: `VariableDefinition : Variable : Type DefaultValue? Directives[Const]?`
    variable_definition_directives => "post-2018:variable-definition-directive",
    /// ... and the directive arguments there may even contain variables (no edition allows that)
    variable_definition_directives_non_const => "variable-in-variable-definition-directive",
    /// October 2021: `interface Name ImplementsInterfaces? ...` (also on `extend interface`)
    interface_implements_interfaces => "post-2018:interface-implements-interface",
    /// October 2021: `directive @ Name ArgumentsDefinition? repeatable? on DirectiveLocations`
    repeatable_directive_definition => "post-2018:repeatable-directive-definition",
    /// October 2021: ExecutableDirectiveLocation gains `VARIABLE_DEFINITION`
    directive_location_variable_definition => "post-2018:directive-location-VARIABLE_DEFINITION",
    /// October 2021: `SchemaDefinition : Description? schema ...`
    description_on_schema_definition => "post-2018:description-on-schema-definition",

    // ---- deviations that no edition of the specification allows ----
    /// `FragmentName : Name but not on` not enforced on a fragment definition
    fragment_named_on => "fragment-definition-named-on",
    /// `Document : Definition+` — a document without any definition
    empty_document => "empty-document",
    /// a StringValue before `extend ...`
    description_before_extend => "description-before-extend",
    /// two StringValues before a definition / a field definition (relay's "hack_source")
    second_string_before_definition => "two-strings-before-definition",
    /// `extend scalar|union|enum|input|schema|type|interface X` with nothing to add
    extension_without_body => "extension-without-body",
    /// `EnumValue : Name but not true or false or null` not enforced in an EnumValueDefinition
    enum_value_definition_true_false_null => "enum-value-definition-named-true-false-null",
    /// `directive Name ...` without the `@`
    directive_definition_without_at => "directive-definition-without-at",
    /// U+000C treated as an ignored character (it is not even a SourceCharacter)
    form_feed_ignored => "form-feed-ignored",
}

//! C29 — GraphQL syntax parsing matches the specification.
//!
//! "For every document written with the June 2018 specification's character set and grammar, the
//! GraphQL syntax crate accepts exactly the executable and schema documents the specification
//! grammar accepts, and produces a tree with the same definitions, names, arguments, values and
//! block-string values as a reference implementation; printing a parsed schema and re-parsing it
//! yields an equal tree."
//!
//! Implementation under test: /repo/relay-crates/graphql-syntax — `parse_executable`,
//! `parse_schema_document`, the `Display` impls of the type-system nodes (the schema printer).
//! Reference: src/reference (strict June 2018).
//!
//! Enumerated, separately for executable and for type-system documents (see mutate.rs):
//! (a) sentences of the reference grammar up to N tokens, (b) token prefixes x alphabet,
//! (c) separator variants, (d) single-token edits of the sentences up to M <= N tokens.
//!
//! Oracle per text:
//!  1. no panic;
//!  2. relay accepts  <=>  the strict reference accepts. A disagreement is a violation named
//!     `accepts:<relaxation>` (the named deviation(s) under which the reference accepts too; names
//!     starting with `post-2018:` are syntax of later editions), `accepts:unclassified:<production>:
//!     <found>` when no named deviation explains it, or `rejects:<class>`;
//!  3. when relay accepts and the reference (strict, or relaxed as found in 2) accepts: the
//!     projection of relay's tree equals the reference tree — `tree:<path to first difference>`,
//!     with finer names for string values;
//!  4. when relay accepts a schema document: the printed document is accepted by relay again and
//!     gives an equal projection — `print:<class>`.

use crate::common::*;
use crate::reference::Relaxations;
use crate::reference::ast as r;
use crate::reference::parser::{SyntaxError, parse_executable_document, parse_type_system_document};
use crate::relay_proj;
use common::SourceLocationKey;
use mc_core::*;
use serde_json::json;
use std::panic::{AssertUnwindSafe, catch_unwind};

fn canon_ints_exec(doc: &mut r::ExecutableDocument) {
    map_values_in_executable(doc, &|v| {
        if let r::Value::Int(t) = v {
            *t = canonical_int(t);
        }
    });
}
fn canon_ints_ts(doc: &mut r::TypeSystemDocument) {
    map_values_in_type_system(doc, &|v| {
        if let r::Value::Int(t) = v {
            *t = canonical_int(t);
        }
    });
}

fn first_message(diags: &[common::Diagnostic]) -> String {
    diags.first().map(|d| d.message().to_string()).unwrap_or_default()
}

fn reject_signature(text: &str, message: &str) -> String {
    if has_int_outside_i64(text) {
        "rejects:int-value-outside-i64".to_string()
    } else {
        format!("rejects:{}", normalise_message(message))
    }
}

/// Shared steps 2 and 3 once both sides have been run.
fn compare<T: serde::Serialize + PartialEq>(
    text: &str,
    out: &mut TextOutcome,
    strict: Result<T, SyntaxError>,
    // Err: relay's first diagnostic message
    relay: Result<T, String>,
    parse_relaxed: &dyn Fn(&Relaxations) -> Option<T>,
) {
    out.reference_accepts = strict.is_ok();
    out.implementation_accepts = relay.is_ok();
    match (strict, relay) {
        (Ok(reference), Ok(tree)) => {
            out.tree_hash = Some(hash64(&serde_json::to_string(&reference).unwrap()));
            if let Some(d) = difference(&reference, &tree) {
                out.violations.push((tree_signature("tree", &d), format!("relay's tree differs from the reference at {}: reference {} / relay {}", d.path, d.reference, d.implementation), 0));
            }
        }
        (Ok(_), Err(message)) => {
            out.violations.push((reject_signature(text, &message), format!("the specification grammar accepts the text, relay rejects it: {message}"), 0));
        }
        (Err(e), Ok(tree)) => match explaining_relaxations(&|rx| parse_relaxed(rx).is_some()) {
            Some(rx) => {
                let names = rx.names();
                for n in &names {
                    let together = if names.len() > 1 { format!(" (together with {:?})", names.iter().filter(|m| m != &n).collect::<Vec<_>>()) } else { String::new() };
                    out.violations.push((format!("accepts:{n}"), format!("relay accepts a text the June 2018 grammar rejects (at token {}, in {}, found {}); named deviation: {n}{together}", e.token_index, e.production, e.found), (names.len() > 1) as u8));
                }
                let relaxed = parse_relaxed(&rx).expect("accepted a moment ago");
                if let Some(d) = difference(&relaxed, &tree) {
                    out.violations.push((tree_signature("tree", &d), format!("relay's tree differs from the (relaxed: {names:?}) reference at {}: reference {} / relay {}", d.path, d.reference, d.implementation), 1));
                }
            }
            None => out.violations.push((unclassified_accept_signature(&e), format!("relay accepts a text the June 2018 grammar rejects (at token {}, in {}, found {}); no named deviation explains it", e.token_index, e.production, e.found), 0)),
        },
        (Err(e), Err(_)) => out.rejected_late = e.token_index >= 2,
    }
}

pub fn check_executable(text: &str) -> TextOutcome {
    let mut out = TextOutcome::default();
    let relay = match catch_unwind(AssertUnwindSafe(|| graphql_syntax::parse_executable(text, SourceLocationKey::Generated).map(|d| relay_proj::executable_document(&d)).map_err(|e| first_message(&e)))) {
        Ok(r) => r,
        Err(p) => {
            let m = panic_message(&*p);
            out.violations.push((format!("panic:{}", mask_digits(&m)), format!("parse_executable panicked: {m}"), 0));
            return out;
        }
    };
    let reference = |rx: &Relaxations| {
        parse_executable_document(text, rx).map(|mut d| {
            canon_ints_exec(&mut d);
            d
        })
    };
    compare(text, &mut out, reference(&Relaxations::none()), relay, &|rx| reference(rx).ok());
    out
}

pub fn check_schema(text: &str) -> TextOutcome {
    let mut out = TextOutcome::default();
    let parsed = match catch_unwind(AssertUnwindSafe(|| graphql_syntax::parse_schema_document(text, SourceLocationKey::Generated))) {
        Ok(r) => r,
        Err(p) => {
            let m = panic_message(&*p);
            out.violations.push((format!("panic:{}", mask_digits(&m)), format!("parse_schema_document panicked: {m}"), 0));
            return out;
        }
    };
    let reference = |rx: &Relaxations| {
        parse_type_system_document(text, rx).map(|mut d| {
            canon_ints_ts(&mut d);
            relay_proj::erase_what_relay_does_not_keep(&mut d);
            d
        })
    };
    let relay_tree = parsed.as_ref().map(relay_proj::schema_document).map_err(|e| first_message(e));
    compare(text, &mut out, reference(&Relaxations::none()), relay_tree, &|rx| reference(rx).ok());

    // step 4: print -> re-parse -> equal tree
    if let Ok(doc) = &parsed {
        out.extra_checks += 1;
        let before = relay_proj::schema_document(doc);
        let printed = match catch_unwind(AssertUnwindSafe(|| format!("{doc}"))) {
            Ok(p) => p,
            Err(p) => {
                let m = panic_message(&*p);
                out.violations.push((format!("print:panic:{}", mask_digits(&m)), format!("printing the parsed schema panicked: {m}"), 0));
                return out;
            }
        };
        // A block string value is printed between plain quotes with its cooked content unescaped; when
        // the content holds a quote, a backslash or a line break the printed text means something else.
        let fragile_block_value = {
            let found = std::cell::Cell::new(false);
            let mut copy = before.clone();
            map_values_in_type_system(&mut copy, &|v| {
                if let r::Value::String(sv) = v {
                    if sv.block && sv.value.contains(['"', '\\', '\n', '\r']) {
                        found.set(true);
                    }
                }
            });
            found.get()
        };
        let rank = !out.reference_accepts as u8;
        match graphql_syntax::parse_schema_document(&printed, SourceLocationKey::Generated) {
            Err(diags) => {
                let class = if fragile_block_value {
                    "print:block-string-value-printed-between-quotes-unescaped".to_string()
                } else if before.definitions.is_empty() {
                    "print:reparse-fails:empty-document".to_string()
                } else {
                    format!("print:reparse-fails:{}", normalise_message(&first_message(&diags)))
                };
                out.violations.push((class, format!("the printed schema {printed:?} is rejected by relay: {}", first_message(&diags)), rank));
            }
            Ok(doc2) => {
                let after = relay_proj::schema_document(&doc2);
                let (mut jb, mut ja) = (serde_json::to_value(&before).unwrap(), serde_json::to_value(&after).unwrap());
                without_block_flags(&mut jb);
                without_block_flags(&mut ja);
                if let Some(d) = difference_json(&jb, &ja) {
                    let leaf = d.path.rsplit('.').next().unwrap_or("");
                    let class = if d.path.ends_with("description") || d.path.ends_with("second_string") || leaf == "repeatable" {
                        format!("print:drops:{}", d.path)
                    } else if fragile_block_value {
                        "print:block-string-value-printed-between-quotes-unescaped".to_string()
                    } else {
                        tree_signature("print:tree", &d)
                    };
                    out.violations.push((class, format!("print -> re-parse changes the tree at {}: before {} / after {} (printed: {printed:?})", d.path, d.reference, d.implementation), rank));
                }
            }
        }
    }
    out
}

fn replay(args: &Args, path: &std::path::Path) -> i32 {
    let v = read_replay(path);
    let text = v["case"]["text"].as_str().unwrap_or_else(|| machinery_error("replay lacks case.text"));
    let kind = v["case"]["kind"].as_str().unwrap_or("executable");
    let run = || if kind == "schema" { check_schema(text) } else { check_executable(text) };
    let (o1, o2) = (run(), run());
    if o1.violations != o2.violations {
        machinery_error("replay is not deterministic");
    }
    println!("text ({kind}): {text:?}");
    println!("reference (June 2018) accepts: {}   relay accepts: {}", o1.reference_accepts, o1.implementation_accepts);
    for (sig, what, _) in &o1.violations {
        println!("  {sig} :: {what}");
    }
    let wanted = v["signature"].as_str().unwrap_or("");
    let _ = args;
    if o1.violations.iter().any(|(s, _, _)| wanted.is_empty() || s == wanted) {
        println!("VIOLATION property=C29 replay={}", path.display());
        return 1;
    }
    println!("REPLAY: signature {wanted:?} not observed");
    0
}

pub fn main(args: &Args) -> i32 {
    quiet_panics();
    if let Some(path) = &args.replay {
        return replay(args, path);
    }
    let mut ev = Evidence::new(args, "exploration");
    let env = |k: &str, d: usize| std::env::var(k).ok().and_then(|s| s.parse().ok()).unwrap_or(d);
    let rich = args.tier == Tier::Thorough;
    let exec_plan = plan(DocKind::Executable, env("C29_EXEC_BUDGET", args.tier.pick(11, 13)), env("C29_EXEC_EDIT_BUDGET", args.tier.pick(10, 11)), env("C29_EXEC_RELAXED_BUDGET", args.tier.pick(12, 13)), rich);
    let ts_plan = plan(DocKind::TypeSystem, env("C29_TS_BUDGET", args.tier.pick(10, 12)), env("C29_TS_EDIT_BUDGET", args.tier.pick(9, 10)), env("C29_TS_RELAXED_BUDGET", args.tier.pick(10, 11)), rich);

    // the enumerator and the parser are two renderings of one grammar: they must agree
    for (p, kind) in [(&exec_plan, DocKind::Executable), (&ts_plan, DocKind::TypeSystem)] {
        for s in &p.strict_sentences {
            let text = crate::sentences::render(s);
            let ok = match kind {
                DocKind::Executable => parse_executable_document(&text, &Relaxations::none()).is_ok(),
                DocKind::TypeSystem => parse_type_system_document(&text, &Relaxations::none()).is_ok(),
            };
            if !ok {
                machinery_error(&format!("reference enumerator and reference parser disagree on {text:?}"));
            }
        }
    }

    let seen_exec = Seen::new();
    let seen_ts = Seen::new();
    let t_exec = run_plan(&exec_plan, args.jobs, &seen_exec, 1, &|t| vec![check_executable(t)]).remove(0);
    let t_ts = run_plan(&ts_plan, args.jobs, &seen_ts, 1, &|t| vec![check_schema(t)]).remove(0);

    let totals = [("executable", &t_exec), ("schema", &t_ts)];
    let verdict = verdict_from("C29", &totals, &|label, text| json!({"text": text, "kind": label}));
    let (code, n_new, known) = verdict.conclude("gql_mc/c29");
    ev.violations = n_new as i64;
    let sum = |f: &dyn Fn(&Totals) -> u64| f(&t_exec) + f(&t_ts);
    let accepted = sum(&|t| t.both_accepted);
    let samples: Vec<String> = {
        let all: Vec<String> = exec_plan.strict_sentences.iter().chain(ts_plan.strict_sentences.iter()).map(|s| crate::sentences::render(s)).collect();
        pick_samples(&all)
    };
    ev.set("evaluations", sum(&|t| t.evaluations))
        .set("distinct_nontrivial", sum(&|t| t.nontrivial))
        .set(
            "rule",
            "evaluations = distinct texts executed (each once per document kind): sentences of the reference grammar up to the token budget (June 2018, plus one named relaxation at a time as inputs only), every token prefix alone and extended by each alphabet token, separator variants of every sentence, single-token replace/insert/delete edits of every sentence up to the edit budget; non-trivial = accepted by the reference or by relay, or rejected by the reference at token index >= 2",
        )
        .set("exhaustive", true)
        .set("executable", json!({"token_budget": exec_plan.budget, "edit_budget": exec_plan.edit_budget, "grammar_sentences": exec_plan.strict_sentences.len(), "relaxed_grammar_sentences": exec_plan.n_relaxed_only_sentences, "token_prefixes": exec_plan.n_prefixes, "texts": t_exec.evaluations, "reference_accepted": t_exec.reference_accepted, "relay_accepted": t_exec.implementation_accepted, "both_accepted_trees_compared": t_exec.both_accepted, "distinct_reference_trees": t_exec.tree_hashes.len()}))
        .set("schema", json!({"token_budget": ts_plan.budget, "edit_budget": ts_plan.edit_budget, "grammar_sentences": ts_plan.strict_sentences.len(), "relaxed_grammar_sentences": ts_plan.n_relaxed_only_sentences, "token_prefixes": ts_plan.n_prefixes, "texts": t_ts.evaluations, "reference_accepted": t_ts.reference_accepted, "relay_accepted": t_ts.implementation_accepted, "both_accepted_trees_compared": t_ts.both_accepted, "print_round_trips": t_ts.extra_checks, "distinct_reference_trees": t_ts.tree_hashes.len()}))
        .set("token_alphabet", crate::mutate::alphabet().len())
        .set("outcomes", t_exec.tree_hashes.len() + t_ts.tree_hashes.len())
        .set("violating_texts", sum(&|t| t.violating_texts))
        .set("violation_signatures", signature_counts(&totals))
        .set("known_findings_reobserved", json!(known))
        .set("samples", json!(samples));
    ev.assume("the reference lexer/parser in mc/gql_mc/src/reference is a faithful rendering of the June 2018 grammar (no second GraphQL implementation is available offline); its enumerator and its parser are cross-checked on every sentence");
    ev.assume("numeric tokens must not be followed by a digit, '.', a letter or '_' (stated in the brief; spelled out by later editions)");
    ev.assume("not comparable because relay's tree does not keep them: descriptions of type definitions, schema definitions, input values and enum values");
    ev.write();
    if accepted < 300 {
        machinery_error(&format!("vacuous: only {accepted} texts accepted by both sides"));
    }
    println!(
        "gql_mc C29: executable {} sentences (+{} relaxed) {} prefixes {} texts ({} accepted by both); schema {} sentences (+{} relaxed) {} prefixes {} texts ({} accepted by both, {} print round trips); {} new violation signature(s), known {:?}",
        exec_plan.strict_sentences.len(),
        exec_plan.n_relaxed_only_sentences,
        exec_plan.n_prefixes,
        t_exec.evaluations,
        t_exec.both_accepted,
        ts_plan.strict_sentences.len(),
        ts_plan.n_relaxed_only_sentences,
        ts_plan.n_prefixes,
        t_ts.evaluations,
        t_ts.both_accepted,
        t_ts.extra_checks,
        n_new,
        known
    );
    code
}

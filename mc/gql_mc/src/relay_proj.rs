//! Projection of the relay `graphql-syntax` trees into the plain reference AST.
//!
//! STRING VALUES. Read off relay_parser.rs (`parse_literal_value`, `parse_optional_description`):
//!  * for a quoted string `"..."`, `StringNode.value` is the RAW text between the quotes — escape
//!    sequences are not processed;
//!  * for a block string `"""..."""`, `StringNode.value` is COOKED by relay's own
//!    `clean_block_string_literal`.
//! The kind is recoverable from `StringNode.token.kind`. The projection therefore applies the
//! reference escape processing (`cook_quoted`) to quoted strings and takes block strings as they
//! are, so that both sides are compared as semantic values.
//!
//! INTEGERS are compared numerically (`IntNode.value`), floats by their source text
//! (`FloatNode.source_value`).
//!
//! NOT REPRESENTED in relay's tree and therefore not comparable (erased from the reference tree by
//! `erase_what_relay_does_not_keep`): descriptions of type definitions, of schema definitions, of
//! input values (arguments, input fields) and of enum values — the parser reads and drops them.
//! Descriptions of field definitions and directive definitions are kept and compared.

use crate::reference::ast as r;
use crate::reference::lexer::cook_quoted;
use graphql_syntax as gs;

fn s(k: impl std::fmt::Display) -> String {
    k.to_string()
}

fn string_node(n: &gs::StringNode) -> r::StringValue {
    match n.token.kind {
        gs::TokenKind::BlockStringLiteral => r::StringValue { value: s(n.value), block: true },
        _ => {
            let raw = s(n.value);
            r::StringValue { value: cook_quoted(&raw).unwrap_or_else(|| format!("<not a StringCharacter sequence: {raw}>")), block: false }
        }
    }
}

fn constant_value(v: &gs::ConstantValue) -> r::Value {
    match v {
        gs::ConstantValue::Int(n) => r::Value::Int(n.value.to_string()),
        gs::ConstantValue::Float(n) => r::Value::Float(s(n.source_value)),
        gs::ConstantValue::String(n) => r::Value::String(string_node(n)),
        gs::ConstantValue::Boolean(n) => r::Value::Boolean(n.value),
        gs::ConstantValue::Null(_) => r::Value::Null,
        gs::ConstantValue::Enum(n) => r::Value::Enum(s(n.value)),
        gs::ConstantValue::List(l) => r::Value::List(l.items.iter().map(constant_value).collect()),
        gs::ConstantValue::Object(l) => r::Value::Object(l.items.iter().map(|a| (s(a.name.value), constant_value(&a.value))).collect()),
    }
}

fn value(v: &gs::Value) -> r::Value {
    match v {
        gs::Value::Constant(c) => constant_value(c),
        gs::Value::Variable(v) => r::Value::Variable(s(v.name)),
        gs::Value::List(l) => r::Value::List(l.items.iter().map(value).collect()),
        gs::Value::Object(l) => r::Value::Object(l.items.iter().map(|a| (s(a.name.value), value(&a.value))).collect()),
    }
}

fn type_annotation(t: &gs::TypeAnnotation) -> r::Type {
    match t {
        gs::TypeAnnotation::Named(n) => r::Type::Named(s(n.name.value)),
        gs::TypeAnnotation::List(l) => r::Type::List(Box::new(type_annotation(&l.type_))),
        gs::TypeAnnotation::NonNull(n) => r::Type::NonNull(Box::new(type_annotation(&n.type_))),
    }
}

fn arguments(a: &Option<gs::List<gs::Argument>>) -> Vec<r::Argument> {
    a.iter().flat_map(|l| l.items.iter()).map(|a| r::Argument { name: s(a.name.value), value: value(&a.value) }).collect()
}

fn constant_arguments(a: &Option<gs::List<gs::ConstantArgument>>) -> Vec<r::Argument> {
    a.iter().flat_map(|l| l.items.iter()).map(|a| r::Argument { name: s(a.name.value), value: constant_value(&a.value) }).collect()
}

fn directives(ds: &[gs::Directive]) -> Vec<r::Directive> {
    ds.iter().map(|d| r::Directive { name: s(d.name.value), arguments: arguments(&d.arguments) }).collect()
}

fn constant_directives(ds: &[gs::ConstantDirective]) -> Vec<r::Directive> {
    ds.iter().map(|d| r::Directive { name: s(d.name.value), arguments: constant_arguments(&d.arguments) }).collect()
}

fn selections(l: &gs::List<gs::Selection>) -> Vec<r::Selection> {
    l.items
        .iter()
        .map(|sel| match sel {
            gs::Selection::ScalarField(f) => r::Selection::Field {
                alias: f.alias.as_ref().map(|a| s(a.alias.value)),
                name: s(f.name.value),
                arguments: arguments(&f.arguments),
                directives: directives(&f.directives),
                selection_set: None,
            },
            gs::Selection::LinkedField(f) => r::Selection::Field {
                alias: f.alias.as_ref().map(|a| s(a.alias.value)),
                name: s(f.name.value),
                arguments: arguments(&f.arguments),
                directives: directives(&f.directives),
                selection_set: Some(selections(&f.selections)),
            },
            gs::Selection::FragmentSpread(f) => r::Selection::FragmentSpread { name: s(f.name.value), directives: directives(&f.directives) },
            gs::Selection::InlineFragment(f) => {
                r::Selection::InlineFragment { type_condition: f.type_condition.as_ref().map(|t| s(t.type_.value)), directives: directives(&f.directives), selection_set: selections(&f.selections) }
            }
        })
        .collect()
}

fn variable_definitions(l: &Option<gs::List<gs::VariableDefinition>>) -> Vec<r::VariableDefinition> {
    l.iter()
        .flat_map(|l| l.items.iter())
        .map(|v| r::VariableDefinition { name: s(v.name.name), ty: type_annotation(&v.type_), default_value: v.default_value.as_ref().map(|d| constant_value(&d.value)), directives: directives(&v.directives) })
        .collect()
}

pub fn executable_document(doc: &gs::ExecutableDocument) -> r::ExecutableDocument {
    r::ExecutableDocument {
        definitions: doc
            .definitions
            .iter()
            .map(|d| match d {
                gs::ExecutableDefinition::Operation(o) => r::ExecutableDefinition::Operation {
                    shorthand: o.operation.is_none(),
                    operation: match o.operation_kind() {
                        gs::OperationKind::Query => r::OperationType::Query,
                        gs::OperationKind::Mutation => r::OperationType::Mutation,
                        gs::OperationKind::Subscription => r::OperationType::Subscription,
                    },
                    name: o.name.as_ref().map(|n| s(n.value)),
                    variable_definitions: variable_definitions(&o.variable_definitions),
                    directives: directives(&o.directives),
                    selection_set: selections(&o.selections),
                },
                gs::ExecutableDefinition::Fragment(f) => {
                    // `variable_definitions` on fragments exists only behind a parser feature flag that
                    // the default entry points leave off; a non-empty list would be a surprise worth seeing.
                    assert!(f.variable_definitions.is_none(), "fragment variable definitions with default ParserFeatures");
                    r::ExecutableDefinition::Fragment { name: s(f.name.value), type_condition: s(f.type_condition.type_.value), directives: directives(&f.directives), selection_set: selections(&f.selections) }
                }
            })
            .collect(),
    }
}

fn input_values(l: &Option<gs::List<gs::InputValueDefinition>>) -> Vec<r::InputValueDefinition> {
    l.iter()
        .flat_map(|l| l.items.iter())
        .map(|v| r::InputValueDefinition { description: None, name: s(v.name.value), ty: type_annotation(&v.type_), default_value: v.default_value.as_ref().map(constant_value), directives: constant_directives(&v.directives) })
        .collect()
}

fn fields(l: &Option<gs::List<gs::FieldDefinition>>) -> Vec<r::FieldDefinition> {
    l.iter()
        .flat_map(|l| l.items.iter())
        .map(|f| r::FieldDefinition {
            description: f.description.as_ref().map(string_node),
            second_string: f.hack_source.as_ref().map(string_node),
            name: s(f.name.value),
            arguments: input_values(&f.arguments),
            ty: type_annotation(&f.type_),
            directives: constant_directives(&f.directives),
        })
        .collect()
}

fn idents(v: &[gs::Identifier]) -> Vec<String> {
    v.iter().map(|i| s(i.value)).collect()
}

fn operation_types(items: &[gs::OperationTypeDefinition]) -> Vec<r::OperationTypeDefinition> {
    items
        .iter()
        .map(|o| r::OperationTypeDefinition {
            operation: match o.operation {
                gs::OperationType::Query => r::OperationType::Query,
                gs::OperationType::Mutation => r::OperationType::Mutation,
                gs::OperationType::Subscription => r::OperationType::Subscription,
            },
            named_type: s(o.type_.value),
        })
        .collect()
}

fn enum_values(l: &Option<gs::List<gs::EnumValueDefinition>>) -> Vec<r::EnumValueDefinition> {
    l.iter().flat_map(|l| l.items.iter()).map(|v| r::EnumValueDefinition { description: None, name: s(v.name.value), directives: constant_directives(&v.directives) }).collect()
}

pub fn schema_document(doc: &gs::SchemaDocument) -> r::TypeSystemDocument {
    use gs::TypeSystemDefinition as D;
    let def = |extension: bool, kind: r::DefinitionKind| r::TypeSystemDefinition { extension, description: None, second_string: None, kind };
    r::TypeSystemDocument {
        definitions: doc
            .definitions
            .iter()
            .map(|d| match d {
                D::SchemaDefinition(x) => def(false, r::DefinitionKind::Schema { directives: constant_directives(&x.directives), operation_types: operation_types(&x.operation_types.items) }),
                D::SchemaExtension(x) => def(
                    true,
                    r::DefinitionKind::Schema { directives: constant_directives(&x.directives), operation_types: x.operation_types.as_ref().map(|l| operation_types(&l.items)).unwrap_or_default() },
                ),
                D::ScalarTypeDefinition(x) => def(false, r::DefinitionKind::Scalar { name: s(x.name.value), directives: constant_directives(&x.directives) }),
                D::ScalarTypeExtension(x) => def(true, r::DefinitionKind::Scalar { name: s(x.name.value), directives: constant_directives(&x.directives) }),
                D::ObjectTypeDefinition(x) => def(false, r::DefinitionKind::Object { name: s(x.name.value), interfaces: idents(&x.interfaces), directives: constant_directives(&x.directives), fields: fields(&x.fields) }),
                D::ObjectTypeExtension(x) => def(true, r::DefinitionKind::Object { name: s(x.name.value), interfaces: idents(&x.interfaces), directives: constant_directives(&x.directives), fields: fields(&x.fields) }),
                D::InterfaceTypeDefinition(x) => {
                    def(false, r::DefinitionKind::Interface { name: s(x.name.value), interfaces: idents(&x.interfaces), directives: constant_directives(&x.directives), fields: fields(&x.fields) })
                }
                D::InterfaceTypeExtension(x) => {
                    def(true, r::DefinitionKind::Interface { name: s(x.name.value), interfaces: idents(&x.interfaces), directives: constant_directives(&x.directives), fields: fields(&x.fields) })
                }
                D::UnionTypeDefinition(x) => def(false, r::DefinitionKind::Union { name: s(x.name.value), directives: constant_directives(&x.directives), members: idents(&x.members) }),
                D::UnionTypeExtension(x) => def(true, r::DefinitionKind::Union { name: s(x.name.value), directives: constant_directives(&x.directives), members: idents(&x.members) }),
                D::EnumTypeDefinition(x) => def(false, r::DefinitionKind::Enum { name: s(x.name.value), directives: constant_directives(&x.directives), values: enum_values(&x.values) }),
                D::EnumTypeExtension(x) => def(true, r::DefinitionKind::Enum { name: s(x.name.value), directives: constant_directives(&x.directives), values: enum_values(&x.values) }),
                D::InputObjectTypeDefinition(x) => def(false, r::DefinitionKind::InputObject { name: s(x.name.value), directives: constant_directives(&x.directives), fields: input_values(&x.fields) }),
                D::InputObjectTypeExtension(x) => def(true, r::DefinitionKind::InputObject { name: s(x.name.value), directives: constant_directives(&x.directives), fields: input_values(&x.fields) }),
                D::DirectiveDefinition(x) => r::TypeSystemDefinition {
                    extension: false,
                    description: x.description.as_ref().map(string_node),
                    second_string: x.hack_source.as_ref().map(string_node),
                    kind: r::DefinitionKind::Directive { name: s(x.name.value), arguments: input_values(&x.arguments), repeatable: x.repeatable, locations: x.locations.iter().map(|l| l.to_string()).collect() },
                },
            })
            .collect(),
    }
}

/// See the module comment: what relay's tree cannot express is removed from the reference tree
/// before the two are compared.
pub fn erase_what_relay_does_not_keep(doc: &mut r::TypeSystemDocument) {
    fn input_values(v: &mut [r::InputValueDefinition]) {
        for x in v {
            x.description = None;
        }
    }
    fn fields(v: &mut [r::FieldDefinition]) {
        for f in v {
            input_values(&mut f.arguments);
        }
    }
    for d in &mut doc.definitions {
        match &mut d.kind {
            r::DefinitionKind::Directive { arguments, .. } => input_values(arguments),
            other => {
                d.description = None;
                d.second_string = None;
                match other {
                    r::DefinitionKind::Object { fields: f, .. } | r::DefinitionKind::Interface { fields: f, .. } => fields(f),
                    r::DefinitionKind::InputObject { fields: f, .. } => input_values(f),
                    r::DefinitionKind::Enum { values, .. } => {
                        for v in values {
                            v.description = None;
                        }
                    }
                    _ => {}
                }
            }
        }
    }
}

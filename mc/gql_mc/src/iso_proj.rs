//! Projection of the isograph `graphql_lang_types` trees (what `graphql_schema_parser` reads) into
//! the plain reference AST.
//!
//! STRING VALUES. Read off parse_schema.rs / description.rs:
//!  * `DescriptionValue` is the description's value (escape sequences replaced / block string cleaned);
//!    it is compared as is. The `block` flag is read from the source text under the description's span.
//!  * `GraphQLConstantValue::String` is kept in quoted *source form* (escape sequences as written; a block
//!    string is converted to that form); every consumer prints it back between quotes. The value read is
//!    that form run through the reference escape processing; whether it was written as a block string is
//!    not recorded and not compared.
//!
//! NUMBERS: `Int(i64)` and `Float(f64)` are rendered with `{}` and the reference tokens are
//! brought to the same rendering (`canonicalise_reference`).
//!
//! ORDER of root operation types in a schema definition is not kept by `GraphQLSchemaDefinition`
//! (three optional fields); both sides are put in the order query, mutation, subscription.

use crate::reference::ast as r;
use common_lang_types::{EmbeddedLocation, WithEmbeddedLocation};
use graphql_lang_types as g;

fn s(k: impl std::fmt::Display) -> String {
    k.to_string()
}

fn description(d: &Option<WithEmbeddedLocation<common_lang_types::DescriptionValue>>, source: &str) -> Option<r::StringValue> {
    d.as_ref().map(|d| {
        let EmbeddedLocation { span, .. } = d.location;
        let block = source.get(span.start as usize..).is_some_and(|t| t.starts_with("\"\"\""));
        r::StringValue { value: s(d.item), block }
    })
}

fn constant_value(v: &g::GraphQLConstantValue) -> r::Value {
    match v {
        g::GraphQLConstantValue::Int(i) => r::Value::Int(i.to_string()),
        g::GraphQLConstantValue::Float(f) => r::Value::Float(format!("{}", f.as_float())),
        // the codebase keeps string values in their quoted source form (escape sequences as written; it prints
        // them back between quotes, see graphql_lang_types/src/value.rs): the value read is that form cooked
        g::GraphQLConstantValue::String(x) => {
            let raw = s(x);
            r::Value::String(r::StringValue { value: crate::reference::lexer::cook_quoted(&raw).unwrap_or_else(|| format!("<not a StringCharacter sequence: {raw}>")), block: false })
        }
        g::GraphQLConstantValue::Boolean(b) => r::Value::Boolean(*b),
        g::GraphQLConstantValue::Null => r::Value::Null,
        g::GraphQLConstantValue::Enum(e) => r::Value::Enum(s(e)),
        g::GraphQLConstantValue::List(items) => r::Value::List(items.iter().map(|i| constant_value(&i.item)).collect()),
        g::GraphQLConstantValue::Object(fields) => r::Value::Object(fields.iter().map(|f| (s(f.name.item), constant_value(&f.value.item))).collect()),
    }
}

fn type_annotation(t: &g::GraphQLTypeAnnotation) -> r::Type {
    match t {
        g::GraphQLTypeAnnotation::Named(n) => r::Type::Named(s(n.0)),
        g::GraphQLTypeAnnotation::List(l) => r::Type::List(Box::new(type_annotation(&l.0.item))),
        g::GraphQLTypeAnnotation::NonNull(n) => r::Type::NonNull(Box::new(match &**n {
            g::GraphQLNonNullTypeAnnotation::Named(n) => r::Type::Named(s(n.0)),
            g::GraphQLNonNullTypeAnnotation::List(l) => r::Type::List(Box::new(type_annotation(&l.0.item))),
        })),
    }
}

fn directives(ds: &[g::GraphQLDirective<g::GraphQLConstantValue>]) -> Vec<r::Directive> {
    ds.iter()
        .map(|d| r::Directive { name: s(d.name.item), arguments: d.arguments.iter().map(|a| r::Argument { name: s(a.name.item), value: constant_value(&a.value.item) }).collect() })
        .collect()
}

fn input_values(vs: &[WithEmbeddedLocation<g::GraphQLInputValueDefinition>], source: &str) -> Vec<r::InputValueDefinition> {
    vs.iter()
        .map(|v| {
            let v = &v.item;
            r::InputValueDefinition {
                description: description(&v.description, source),
                name: s(v.name.item),
                ty: type_annotation(&v.type_.item),
                default_value: v.default_value.as_ref().map(|d| constant_value(&d.item)),
                directives: directives(&v.directives),
            }
        })
        .collect()
}

fn fields(fs: &[WithEmbeddedLocation<g::GraphQLFieldDefinition>], source: &str) -> Vec<r::FieldDefinition> {
    fs.iter()
        .map(|f| {
            let f = &f.item;
            r::FieldDefinition {
                description: description(&f.description, source),
                second_string: None,
                name: s(f.name.item),
                arguments: input_values(&f.arguments, source),
                ty: type_annotation(&f.type_.item),
                directives: directives(&f.directives),
            }
        })
        .collect()
}

fn names(v: &[WithEmbeddedLocation<common_lang_types::EntityName>]) -> Vec<String> {
    v.iter().map(|n| s(n.item)).collect()
}

/// `FragmentDefinition` -> `FRAGMENT_DEFINITION`
fn screaming_snake(camel: &str) -> String {
    let mut out = String::new();
    for (i, c) in camel.chars().enumerate() {
        if c.is_ascii_uppercase() && i > 0 {
            out.push('_');
        }
        out.push(c.to_ascii_uppercase());
    }
    out
}

fn definition(d: &g::GraphQLTypeSystemDefinition, source: &str) -> r::TypeSystemDefinition {
    use g::GraphQLTypeSystemDefinition as D;
    let (desc, kind) = match d {
        D::ObjectTypeDefinition(x) => (&x.description, r::DefinitionKind::Object { name: s(x.name.item), interfaces: names(&x.interfaces), directives: directives(&x.directives), fields: fields(&x.fields, source) }),
        D::ScalarTypeDefinition(x) => (&x.description, r::DefinitionKind::Scalar { name: s(x.name.item), directives: directives(&x.directives) }),
        D::InterfaceTypeDefinition(x) => {
            (&x.description, r::DefinitionKind::Interface { name: s(x.name.item), interfaces: names(&x.interfaces), directives: directives(&x.directives), fields: fields(&x.fields, source) })
        }
        D::InputObjectTypeDefinition(x) => (&x.description, r::DefinitionKind::InputObject { name: s(x.name.item), directives: directives(&x.directives), fields: input_values(&x.fields, source) }),
        D::DirectiveDefinition(x) => (
            &x.description,
            r::DefinitionKind::Directive {
                name: s(x.name.item),
                arguments: input_values(&x.arguments, source),
                repeatable: x.repeatable.is_some(),
                locations: x.locations.iter().map(|l| screaming_snake(&format!("{:?}", l.item))).collect(),
            },
        ),
        D::EnumDefinition(x) => (
            &x.description,
            r::DefinitionKind::Enum {
                name: s(x.name.item),
                directives: directives(&x.directives),
                values: x
                    .enum_value_definitions
                    .iter()
                    .map(|v| r::EnumValueDefinition { description: description(&v.item.description, source), name: s(v.item.value.item), directives: directives(&v.item.directives) })
                    .collect(),
            },
        ),
        D::UnionTypeDefinition(x) => (&x.description, r::DefinitionKind::Union { name: s(x.name.item), directives: directives(&x.directives), members: names(&x.union_member_types) }),
        D::SchemaDefinition(x) => {
            let mut operation_types = vec![];
            for (op, t) in [(r::OperationType::Query, &x.query), (r::OperationType::Mutation, &x.mutation), (r::OperationType::Subscription, &x.subscription)] {
                if let Some(t) = t {
                    operation_types.push(r::OperationTypeDefinition { operation: op, named_type: s(t.item) });
                }
            }
            (&x.description, r::DefinitionKind::Schema { directives: directives(&x.directives), operation_types })
        }
    };
    r::TypeSystemDefinition { extension: false, description: description(desc, source), second_string: None, kind }
}

fn extension(e: &g::GraphQLTypeSystemExtension, source: &str) -> r::TypeSystemDefinition {
    match e {
        g::GraphQLTypeSystemExtension::ObjectTypeExtension(x) => r::TypeSystemDefinition {
            extension: true,
            description: None,
            second_string: None,
            kind: r::DefinitionKind::Object { name: s(x.name.item), interfaces: names(&x.interfaces), directives: directives(&x.directives), fields: fields(&x.fields, source) },
        },
    }
}

pub fn type_system_document(doc: &g::GraphQLTypeSystemDocument, source: &str) -> r::TypeSystemDocument {
    r::TypeSystemDocument { definitions: doc.0.iter().map(|d| definition(&d.item, source)).collect() }
}

pub fn type_system_extension_document(doc: &g::GraphQLTypeSystemExtensionDocument, source: &str) -> r::TypeSystemDocument {
    r::TypeSystemDocument {
        definitions: doc
            .0
            .iter()
            .map(|d| match &d.item {
                g::GraphQLTypeSystemExtensionOrDefinition::Definition(d) => definition(d, source),
                g::GraphQLTypeSystemExtensionOrDefinition::Extension(e) => extension(e, source),
            })
            .collect(),
    }
}

/// Brings the reference tree to the renderings described in the module comment.
pub fn canonicalise_reference(doc: &mut r::TypeSystemDocument) {
    crate::common::map_values_in_type_system(doc, &|v| match v {
        r::Value::Int(t) => *t = t.parse::<i64>().map(|i| i.to_string()).unwrap_or_else(|_| t.clone()),
        r::Value::Float(t) => *t = t.parse::<f64>().map(|f| format!("{f}")).unwrap_or_else(|_| t.clone()),
        // GraphQLConstantValue::String does not record whether the literal was a block string
        r::Value::String(s) => s.block = false,
        _ => {}
    });
    for d in &mut doc.definitions {
        if let r::DefinitionKind::Schema { operation_types, .. } = &mut d.kind {
            operation_types.sort_by_key(|o| match o.operation {
                r::OperationType::Query => 0,
                r::OperationType::Mutation => 1,
                r::OperationType::Subscription => 2,
            });
        }
    }
}

//! C30 — the schema parser reads the schema the specification defines.
//!
//! "For every schema or schema-extension document, the compiler's schema parser accepts it exactly
//! when it is valid SDL within the supported subset, and the types, fields, arguments, type
//! annotations, default values, directives and descriptions it reads equal those a reference
//! implementation reads."
//!
//! Implementation under test: /repo/crates/graphql_schema_parser — `parse_schema` and
//! `parse_schema_extensions` (src/parse_schema.rs), descriptions in src/description.rs.
//!
//! # The supported subset, read off the parser's own `match` arms
//!
//! `parse_schema` (`parse_type_system_definition`, the arms of `match identifier.item`):
//!   `type`, `scalar`, `interface`, `input`, `directive`, `enum`, `union`, `schema` — each with
//!   an optional description in front (string or block string). Every other leading name,
//!   *including `extend`*, is the `_ =>` arm: a diagnostic. So a schema document is inside the
//!   subset iff it consists of TypeSystemDefinitions only (no TypeSystemExtension).
//!
//! `parse_schema_extensions` (`peek_type_system_doc_type` + `parse_type_system_extension`):
//!   everything above, plus `extend type ...` (the only arm of `match identifier.item` after
//!   `extend`; `GraphQLTypeSystemExtension` has the single variant `ObjectTypeExtension`, the
//!   other six are listed there as comments). `extend scalar | interface | union | enum | input |
//!   schema` are the `_ =>` arm: outside the subset.
//!
//! Inside a supported definition the parser has code for every June 2018 production: fields,
//! arguments definitions, input fields, type references, default values, constant directives with
//! arguments, `implements` lists, union members, enum values, directive locations. Whatever it
//! rejects *there* is therefore a disagreement, not "unsupported" (e.g. a block string as a
//! constant value, `union U` without members, the location `SCHEMA`), and is reported.
//!
//! One validation rule is enforced by the parser itself and is mirrored on the reference side as
//! part of "valid SDL": a schema definition names each root operation type at most once
//! (`reassign_or_error`).
//!
//! Inputs outside the subset are expected to be rejected and are not violations; if the parser
//! accepts one, that is reported (`accepts:outside-supported-subset`).
//!
//! # Oracle per text and entry point
//!  1. no panic;
//!  2. accepts <=> (strict reference accepts, the one validation rule holds, document inside the
//!     subset) — `accepts:<named deviation>` / `accepts:unclassified:...` / `rejects:<class>`;
//!  3. on accept: the projection of the parser's tree equals the reference tree (descriptions,
//!     names, interfaces, fields, arguments, types, default values, directives with arguments,
//!     union members, enum values, directive locations, root operation types) —
//!     `tree:<path>` with finer names for string values.
//! For context every violation also states what relay's `parse_schema_document` says about the
//! text (the three-way comparison of DESIGN 1.5).

use crate::common::*;
use crate::iso_proj;
use crate::reference::Relaxations;
use crate::reference::ast as r;
use crate::reference::parser::parse_type_system_document;
use common_lang_types::TextSource;
use intern::string_key::Intern;
use mc_core::*;
use serde_json::json;
use std::panic::{AssertUnwindSafe, catch_unwind};

#[derive(Clone, Copy, PartialEq, Eq, Debug)]
pub enum Entry {
    ParseSchema,
    ParseSchemaExtensions,
}

impl Entry {
    fn name(&self) -> &'static str {
        match self {
            Entry::ParseSchema => "parse_schema",
            Entry::ParseSchemaExtensions => "parse_schema_extensions",
        }
    }
}

/// `None` if inside the supported subset of the entry point, otherwise what is outside.
fn outside_subset(doc: &r::TypeSystemDocument, entry: Entry) -> Option<String> {
    for d in &doc.definitions {
        if d.extension {
            let kw = d.kind.keyword();
            match entry {
                Entry::ParseSchema => return Some(format!("extend {kw}")),
                Entry::ParseSchemaExtensions if kw != "type" => return Some(format!("extend {kw}")),
                _ => {}
            }
        }
    }
    None
}

/// The one validation rule the parser enforces (see module comment).
fn root_operation_types_unique(doc: &r::TypeSystemDocument) -> bool {
    doc.definitions.iter().all(|d| match &d.kind {
        r::DefinitionKind::Schema { operation_types, .. } => {
            let mut seen = vec![];
            operation_types.iter().all(|o| {
                let fresh = !seen.contains(&o.operation);
                seen.push(o.operation);
                fresh
            })
        }
        _ => true,
    })
}

fn run_parser(text: &str, entry: Entry) -> Result<Result<r::TypeSystemDocument, String>, String> {
    let ts = TextSource { relative_path_to_source_file: "schema.graphql".intern().into(), span: None };
    catch_unwind(AssertUnwindSafe(|| match entry {
        Entry::ParseSchema => graphql_schema_parser::parse_schema(text, ts).map(|d| iso_proj::type_system_document(&d, text)).map_err(|e| e.0.message.clone()),
        Entry::ParseSchemaExtensions => graphql_schema_parser::parse_schema_extensions(text, ts).map(|d| iso_proj::type_system_extension_document(&d, text)).map_err(|e| e.0.message.clone()),
    }))
    .map_err(|p| panic_message(&*p))
}

fn relay_says(text: &str) -> &'static str {
    match catch_unwind(AssertUnwindSafe(|| graphql_syntax::parse_schema_document(text, common::SourceLocationKey::Generated).is_ok())) {
        Ok(true) => "relay accepts",
        Ok(false) => "relay rejects",
        Err(_) => "relay panics",
    }
}

/// Names for "the reference accepts (inside the subset), the parser rejects".
fn reject_signatures(text: &str, reference: &r::TypeSystemDocument, message: &str) -> Vec<String> {
    let mut out = vec![];
    if has_int_outside_i64(text) {
        out.push("rejects:int-value-outside-i64".to_string());
    }
    let mut copy = reference.clone();
    let block_value = std::cell::Cell::new(false);
    map_values_in_type_system(&mut copy, &|v| {
        if let r::Value::String(s) = v {
            if s.block {
                block_value.set(true);
            }
        }
    });
    if block_value.get() {
        out.push("rejects:block-string-as-constant-value".to_string());
    }
    for d in &reference.definitions {
        match &d.kind {
            r::DefinitionKind::Union { members, .. } if members.is_empty() => out.push("rejects:union-without-members".to_string()),
            r::DefinitionKind::Directive { locations, .. } if locations.iter().any(|l| l == "SCHEMA") => out.push("rejects:directive-location-SCHEMA".to_string()),
            _ => {}
        }
    }
    out.sort();
    out.dedup();
    if out.is_empty() {
        out.push(format!("rejects:{}", normalise_message(message)));
    }
    out
}

type Reference = Result<r::TypeSystemDocument, crate::reference::parser::SyntaxError>;

/// "valid SDL" for C30 is the June 2018 type-system grammar plus the four additions of the October 2021
/// edition that concern SDL (C30 does not name an edition, and the parser has explicit code for each of
/// them: `repeatable`, `implements` on interfaces, the VARIABLE_DEFINITION location, a description on
/// `schema`). Everything else in `Relaxations` stays a deviation.
fn valid_sdl() -> Relaxations {
    Relaxations { interface_implements_interfaces: true, repeatable_directive_definition: true, directive_location_variable_definition: true, description_on_schema_definition: true, ..Relaxations::none() }
}

/// "valid SDL": the grammar (and, in `check_entry`, the one mirrored validation rule)
fn reference(text: &str, rx: &Relaxations) -> Reference {
    parse_type_system_document(text, rx).map(|mut d| {
        iso_proj::canonicalise_reference(&mut d);
        d
    })
}

/// Both entry points on one text (the strict reference parse is shared).
pub fn check_both(text: &str) -> Vec<TextOutcome> {
    let strict = reference(text, &valid_sdl());
    vec![check_entry(text, Entry::ParseSchema, strict.clone()), check_entry(text, Entry::ParseSchemaExtensions, strict)]
}

pub fn check(text: &str, entry: Entry) -> TextOutcome {
    check_entry(text, entry, reference(text, &valid_sdl()))
}

fn check_entry(text: &str, entry: Entry, strict: Reference) -> TextOutcome {
    let mut out = TextOutcome::default();
    let parsed = match run_parser(text, entry) {
        Ok(r) => r,
        Err(m) => {
            out.violations.push((format!("panic:{}", mask_digits(&m)), format!("{} panicked: {m} ({})", entry.name(), relay_says(text)), 0));
            return out;
        }
    };
    let reference = |rx: &Relaxations| reference(text, &rx.plus(valid_sdl()));
    // An integer literal outside i64 is outside the supported subset (GraphQLConstantValue::Int is an i64; the
    // grammar has no range): such a text may be rejected, but must not be accepted with the literal dropped.
    let big_int = has_int_outside_i64(text);
    out.reference_accepts = strict.is_ok();
    out.implementation_accepts = parsed.is_ok();
    match (strict, parsed) {
        (Ok(reference), parsed) => {
            out.tree_hash = Some(hash64(&serde_json::to_string(&reference).unwrap()));
            let outside = outside_subset(&reference, entry);
            let valid = root_operation_types_unique(&reference);
            match (parsed, outside, valid) {
                // inside the subset, valid: must be accepted with an equal tree
                (Ok(tree), None, true) => {
                    if let Some(d) = difference(&reference, &tree) {
                        out.violations.push((tree_signature("tree", &d), format!("{}: the tree differs from the reference at {}: reference {} / parser {} ({})", entry.name(), d.path, d.reference, d.implementation, relay_says(text)), 0));
                    }
                }
                (Err(_), None, true) if big_int => {}
                (Err(message), None, true) => {
                    let sigs = reject_signatures(text, &reference, &message);
                    let rank = (sigs.len() > 1) as u8;
                    for sig in sigs {
                        out.violations.push((sig, format!("{}: valid SDL inside the supported subset is rejected: {message} ({})", entry.name(), relay_says(text)), rank));
                    }
                }
                // expected rejections
                (Err(_), _, _) => {}
                (Ok(_), Some(what), _) => out.violations.push(("accepts:outside-supported-subset".to_string(), format!("{}: accepts `{what}`, for which it has no match arm ({})", entry.name(), relay_says(text)), 0)),
                (Ok(_), None, false) => out.violations.push(("accepts:root-operation-type-named-twice".to_string(), format!("{}: accepts a schema definition that names a root operation type twice ({})", entry.name(), relay_says(text)), 0)),
            }
        }
        (Err(e), Ok(tree)) => match explaining_relaxations(&|rx| reference(rx).is_ok()) {
            Some(rx) => {
                let names = rx.names();
                let relaxed = reference(&rx).expect("accepted a moment ago");
                let outside = outside_subset(&relaxed, entry);
                for n in &names {
                    let together = if names.len() > 1 { format!(" (together with {:?})", names.iter().filter(|m| m != &n).collect::<Vec<_>>()) } else { String::new() };
                    out.violations.push((
                        format!("accepts:{n}"),
                        format!("{}: accepts a text the SDL grammar rejects (at token {}, in {}, found {}); named deviation: {n}{together} ({})", entry.name(), e.token_index, e.production, e.found, relay_says(text)),
                        (names.len() > 1 || outside.is_some()) as u8,
                    ));
                }
                if let Some(what) = outside {
                    out.violations.push(("accepts:outside-supported-subset".to_string(), format!("{}: accepts `{what}`, for which it has no match arm ({})", entry.name(), relay_says(text)), 1));
                }
                if let Some(d) = difference(&relaxed, &tree) {
                    out.violations.push((tree_signature("tree", &d), format!("{}: the tree differs from the (relaxed: {names:?}) reference at {}: reference {} / parser {}", entry.name(), d.path, d.reference, d.implementation), 1));
                }
            }
            None => {
                let sig = if has_int_outside_i64(text) { "accepts:int-value-outside-i64-skipped".to_string() } else { unclassified_accept_signature(&e) };
                out.violations.push((sig, format!("{}: accepts a text the June 2018 grammar rejects (at token {}, in {}, found {}); no named deviation explains it ({})", entry.name(), e.token_index, e.production, e.found, relay_says(text)), 0));
            }
        },
        (Err(e), Err(_)) => out.rejected_late = e.token_index >= 2,
    }
    out
}

fn replay(path: &std::path::Path) -> i32 {
    let v = read_replay(path);
    let text = v["case"]["text"].as_str().unwrap_or_else(|| machinery_error("replay lacks case.text"));
    let entry = if v["case"]["entry"].as_str() == Some("parse_schema_extensions") { Entry::ParseSchemaExtensions } else { Entry::ParseSchema };
    let (o1, o2) = (check(text, entry), check(text, entry));
    if o1.violations != o2.violations {
        machinery_error("replay is not deterministic");
    }
    println!("text ({}): {text:?}", entry.name());
    println!("reference (June 2018) accepts: {}   parser accepts: {}   {}", o1.reference_accepts, o1.implementation_accepts, relay_says(text));
    for (sig, what, _) in &o1.violations {
        println!("  {sig} :: {what}");
    }
    let wanted = v["signature"].as_str().unwrap_or("");
    if o1.violations.iter().any(|(s, _, _)| wanted.is_empty() || s == wanted) {
        println!("VIOLATION property=C30 replay={}", path.display());
        return 1;
    }
    println!("REPLAY: signature {wanted:?} not observed");
    0
}

pub fn main(args: &Args) -> i32 {
    quiet_panics();
    if let Some(path) = &args.replay {
        return replay(path);
    }
    let mut ev = Evidence::new(args, "exploration");
    let env = |k: &str, d: usize| std::env::var(k).ok().and_then(|s| s.parse().ok()).unwrap_or(d);
    let rich = args.tier == Tier::Thorough;
    let p = plan(DocKind::TypeSystem, env("C30_BUDGET", args.tier.pick(10, 12)), env("C30_EDIT_BUDGET", args.tier.pick(9, 10)), env("C30_RELAXED_BUDGET", args.tier.pick(10, 11)), rich);
    for s in &p.strict_sentences {
        let text = crate::sentences::render(s);
        if parse_type_system_document(&text, &Relaxations::none()).is_err() {
            machinery_error(&format!("reference enumerator and reference parser disagree on {text:?}"));
        }
    }
    let seen = Seen::new();
    let mut lanes = run_plan(&p, args.jobs, &seen, 2, &check_both);
    let t_ext = lanes.pop().unwrap();
    let t_schema = lanes.pop().unwrap();

    let totals = [("parse_schema", &t_schema), ("parse_schema_extensions", &t_ext)];
    let verdict = verdict_from("C30", &totals, &|label, text| json!({"text": text, "entry": label}));
    let (code, n_new, known) = verdict.conclude("gql_mc/c30");
    ev.violations = n_new as i64;
    let sum = |f: &dyn Fn(&Totals) -> u64| f(&t_schema) + f(&t_ext);
    let accepted = sum(&|t| t.both_accepted);
    let samples: Vec<String> = pick_samples(&p.strict_sentences.iter().map(|s| crate::sentences::render(s)).collect::<Vec<_>>());
    let per = |t: &Totals| json!({"texts": t.evaluations, "reference_accepted": t.reference_accepted, "parser_accepted": t.implementation_accepted, "both_accepted_trees_compared": t.both_accepted, "distinct_reference_trees": t.tree_hashes.len()});
    ev.set("evaluations", sum(&|t| t.evaluations))
        .set("distinct_nontrivial", sum(&|t| t.nontrivial))
        .set(
            "rule",
            "evaluations = distinct texts executed, once per entry point (parse_schema, parse_schema_extensions): sentences of the reference type-system grammar up to the token budget (June 2018, plus one named relaxation at a time as inputs only), every token prefix alone and extended by each alphabet token, separator variants of every sentence, single-token replace/insert/delete edits of every sentence up to the edit budget; non-trivial = accepted by the reference or by the parser, or rejected by the reference at token index >= 2",
        )
        .set("exhaustive", true)
        .set("token_budget", p.budget)
        .set("edit_budget", p.edit_budget)
        .set("grammar_sentences", p.strict_sentences.len())
        .set("relaxed_grammar_sentences", p.n_relaxed_only_sentences)
        .set("token_prefixes", p.n_prefixes)
        .set("token_alphabet", crate::mutate::alphabet().len())
        .set("parse_schema", per(&t_schema))
        .set("parse_schema_extensions", per(&t_ext))
        .set("outcomes", t_schema.tree_hashes.len() + t_ext.tree_hashes.len())
        .set("violating_texts", sum(&|t| t.violating_texts))
        .set("violation_signatures", signature_counts(&totals))
        .set("known_findings_reobserved", json!(known))
        .set("samples", json!(samples));
    ev.assume("the reference lexer/parser in mc/gql_mc/src/reference is a faithful rendering of the June 2018 grammar (no second GraphQL implementation is available offline); its enumerator and its parser are cross-checked on every sentence");
    ev.assume("supported subset as written in mc/gql_mc/src/c30.rs: all type system definitions; of the extensions only `extend type`, and only through parse_schema_extensions");
    ev.assume("the order of root operation types inside `schema { }` is not represented by the parser's tree and is not compared");
    ev.write();
    if accepted < 300 {
        machinery_error(&format!("vacuous: only {accepted} texts accepted by both sides"));
    }
    println!(
        "gql_mc C30: {} sentences (+{} relaxed) {} prefixes; parse_schema {} texts ({} accepted by both); parse_schema_extensions {} texts ({} accepted by both); {} new violation signature(s), known {:?}",
        p.strict_sentences.len(),
        p.n_relaxed_only_sentences,
        p.n_prefixes,
        t_schema.evaluations,
        t_schema.both_accepted,
        t_ext.evaluations,
        t_ext.both_accepted,
        n_new,
        known
    );
    code
}

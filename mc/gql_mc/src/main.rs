//! gql_mc — bounded-exhaustive comparison of the two GraphQL parsers in /repo with a reference
//! implementation of the June 2018 grammar written for this purpose (src/reference):
//! C29 (relay `graphql-syntax`: executable + schema documents, schema printer round trip),
//! C30 (isograph `graphql_schema_parser`: schema and schema-extension documents).

mod c29;
mod c30;
mod common;
mod sentences;
mod iso_proj;
mod mutate;
mod par;
mod reference;
mod relay_proj;

use mc_core::*;

fn main() {
    let args = Args::parse();
    let code = match args.property.as_str() {
        "C29" => c29::main(&args),
        "C30" => c30::main(&args),
        _ => machinery_error("gql_mc serves C29 C30"),
    };
    std::process::exit(code);
}

//! The reference grammar as an *enumerator*: every sentence up to a token budget (same scheme as
//! mc_core::isogen). One function per production of appendix B; terminal alphabets are tiny (one
//! name per role) because the point is every *shape*; richer terminals (keyword-like names, every
//! number / string / block-string form) are brought in by the token alphabet in `mutate.rs`, which
//! substitutes and inserts them at every position of every sentence.
//!
//! `Gen::new(Relaxations::none(), ..)` enumerates the June 2018 grammar. With relaxations switched
//! on, the same functions also enumerate the named deviations (see reference/mod.rs), so that each
//! of them is reached by some input; those sentences are *inputs only* and are judged, like every
//! other text, by the strict reference parser.

use crate::reference::Relaxations;
use std::collections::BTreeMap;
use std::rc::Rc;

pub type Sentence = Vec<&'static str>;
pub type Lang = Rc<Vec<Sentence>>;

fn lang(v: Vec<Sentence>) -> Lang {
    Rc::new(v)
}
fn lit(s: &'static str) -> Lang {
    lang(vec![vec![s]])
}
fn lits(ss: &[&'static str]) -> Lang {
    lang(ss.iter().map(|s| vec![*s]).collect())
}
fn words(ws: &[&'static str]) -> Lang {
    lang(vec![ws.to_vec()])
}
fn eps() -> Lang {
    lang(vec![vec![]])
}
fn alt(parts: &[&Lang]) -> Lang {
    let mut out = vec![];
    for p in parts {
        out.extend(p.iter().cloned());
    }
    lang(out)
}
fn opt(a: &Lang) -> Lang {
    alt(&[&eps(), a])
}
fn seq2(a: &Lang, b: &Lang, budget: usize) -> Lang {
    let mut out = vec![];
    for x in a.iter() {
        if x.len() > budget {
            continue;
        }
        for y in b.iter() {
            if x.len() + y.len() <= budget {
                let mut z = x.clone();
                z.extend(y.iter().copied());
                out.push(z);
            }
        }
    }
    lang(out)
}
fn seq(parts: &[&Lang], budget: usize) -> Lang {
    let mut acc = eps();
    for p in parts {
        acc = seq2(&acc, p, budget);
    }
    acc
}
/// one to `max` repetitions
fn rep(a: &Lang, max: usize, budget: usize) -> Lang {
    let mut out: Vec<Sentence> = vec![];
    let mut cur = a.clone();
    for _ in 0..max {
        out.extend(cur.iter().filter(|s| s.len() <= budget).cloned());
        cur = seq2(&cur, a, budget);
        if cur.is_empty() {
            break;
        }
    }
    lang(out)
}

pub fn render(s: &[&str]) -> String {
    s.join(" ")
}

pub struct Gen {
    memo: BTreeMap<(&'static str, usize, usize), Lang>,
    pub relax: Relaxations,
    /// a second terminal for values / types (thorough tier)
    pub rich: bool,
}

impl Gen {
    pub fn new(relax: Relaxations, rich: bool) -> Self {
        Gen { memo: BTreeMap::new(), relax, rich }
    }

    fn memo(&mut self, key: &'static str, budget: usize, extra: usize, f: impl FnOnce(&mut Self) -> Lang) -> Lang {
        if let Some(l) = self.memo.get(&(key, budget, extra)) {
            return l.clone();
        }
        let l = f(self);
        let mut v: Vec<Sentence> = l.iter().filter(|s| s.len() <= budget).cloned().collect();
        v.sort();
        v.dedup();
        let l = lang(v);
        self.memo.insert((key, budget, extra), l.clone());
        l
    }

    // ---------------------------------------------------------------------------------------
    // shared: Type, Value, Arguments, Directives
    // ---------------------------------------------------------------------------------------

    /// Type : NamedType | ListType | NonNullType
    pub fn type_reference(&mut self, budget: usize) -> Lang {
        self.memo("type", budget, 0, |g| {
            let named = seq(&[&lit("T"), &opt(&lit("!"))], budget);
            let list = seq(&[&lit("["), &named, &lit("]"), &opt(&lit("!"))], budget);
            if g.rich {
                let list2 = seq(&[&lit("["), &list, &lit("]"), &opt(&lit("!"))], budget);
                alt(&[&named, &list, &list2])
            } else {
                alt(&[&named, &list])
            }
        })
    }

    /// Value[Const]
    pub fn value(&mut self, budget: usize, is_const: bool, depth: usize) -> Lang {
        self.memo(if is_const { "cvalue" } else { "value" }, budget, depth, |g| {
            let mut leaves: Vec<Sentence> = vec![vec!["1"], vec!["\"s\""], vec!["E"]];
            if g.rich {
                leaves.extend([vec!["true"], vec!["null"], vec!["-1.5e3"], vec!["\"\"\"b\"\"\""]]);
            }
            if !is_const {
                leaves.push(vec!["$", "v"]);
            }
            let leaves = lang(leaves);
            if depth == 0 || budget < 2 {
                return leaves;
            }
            let inner = g.value(budget - 2, is_const, depth - 1);
            // ListValue : [ ] | [ Value+ ]
            let list = alt(&[&words(&["[", "]"]), &seq(&[&lit("["), &rep(&inner, 2, budget - 2), &lit("]")], budget)]);
            // ObjectValue : { } | { ObjectField+ }      ObjectField : Name : Value
            let field = seq(&[&words(&["k", ":"]), &inner], budget.saturating_sub(2));
            let object = alt(&[&words(&["{", "}"]), &seq(&[&lit("{"), &rep(&field, 2, budget - 2), &lit("}")], budget)]);
            alt(&[&leaves, &list, &object])
        })
    }

    /// Arguments[Const] : ( Argument+ )        Argument : Name : Value
    pub fn arguments(&mut self, budget: usize, is_const: bool) -> Lang {
        self.memo(if is_const { "cargs" } else { "args" }, budget, 0, |g| {
            if budget < 5 {
                return lang(vec![]);
            }
            let v = g.value(budget - 4, is_const, 1);
            let arg = seq(&[&words(&["k", ":"]), &v], budget - 2);
            seq(&[&lit("("), &rep(&arg, 2, budget - 2), &lit(")")], budget)
        })
    }

    /// Directives[Const] : Directive+          Directive : @ Name Arguments?
    pub fn directives(&mut self, budget: usize, is_const: bool) -> Lang {
        self.memo(if is_const { "cdirs" } else { "dirs" }, budget, 0, |g| {
            let args = g.arguments(budget.saturating_sub(2), is_const);
            let one = seq(&[&words(&["@", "d"]), &opt(&args)], budget);
            rep(&one, 2, budget)
        })
    }

    // ---------------------------------------------------------------------------------------
    // executable documents
    // ---------------------------------------------------------------------------------------

    /// VariableDefinitions : ( VariableDefinition+ )
    /// VariableDefinition : Variable : Type DefaultValue?
    pub fn variable_definitions(&mut self, budget: usize) -> Lang {
        self.memo("vardefs", budget, 0, |g| {
            if budget < 6 {
                return lang(vec![]);
            }
            let ty = g.type_reference(budget - 5);
            let default = seq(&[&lit("="), &g.value(budget.saturating_sub(7), true, 1)], budget);
            let mut def = seq(&[&words(&["$", "v", ":"]), &ty, &opt(&default)], budget - 2);
            if g.relax.variable_definition_directives {
                let d = g.directives(budget.saturating_sub(6), true);
                def = alt(&[&def, &seq(&[&def, &d], budget - 2)]);
            }
            if g.relax.variable_definition_directives_non_const {
                def = alt(&[&def, &seq(&[&def, &words(&["@", "d", "(", "k", ":", "$", "v", ")"])], budget - 2)]);
            }
            seq(&[&lit("("), &rep(&def, 2, budget - 2), &lit(")")], budget)
        })
    }

    /// SelectionSet : { Selection+ }
    pub fn selection_set(&mut self, budget: usize, depth: usize) -> Lang {
        self.memo("selset", budget, depth, |g| {
            if budget < 3 {
                return lang(vec![]);
            }
            let sel = g.selection(budget - 2, depth);
            seq(&[&lit("{"), &rep(&sel, 3, budget - 2), &lit("}")], budget)
        })
    }

    /// Selection : Field | FragmentSpread | InlineFragment
    pub fn selection(&mut self, budget: usize, depth: usize) -> Lang {
        self.memo("sel", budget, depth, |g| {
            let args = opt(&g.arguments(budget.saturating_sub(1), false));
            let dirs = opt(&g.directives(budget.saturating_sub(1), false));
            let sub = if depth > 0 { g.selection_set(budget.saturating_sub(1), depth - 1) } else { lang(vec![]) };
            // Field : Alias? Name Arguments? Directives? SelectionSet?
            let head = alt(&[&lit("a"), &words(&["x", ":", "a"])]);
            let field = seq(&[&head, &args, &dirs, &opt(&sub)], budget);
            // FragmentSpread : ... FragmentName Directives?
            let spread = seq(&[&words(&["...", "F"]), &dirs], budget);
            // InlineFragment : ... TypeCondition? Directives? SelectionSet
            let inline = seq(&[&lit("..."), &opt(&words(&["on", "T"])), &dirs, &sub], budget);
            alt(&[&field, &spread, &inline])
        })
    }

    /// OperationDefinition : SelectionSet | OperationType Name? VariableDefinitions? Directives? SelectionSet
    pub fn operation_definition(&mut self, budget: usize) -> Lang {
        self.memo("op", budget, 0, |g| {
            let set = g.selection_set(budget, 2);
            let set_small = g.selection_set(budget.saturating_sub(1), 2);
            let vd = opt(&g.variable_definitions(budget.saturating_sub(4)));
            let dirs = opt(&g.directives(budget.saturating_sub(4), false));
            let full = seq(&[&lit("query"), &opt(&lit("Q")), &vd, &dirs, &set_small], budget);
            // the other two operation types in their plain shapes only
            let others = seq(&[&lits(&["mutation", "subscription"]), &opt(&lit("Q")), &g.selection_set(budget.saturating_sub(1), 0)], budget);
            alt(&[&set, &full, &others])
        })
    }

    /// FragmentDefinition : fragment FragmentName TypeCondition Directives? SelectionSet
    pub fn fragment_definition(&mut self, budget: usize) -> Lang {
        self.memo("frag", budget, 0, |g| {
            let dirs = opt(&g.directives(budget.saturating_sub(7), false));
            let set = g.selection_set(budget.saturating_sub(4), 1);
            let mut names = vec!["F"];
            if g.relax.fragment_named_on {
                names.push("on");
            }
            seq(&[&lit("fragment"), &lits(&names), &words(&["on", "T"]), &dirs, &set], budget)
        })
    }

    /// Document : Definition+    (executable definitions; at most two)
    pub fn executable_documents(&mut self, budget: usize) -> Vec<Sentence> {
        let def = alt(&[&self.operation_definition(budget), &self.fragment_definition(budget)]);
        let mut out: Vec<Sentence> = rep(&def, 2, budget).iter().cloned().collect();
        if self.relax.empty_document {
            out.push(vec![]);
        }
        out.sort();
        out.dedup();
        out
    }

    // ---------------------------------------------------------------------------------------
    // type system documents
    // ---------------------------------------------------------------------------------------

    /// Description : StringValue
    fn description(&self) -> Lang {
        lits(&["\"d\"", "\"\"\"b\"\"\""])
    }

    /// InputValueDefinition : Description? Name : Type DefaultValue? Directives[Const]?
    pub fn input_value_definition(&mut self, budget: usize) -> Lang {
        self.memo("inputvalue", budget, 0, |g| {
            if budget < 3 {
                return lang(vec![]);
            }
            let ty = g.type_reference(budget - 2);
            let default = seq(&[&lit("="), &g.value(budget.saturating_sub(4), true, 1)], budget);
            let dirs = g.directives(budget.saturating_sub(3), true);
            seq(&[&opt(&g.description()), &words(&["k", ":"]), &ty, &opt(&default), &opt(&dirs)], budget)
        })
    }

    /// ArgumentsDefinition : ( InputValueDefinition+ )
    pub fn arguments_definition(&mut self, budget: usize) -> Lang {
        self.memo("argsdef", budget, 0, |g| {
            if budget < 5 {
                return lang(vec![]);
            }
            let iv = g.input_value_definition(budget - 2);
            seq(&[&lit("("), &rep(&iv, 2, budget - 2), &lit(")")], budget)
        })
    }

    /// FieldsDefinition : { FieldDefinition+ }
    /// FieldDefinition : Description? Name ArgumentsDefinition? : Type Directives[Const]?
    pub fn fields_definition(&mut self, budget: usize) -> Lang {
        self.memo("fieldsdef", budget, 0, |g| {
            if budget < 5 {
                return lang(vec![]);
            }
            let inner = budget - 2;
            let args = opt(&g.arguments_definition(inner.saturating_sub(3)));
            let ty = g.type_reference(inner.saturating_sub(2));
            let dirs = opt(&g.directives(inner.saturating_sub(3), true));
            let mut desc = opt(&g.description());
            if g.relax.second_string_before_definition {
                desc = alt(&[&desc, &words(&["\"d\"", "\"e\""])]);
            }
            let field = seq(&[&desc, &lit("a"), &args, &lit(":"), &ty, &dirs], inner);
            seq(&[&lit("{"), &rep(&field, 2, inner), &lit("}")], budget)
        })
    }

    /// ImplementsInterfaces : implements `&`? NamedType | ImplementsInterfaces & NamedType
    pub fn implements_interfaces(&mut self, budget: usize) -> Lang {
        self.memo("implements", budget, 0, |_| seq(&[&lit("implements"), &opt(&lit("&")), &lit("I"), &opt(&words(&["&", "J"]))], budget))
    }

    /// { OperationTypeDefinition+ }
    fn operation_type_definitions(&mut self, budget: usize) -> Lang {
        let one = seq(&[&lits(&["query", "mutation", "subscription"]), &words(&[":", "T"])], budget);
        let two = words(&["query", ":", "T", "mutation", ":", "T"]);
        // (semantically invalid, syntactically a sentence: the same operation type twice)
        let dup = words(&["query", ":", "T", "query", ":", "T"]);
        seq(&[&lit("{"), &alt(&[&one, &two, &dup]), &lit("}")], budget)
    }

    /// the part of a type definition after its keyword, with `required` telling whether at least
    /// one optional part must be present (extensions)
    fn type_body(&mut self, keyword: &'static str, budget: usize, extension: bool) -> Lang {
        let b = budget.saturating_sub(2);
        let dirs = self.directives(b, true);
        let empty_ok = !extension || self.relax.extension_without_body;
        let head = words(&[keyword, "T"]);
        let bodies: Lang = match keyword {
            // ScalarTypeDefinition : Description? scalar Name Directives[Const]?
            "scalar" => dirs.clone(),
            // ObjectTypeDefinition : Description? type Name ImplementsInterfaces? Directives[Const]? FieldsDefinition?
            "type" => {
                let all = seq(&[&opt(&self.implements_interfaces(b)), &opt(&dirs), &opt(&self.fields_definition(b))], b);
                lang(all.iter().filter(|s| !s.is_empty()).cloned().collect())
            }
            // InterfaceTypeDefinition : Description? interface Name Directives[Const]? FieldsDefinition?
            "interface" => {
                let imp = if self.relax.interface_implements_interfaces { opt(&self.implements_interfaces(b)) } else { eps() };
                let all = seq(&[&imp, &opt(&dirs), &opt(&self.fields_definition(b))], b);
                lang(all.iter().filter(|s| !s.is_empty()).cloned().collect())
            }
            // UnionTypeDefinition : Description? union Name Directives[Const]? UnionMemberTypes?
            // UnionMemberTypes : = `|`? NamedType | UnionMemberTypes | NamedType
            "union" => {
                let members = seq(&[&lit("="), &opt(&lit("|")), &lit("A"), &opt(&words(&["|", "B"]))], b);
                let all = seq(&[&opt(&dirs), &opt(&members)], b);
                lang(all.iter().filter(|s| !s.is_empty()).cloned().collect())
            }
            // EnumTypeDefinition : Description? enum Name Directives[Const]? EnumValuesDefinition?
            // EnumValueDefinition : Description? EnumValue Directives[Const]?
            "enum" => {
                let mut names = vec!["E"];
                if self.relax.enum_value_definition_true_false_null {
                    names.extend(["true", "null"]);
                }
                let value = seq(&[&opt(&self.description()), &lits(&names), &opt(&self.directives(b.saturating_sub(3), true))], b.saturating_sub(2));
                let values = seq(&[&lit("{"), &rep(&value, 2, b.saturating_sub(2)), &lit("}")], b);
                let all = seq(&[&opt(&dirs), &opt(&values)], b);
                lang(all.iter().filter(|s| !s.is_empty()).cloned().collect())
            }
            // InputObjectTypeDefinition : Description? input Name Directives[Const]? InputFieldsDefinition?
            "input" => {
                let iv = self.input_value_definition(b.saturating_sub(2));
                let fields = seq(&[&lit("{"), &rep(&iv, 2, b.saturating_sub(2)), &lit("}")], b);
                let all = seq(&[&opt(&dirs), &opt(&fields)], b);
                lang(all.iter().filter(|s| !s.is_empty()).cloned().collect())
            }
            _ => unreachable!(),
        };
        let with_body = seq(&[&head, &bodies], budget);
        if empty_ok { alt(&[&head, &with_body]) } else { with_body }
    }

    /// TypeSystemDefinition | TypeSystemExtension
    pub fn type_system_definition(&mut self, budget: usize) -> Lang {
        self.memo("tsdef", budget, 0, |g| {
            let mut parts: Vec<Lang> = vec![];
            let mut desc = opt(&g.description());
            if g.relax.second_string_before_definition {
                desc = alt(&[&desc, &words(&["\"d\"", "\"e\""])]);
            }
            // TypeDefinition
            for kw in ["scalar", "type", "interface", "union", "enum", "input"] {
                let body = g.type_body(kw, budget, false);
                parts.push(seq(&[&desc, &body], budget));
            }
            // SchemaDefinition : schema Directives[Const]? { OperationTypeDefinition+ }
            let dirs = opt(&g.directives(budget.saturating_sub(6), true));
            let schema = seq(&[&lit("schema"), &dirs, &g.operation_type_definitions(budget)], budget);
            parts.push(schema.clone());
            if g.relax.description_on_schema_definition {
                parts.push(seq(&[&g.description(), &schema], budget));
            }
            // DirectiveDefinition : Description? directive @ Name ArgumentsDefinition? on DirectiveLocations
            // DirectiveLocations : `|`? DirectiveLocation | DirectiveLocations | DirectiveLocation
            let mut first_locations = vec!["QUERY", "FIELD_DEFINITION", "SCHEMA"];
            if g.relax.directive_location_variable_definition {
                first_locations.push("VARIABLE_DEFINITION");
            }
            let locations = seq(&[&opt(&lit("|")), &lits(&first_locations), &opt(&words(&["|", "ENUM_VALUE"]))], budget);
            let at = if g.relax.directive_definition_without_at { opt(&lit("@")) } else { lit("@") };
            let repeatable = if g.relax.repeatable_directive_definition { opt(&lit("repeatable")) } else { eps() };
            parts.push(seq(&[&desc, &lit("directive"), &at, &lit("d"), &opt(&g.arguments_definition(budget.saturating_sub(5))), &repeatable, &lit("on"), &locations], budget));
            // TypeSystemExtension
            let mut ext: Vec<Lang> = vec![];
            for kw in ["scalar", "type", "interface", "union", "enum", "input"] {
                ext.push(g.type_body(kw, budget.saturating_sub(1), true));
            }
            // SchemaExtension : extend schema Directives[Const]? { OperationTypeDefinition+ } | extend schema Directives[Const]
            let sdirs = g.directives(budget.saturating_sub(2), true);
            let sops = g.operation_type_definitions(budget.saturating_sub(2));
            ext.push(seq(&[&lit("schema"), &alt(&[&sdirs, &sops, &seq(&[&sdirs, &sops], budget)])], budget));
            if g.relax.extension_without_body {
                ext.push(lit("schema"));
            }
            let ext_refs: Vec<&Lang> = ext.iter().collect();
            let extension = seq(&[&lit("extend"), &alt(&ext_refs)], budget);
            parts.push(extension.clone());
            if g.relax.description_before_extend {
                parts.push(seq(&[&g.description(), &extension], budget));
            }
            let refs: Vec<&Lang> = parts.iter().collect();
            alt(&refs)
        })
    }

    /// Document : Definition+    (type system definitions and extensions; at most two)
    pub fn type_system_documents(&mut self, budget: usize) -> Vec<Sentence> {
        let def = self.type_system_definition(budget);
        let mut out: Vec<Sentence> = rep(&def, 2, budget).iter().cloned().collect();
        if self.relax.empty_document {
            out.push(vec![]);
        }
        out.sort();
        out.dedup();
        out
    }
}

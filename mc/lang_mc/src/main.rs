//! lang_mc — bounded-exhaustive input exploration of the language front end:
//! C07 (iso literal parser), C31 (diagnostic excerpts), C32 (cursor resolution), C33 (signed files).

mod c07;
mod c31;
mod c32;
mod c33;
mod par;

use mc_core::*;

fn main() {
    let args = Args::parse();
    let code = match args.property.as_str() {
        "C07" => c07::main(&args),
        "C31" => c31::main(&args),
        "C32" => c32::main(&args),
        "C33" => c33::main(&args),
        _ => machinery_error("lang_mc serves C07 C31 C32 C33"),
    };
    std::process::exit(code);
}

//! C07 — the iso literal parser is total and reports well-formed locations.
//!
//! Enumerated: (a) every sentence of the reference grammar (mc_core::isogen) up to N tokens;
//! (b) every token-level prefix of those sentences extended by every token of a 39-token alphabet
//! (keywords, identifiers, every punctuator, strings incl. non-BMP and unterminated, block
//! strings, numbers incl. out-of-range / leading-zero / float forms, a non-ASCII junk character)
//! or by nothing; (c) every single separator deviation of every sentence (one gap replaced by
//! newline, nothing, two spaces, tab, comma). Each text is parsed with and without a
//! `const_export_name`, with the literal placed at offset 0 and at a non-zero offset of its file.

use crate::par::par_map;
use common_lang_types::{Span, TextSource};
use intern::string_key::Intern;
use isograph_lang_parser::parse_iso_literal;
use mc_core::isogen::{self, T};
use mc_core::*;
use serde_json::json;
use std::collections::BTreeSet;
use std::panic::{AssertUnwindSafe, catch_unwind};

/// every `span: Span { start: a, end: b }` in a Debug rendering (embedded spans; the text
/// source's own span is printed as `span: Some(Span ..)` and is not matched)
pub fn spans_in_debug(dbg: &str) -> Vec<(u32, u32)> {
    let pat = "span: Span { start: ";
    let mut out = vec![];
    let mut rest = dbg;
    while let Some(i) = rest.find(pat) {
        rest = &rest[i + pat.len()..];
        let a_end = rest.find(',').unwrap();
        let a: u32 = rest[..a_end].parse().unwrap();
        let e = rest.find(" }").unwrap();
        let b: u32 = rest[a_end + ", end: ".len()..e].parse().unwrap();
        out.push((a, b));
    }
    out
}

#[derive(Debug, Clone)]
pub struct Outcome {
    pub accepted: bool,
    /// (class, description)
    pub failure: Option<(String, String)>,
    pub diag_token_index: Option<usize>,
}

pub fn check_text(text: &str, export: bool, offset: u32) -> Outcome {
    let ts = TextSource { relative_path_to_source_file: "src/f.ts".intern().into(), span: Some(Span::new(offset, offset + text.len() as u32)) };
    let r = catch_unwind(AssertUnwindSafe(|| parse_iso_literal(text.to_string(), "src/f.ts".intern().into(), export.then(|| "foo".to_string()), ts)));
    let len = text.len() as u32;
    let span_ok = |(a, b): (u32, u32)| a <= b && b <= len && text.is_char_boundary(a as usize) && text.is_char_boundary(b as usize);
    match r {
        Err(p) => Outcome { accepted: false, failure: Some(("panic".into(), format!("parser panicked: {}", panic_message(&*p)))), diag_token_index: None },
        Ok(Ok(res)) => {
            let dbg = format!("{res:?}");
            for s in spans_in_debug(&dbg) {
                if !span_ok(s) {
                    return Outcome { accepted: true, failure: Some(("ast-span".into(), format!("AST span {}..{} is outside the literal (len {len}) or not on a char boundary", s.0, s.1))), diag_token_index: None };
                }
            }
            let toks = res.semantic_tokens();
            let mut last_end = 0u32;
            for (i, t) in toks.iter().enumerate() {
                let (a, b) = (t.location.span.start, t.location.span.end);
                if !span_ok((a, b)) {
                    return Outcome { accepted: true, failure: Some(("token-span".into(), format!("semantic token #{i} span {a}..{b} is outside the literal or not on a char boundary"))), diag_token_index: None };
                }
                if a < last_end || a >= b {
                    return Outcome { accepted: true, failure: Some(("token-order".into(), format!("semantic token #{i} span {a}..{b} is empty, overlaps or precedes the previous token (ending at {last_end})"))), diag_token_index: None };
                }
                last_end = b;
            }
            Outcome { accepted: true, failure: None, diag_token_index: None }
        }
        Ok(Err(d)) => {
            let dbg = format!("{d:?}");
            for s in spans_in_debug(&dbg) {
                if !span_ok(s) {
                    return Outcome { accepted: false, failure: Some(("diag-span".into(), format!("diagnostic span {}..{} is outside the literal (len {len}) or not on a char boundary: {}", s.0, s.1, d.0.message))), diag_token_index: None };
                }
            }
            Outcome { accepted: false, failure: None, diag_token_index: spans_in_debug(&dbg).first().map(|s| text[..(s.0 as usize).min(text.len())].split_whitespace().count()) }
        }
    }
}

pub fn inputs(budget: usize, rich: bool) -> (Vec<String>, usize, usize) {
    let mut g = isogen::Gen::new(rich);
    let sentences = g.literals(budget);
    let mut set: BTreeSet<String> = BTreeSet::new();
    let mut prefixes: BTreeSet<Vec<T>> = BTreeSet::new();
    for s in &sentences {
        set.insert(isogen::render(s));
        for i in 0..=s.len() {
            prefixes.insert(s[..i].to_vec());
        }
        // single separator deviations
        let toks: Vec<usize> = s.iter().enumerate().filter(|(_, t)| matches!(t, T::S(_))).map(|(i, _)| i).collect();
        for gap in 1..toks.len() {
            for alt in ["\n", "", "  ", "\t", ",", " , "] {
                let mut out = String::new();
                let mut nl = false;
                let mut seen = 0;
                for t in s {
                    match t {
                        T::Nl => nl = true,
                        T::S(x) => {
                            if seen > 0 {
                                out.push_str(if seen == gap { alt } else if nl { "\n" } else { " " });
                            }
                            out.push_str(x);
                            nl = false;
                            seen += 1;
                        }
                    }
                }
                set.insert(out);
            }
        }
    }
    // (d) every value token of every sentence replaced by each other value form (variables, objects, lists,
    // enum-like names, null, floats, out-of-range numbers) — also in positions where only some forms are meant
    // to appear (directive arguments, default values)
    let value_forms = ["$ v", "{ a : 1 }", "{ a : $ v }", "[ 1 ]", "[ ]", "RED", "null", "1.5", "-1", "99999999999999999999", "\"é𝄞\"", "\"\"\"b\"\"\"", "true", "{ }"];
    for s in &sentences {
        for (i, t) in s.iter().enumerate() {
            let T::S(tok) = t else { continue };
            let is_value = matches!(*tok, "true" | "null" | "1" | "-1" | "0" | "\"s\"" | "\"é\"") || (*tok == "v" && i > 0 && s[i - 1] == T::S("$") && s.get(i + 1) != Some(&T::S(":")));
            if !is_value {
                continue;
            }
            let (lo, hi) = if *tok == "v" { (i - 1, i + 1) } else { (i, i + 1) };
            let before = isogen::render(&s[..lo].to_vec());
            let after = isogen::render(&s[hi..].to_vec());
            for f in value_forms {
                set.insert(format!("{before}{}{f} {after}", if before.is_empty() || before.ends_with('\n') { "" } else { " " }));
            }
        }
    }
    // (e) witnesses beyond the token budget (directives with arguments on selections, declarations and
    // entrypoints; nested values): each with every value token replaced as in (d) and every single token
    // replaced by each alphabet token
    let witnesses = [
        "field Query . foo { foo @ loadable ( lazyLoadArtifact : true ) , }",
        "field Query . foo { foo ( x : 1 ) @ loadable ( lazyLoadArtifact : true , x : \"s\" ) , }",
        "field Query . foo { foo @ updatable ( x : 1 ) { foo , } , }",
        "field Query . foo @ component ( x : 1 ) { foo , }",
        "entrypoint Query . foo @ lazyLoad ( x : true )",
        "pointer Query . foo ( $ v : Int = 1 ) to [ Int ! ] @ d ( x : \"s\" ) { foo ( x : { a : { a : 1 } } ) , }",
    ];
    let alpha_tokens = isogen::alphabet();
    for w in witnesses {
        let toks: Vec<&str> = w.split(' ').collect();
        set.insert(w.to_string());
        for i in 0..toks.len() {
            let is_value = matches!(toks[i], "true" | "1" | "\"s\"");
            let join = |mid: &str| {
                let mut v: Vec<&str> = toks[..i].to_vec();
                if !mid.is_empty() {
                    v.push(mid);
                }
                v.extend_from_slice(&toks[i + 1..]);
                v.join(" ")
            };
            if is_value {
                for f in value_forms {
                    set.insert(join(f));
                }
            }
            for a in &alpha_tokens {
                set.insert(join(a));
            }
            set.insert(join(""));
        }
    }
    let alpha = isogen::alphabet();
    for p in &prefixes {
        let base = isogen::render(p);
        for a in &alpha {
            set.insert(if base.is_empty() { a.to_string() } else if base.ends_with('\n') { format!("{base}{a}") } else { format!("{base} {a}") });
        }
        set.insert(base);
    }
    (set.into_iter().collect(), sentences.len(), prefixes.len())
}

pub fn main(args: &Args) -> i32 {
    quiet_panics();
    let mut ev = Evidence::new(args, "exploration");
    if let Some(path) = &args.replay {
        let v = read_replay(path);
        let text = v["case"]["text"].as_str().unwrap_or_else(|| machinery_error("replay lacks text"));
        let export = v["case"]["export"].as_bool().unwrap_or(true);
        let o1 = check_text(text, export, 0);
        let o2 = check_text(text, export, 1000);
        println!("text: {text:?}\naccepted: {}\nat offset 0: {:?}\nat offset 1000: {:?}", o1.accepted, o1.failure, o2.failure);
        if o1.failure.is_some() || o2.failure.is_some() {
            println!("VIOLATION property=C07 replay={}", path.display());
            return 1;
        }
        println!("REPLAY: no failure");
        return 0;
    }
    let budget = std::env::var("C07_BUDGET").ok().and_then(|s| s.parse().ok()).unwrap_or(args.tier.pick(12, 14));
    let (texts, n_sentences, n_prefixes) = inputs(budget, args.tier == Tier::Thorough);
    // the rich alphabet at a smaller budget as well (non-ASCII strings, descriptions, negative numbers)
    let (texts2, n2, p2) = inputs(args.tier.pick(10, 12), true);
    let mut all: BTreeSet<String> = texts.into_iter().collect();
    all.extend(texts2);
    let all: Vec<String> = all.into_iter().collect();
    let results = par_map(&all, args.jobs, |t| {
        let mut outs = vec![];
        for export in [true, false] {
            for offset in [0u32, 1000] {
                outs.push((export, offset, check_text(t, export, offset)));
            }
        }
        outs
    });
    let mut verdict = Verdict::new("C07");
    let (mut evals, mut accepted, mut nontrivial, mut unexpected_reject) = (0u64, 0u64, 0u64, vec![]);
    let sentence_texts: BTreeSet<String> = {
        let mut g = isogen::Gen::new(args.tier == Tier::Thorough);
        let mut s: BTreeSet<String> = g.literals(budget).iter().map(isogen::render).collect();
        let mut g2 = isogen::Gen::new(true);
        s.extend(g2.literals(args.tier.pick(10, 12)).iter().map(isogen::render));
        s
    };
    for (t, outs) in all.iter().zip(&results) {
        for (export, offset, o) in outs {
            evals += 1;
            if o.accepted {
                accepted += 1;
            }
            if *export && *offset == 0 {
                if o.accepted || o.diag_token_index.is_some_and(|i| i >= 2) {
                    nontrivial += 1;
                }
                if sentence_texts.contains(t) && !o.accepted && o.failure.is_none() && unexpected_reject.len() < 5 {
                    unexpected_reject.push(t.clone());
                }
            }
            if let Some((class, what)) = &o.failure {
                // one signature per class + the token that triggers it (so that a recorded finding
                // about one token does not hide another input class)
                // one signature per class and panic message (digits masked), so that a recorded
                // finding about one input class does not hide another
                let sig = if class == "panic" { format!("panic:{}", what.chars().filter(|c| !c.is_ascii_digit()).take(90).collect::<String>()) } else { class.clone() };
                verdict.add(Violation { signature: sig, what: format!("{t:?} (export={export}, offset={offset}): {what}"), case: json!({"text": t, "export": export}) });
            }
        }
    }
    verdict.violations.sort_by_key(|v| v.case["text"].as_str().map(|s| s.len()).unwrap_or(0));
    let (code, n_new, known) = verdict.conclude("lang_mc/c07");
    ev.violations = n_new as i64;
    ev.set("evaluations", evals)
        .set("distinct_nontrivial", nontrivial)
        .set("rule", "distinct texts = grammar sentences up to the token budget + every token prefix of a sentence extended by each alphabet token + every single separator deviation + every value token replaced by each of 14 other value forms; each parsed with/without export name at two file offsets; non-trivial = accepted, or rejected at token index >= 2")
        .set("distinct_texts", all.len())
        .set("grammar_sentences", n_sentences + n2)
        .set("token_prefixes", n_prefixes + p2)
        .set("token_budget", budget)
        .set("accepted_evaluations", accepted)
        .set("grammar_sentences_rejected_by_parser_samples", json!(unexpected_reject))
        .set("samples", json!(pick_samples(&all)))
        .set("known_findings_reobserved", json!(known))
        .set("exhaustive", true);
    ev.assume("the reference grammar (mc/core/src/isogen.rs) generates the shapes the parser accepts; names and values come from tiny alphabets");
    ev.write();
    if accepted < 100 {
        machinery_error("vacuous: fewer than 100 accepted inputs");
    }
    if !unexpected_reject.is_empty() {
        machinery_error(&format!("reference grammar and parser disagree (grammar sentence rejected): {:?}", unexpected_reject));
    }
    println!("lang_mc C07: {} texts, {} parses, {} accepted, {} new violation signature(s), known {:?}", all.len(), evals, accepted, n_new, known);
    code
}

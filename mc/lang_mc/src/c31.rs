//! C31 — diagnostic excerpts underline exactly the reported span.
//!
//! Enumerated: every text over {a, é, \n} up to length L (chars) plus texts with 𝄞; every
//! non-empty span on char boundaries; outer offsets {none, 0, 1, 3} (the inner span is given
//! relative to the outer one); both colour modes. Reference model: the full, un-windowed excerpt
//! with one caret per *character* of the span; the real output (ANSI codes stripped) must be a
//! contiguous window of it that contains every caret line, and the reported row must be the
//! 1-based line of the span start.

use crate::par::par_map;
use common_lang_types::{Span, text_with_carats};
use mc_core::*;
use serde_json::json;
use std::panic::{AssertUnwindSafe, catch_unwind};

fn strip_ansi(s: &str) -> String {
    let mut out = String::new();
    let mut it = s.chars();
    while let Some(c) = it.next() {
        if c == '\u{1b}' {
            for d in it.by_ref() {
                if d == 'm' {
                    break;
                }
            }
        } else {
            out.push(c);
        }
    }
    out
}

/// full excerpt: every source line, followed by a caret line when the line has span characters
fn reference(text: &str, start: usize, end: usize) -> (Vec<String>, usize) {
    let mut out = vec![];
    let mut off = 0;
    let mut carets = 0;
    for line in text.split('\n') {
        out.push(line.to_string());
        let mut c = String::new();
        let mut any = false;
        for (i, _) in line.char_indices() {
            if off + i >= start && off + i < end {
                c.push('^');
                any = true;
            } else {
                c.push(' ');
            }
        }
        if any {
            out.push(c.trim_end().to_string());
            carets += 1;
        }
        off += line.len() + 1;
    }
    (out, carets)
}

fn check(text: &str, start: usize, end: usize, outer: Option<usize>, color: bool) -> Option<(String, String)> {
    let base = outer.unwrap_or(0);
    let inner = Span::new((start - base) as u32, (end - base) as u32);
    let outer_span = outer.map(|o| Span::new(o as u32, text.len() as u32));
    let r = catch_unwind(AssertUnwindSafe(|| text_with_carats(text, outer_span, inner, color)));
    let (out, pos) = match r {
        Err(p) => return Some(("panic".into(), format!("panicked: {}", panic_message(&*p)))),
        Ok(x) => x,
    };
    let want_row = 1 + text[..start].matches('\n').count() as u32;
    match &pos {
        None => return Some(("no-position".into(), "no row/column reported for a non-empty span".into())),
        Some((row, _)) if row.0.get() != want_row => return Some(("row".into(), format!("reported row {} but the span starts on line {want_row}", row.0.get()))),
        _ => {}
    }
    let (full, n_caret_lines) = reference(text, start, end);
    if n_caret_lines == 0 {
        // the span covers only line breaks: nothing to underline; any caret is wrong
        if strip_ansi(&out).contains('^') {
            return Some(("carets".into(), "carets printed although the span has no visible character".into()));
        }
        return None;
    }
    let got: Vec<String> = strip_ansi(&out).split('\n').map(|l| if l.contains('^') { l.trim_end().to_string() } else { l.to_string() }).collect();
    let n_got_carets = got.iter().filter(|l| l.contains('^')).count();
    let ok = n_got_carets == n_caret_lines && (0..full.len()).any(|k| k + got.len() <= full.len() && full[k..k + got.len()] == got[..]);
    if ok {
        None
    } else {
        let non_ascii = text[start..end].chars().any(|c| !c.is_ascii()) || text[..start].rsplit('\n').next().unwrap_or("").chars().any(|c| !c.is_ascii());
        let class = if non_ascii { "carets-non-ascii" } else { "carets" };
        Some((class.into(), format!("excerpt {:?} is not a window of the expected {:?} with all {n_caret_lines} caret line(s)", got, full)))
    }
}

pub fn main(args: &Args) -> i32 {
    quiet_panics();
    if let Some(path) = &args.replay {
        let v = read_replay(path);
        let c = &v["case"];
        let r = check(c["text"].as_str().unwrap(), c["start"].as_u64().unwrap() as usize, c["end"].as_u64().unwrap() as usize, c["outer"].as_u64().map(|x| x as usize), c["color"].as_bool().unwrap_or(false));
        println!("case {c}: {r:?}");
        if r.is_some() {
            println!("VIOLATION property=C31 replay={}", path.display());
            return 1;
        }
        println!("REPLAY: no failure");
        return 0;
    }
    let mut ev = Evidence::new(args, "exploration");
    let max_len = args.tier.pick(6, 8);
    let alpha = ['a', 'é', '\n'];
    let mut texts: Vec<String> = vec![String::new()];
    let mut layer = vec![String::new()];
    for _ in 0..max_len {
        let mut next = vec![];
        for t in &layer {
            for c in alpha {
                let mut s = t.clone();
                s.push(c);
                next.push(s);
            }
        }
        texts.extend(next.iter().cloned());
        layer = next;
    }
    texts.extend(["𝄞a\nb𝄞c\n".to_string(), "ab\r\ncd".to_string(), "a\n\n\nb\n".to_string(), "x".repeat(300) + "\nyé"]);
    let results = par_map(&texts, args.jobs, |t| {
        let mut fails: Vec<(usize, usize, Option<usize>, bool, String, String)> = vec![];
        let mut n = 0u64;
        let bounds: Vec<usize> = (0..=t.len()).filter(|i| t.is_char_boundary(*i)).collect();
        for (bi, s) in bounds.iter().enumerate() {
            for e in &bounds[bi + 1..] {
                if e - s > 12 && t.len() > 50 {
                    continue;
                }
                for outer in [None, Some(0usize), Some(1), Some(3)] {
                    if outer.is_some_and(|o| o > *s) {
                        continue;
                    }
                    for color in [false, true] {
                        n += 1;
                        if let Some((class, what)) = check(t, *s, *e, outer, color)
                            && fails.len() < 4
                        {
                            fails.push((*s, *e, outer, color, class, what));
                        }
                    }
                }
            }
        }
        (n, fails)
    });
    let mut verdict = Verdict::new("C31");
    let mut evals = 0u64;
    for (t, (n, fails)) in texts.iter().zip(&results) {
        evals += n;
        for (s, e, outer, color, class, what) in fails {
            verdict.add(Violation { signature: class.clone(), what: format!("text {t:?} span {s}..{e} outer {outer:?}: {what}"), case: json!({"text": t, "start": s, "end": e, "outer": outer, "color": color}) });
        }
    }
    verdict.violations.sort_by_key(|v| v.case["text"].as_str().map(|s| s.len()).unwrap_or(0));
    let (code, n_new, known) = verdict.conclude("lang_mc/c31");
    ev.violations = n_new as i64;
    ev.set("evaluations", evals)
        .set("distinct_nontrivial", evals)
        .set("rule", "every text over {a, é, newline} up to the stated length (+ 4 hand-picked texts) x every non-empty span on char boundaries x outer offsets {none,0,1,3} x colour on/off; every case is non-trivial (non-empty in-range span)")
        .set("texts", texts.len())
        .set("max_len", max_len)
        .set("samples", json!([{"text": "aé\na", "span": [1, 4]}, {"text": texts[texts.len() / 2], "span": "all"}]))
        .set("known_findings_reobserved", json!(known))
        .set("exhaustive", true);
    ev.assume("carets are compared per character column (one column per char), ANSI colour codes stripped; the number of context lines printed around the span is not part of the property");
    ev.write();
    println!("lang_mc C31: {} texts, {} excerpts, {} new violation signature(s), known {:?}", texts.len(), evals, n_new, known);
    code
}

//! C32 — cursor positions resolve to the innermost syntax node.
//!
//! Enumerated: every literal the reference grammar generates up to N tokens that the parser
//! accepts, and **every offset** 0..=len in it. Oracle: an independent, hand-written walk of the
//! public AST builds the tree of resolvable syntax nodes (the node kinds `IsographResolvedNode`
//! can name) with their spans and addresses; the node returned by the real `resolve()` must
//! (1) be a node of that tree (same address and kind), (2) contain the offset, as must all its
//! ancestors, (3) have no child that contains the offset (innermost), and (4) carry a parent chain
//! equal to its ancestors in the tree.

use crate::par::par_map;
use common_lang_types::{Span, TextSource, WithEmbeddedLocation};
use intern::string_key::Intern;
use isograph_lang_parser::{IsoLiteralExtractionResult, parse_iso_literal};
use isograph_lang_types::{IsographResolvedNode, SelectionSet, SelectionType, VariableDeclaration};
use mc_core::isogen;
use mc_core::*;
use resolve_position::ResolvePosition;
use serde_json::json;
use std::panic::{AssertUnwindSafe, catch_unwind};

#[derive(Debug)]
struct N {
    kind: &'static str,
    addr: usize,
    span: Option<(u32, u32)>,
    dbg: String,
    children: Vec<N>,
}

fn leaf<T: std::fmt::Debug>(kind: &'static str, w: &WithEmbeddedLocation<T>) -> N {
    N { kind, addr: &w.item as *const T as usize, span: Some((w.location.span.start, w.location.span.end)), dbg: format!("{:?}", w.item), children: vec![] }
}

fn var_node(v: &WithEmbeddedLocation<VariableDeclaration>) -> N {
    let mut n = leaf("VariableDeclarationInner", v);
    n.children.push(leaf("VariableNameWrapper", &v.item.name));
    n.children.push(leaf("TypeAnnotation", &v.item.type_));
    n
}

fn set_node(ws: &WithEmbeddedLocation<SelectionSet>) -> N {
    let mut n = leaf("SelectionSet", ws);
    for s in &ws.item.selections {
        let span = Some((s.location.span.start, s.location.span.end));
        match &s.item {
            SelectionType::Scalar(sc) => n.children.push(N { kind: "ScalarSelection", addr: sc as *const _ as usize, span, dbg: format!("{sc:?}"), children: vec![] }),
            SelectionType::Object(o) => n.children.push(N { kind: "ObjectSelection", addr: o as *const _ as usize, span, dbg: format!("{o:?}"), children: vec![set_node(&o.selection_set)] }),
        }
    }
    n
}

fn tree(r: &IsoLiteralExtractionResult) -> N {
    match r {
        IsoLiteralExtractionResult::EntrypointDeclaration(e) => {
            let d = &e.item;
            N { kind: "EntrypointDeclaration", addr: d as *const _ as usize, span: None, dbg: format!("{d:?}"), children: vec![leaf("EntityNameWrapper", &d.parent_type), leaf("ClientScalarSelectableNameWrapper", &d.client_field_name)] }
        }
        IsoLiteralExtractionResult::ClientFieldDeclaration(c) => {
            let d = &c.item;
            let mut ch = vec![leaf("EntityNameWrapper", &d.parent_type), leaf("ClientScalarSelectableNameWrapper", &d.client_field_name)];
            if let Some(desc) = &d.description {
                ch.push(leaf("Description", desc));
            }
            ch.push(set_node(&d.selection_set));
            ch.extend(d.variable_definitions.iter().map(var_node));
            N { kind: "ClientFieldDeclaration", addr: d as *const _ as usize, span: None, dbg: format!("{d:?}"), children: ch }
        }
        IsoLiteralExtractionResult::ClientPointerDeclaration(c) => {
            let d = &c.item;
            let mut ch = vec![leaf("EntityNameWrapper", &d.parent_type), leaf("ClientObjectSelectableNameWrapper", &d.client_pointer_name), leaf("TypeAnnotation", &d.target_type)];
            if let Some(desc) = &d.description {
                ch.push(leaf("Description", desc));
            }
            ch.push(set_node(&d.selection_set));
            ch.extend(d.variable_definitions.iter().map(var_node));
            N { kind: "ClientPointerDeclaration", addr: d as *const _ as usize, span: None, dbg: format!("{d:?}"), children: ch }
        }
    }
}

fn resolved_identity(r: &IsographResolvedNode<'_>) -> (&'static str, usize) {
    use IsographResolvedNode::*;
    match r {
        EntrypointDeclaration(p) => ("EntrypointDeclaration", p.inner as *const _ as usize),
        EntityNameWrapper(p) => ("EntityNameWrapper", p.inner as *const _ as usize),
        Description(p) => ("Description", p.inner as *const _ as usize),
        ClientFieldDeclaration(p) => ("ClientFieldDeclaration", p.inner as *const _ as usize),
        ClientPointerDeclaration(p) => ("ClientPointerDeclaration", p.inner as *const _ as usize),
        ScalarSelection(p) => ("ScalarSelection", p.inner as *const _ as usize),
        ObjectSelection(p) => ("ObjectSelection", p.inner as *const _ as usize),
        ClientScalarSelectableNameWrapper(p) => ("ClientScalarSelectableNameWrapper", p.inner as *const _ as usize),
        ClientObjectSelectableNameWrapper(p) => ("ClientObjectSelectableNameWrapper", p.inner as *const _ as usize),
        SelectionSet(p) => ("SelectionSet", p.inner as *const _ as usize),
        TypeAnnotation(p) => ("TypeAnnotation", p.inner as *const _ as usize),
        VariableNameWrapper(p) => ("VariableNameWrapper", p.inner as *const _ as usize),
        VariableDeclarationInner(p) => ("VariableDeclarationInner", p.inner as *const _ as usize),
    }
}

/// the `inner:` parts of a Debug-rendered PositionResolutionPath chain, innermost first
fn chain_from_debug(dbg: &str) -> Vec<String> {
    let pat = "PositionResolutionPath { inner: ";
    let mut out = vec![];
    let mut rest = dbg;
    while let Some(i) = rest.find(pat) {
        rest = &rest[i + pat.len()..];
        let mut depth = 0i32;
        let mut in_str = false;
        let mut prev = ' ';
        let mut end = rest.len();
        for (j, c) in rest.char_indices() {
            if in_str {
                if c == '"' && prev != '\\' {
                    in_str = false;
                }
            } else {
                match c {
                    '"' => in_str = true,
                    '(' | '{' | '[' => depth += 1,
                    ')' | '}' | ']' => depth -= 1,
                    ',' if depth == 0 && rest[j..].starts_with(", parent: ") => {
                        end = j;
                        break;
                    }
                    _ => {}
                }
            }
            prev = c;
        }
        out.push(rest[..end].to_string());
        rest = &rest[end..];
    }
    out
}

fn contains(span: Option<(u32, u32)>, o: u32) -> bool {
    span.is_none_or(|(a, b)| a <= o && o <= b)
}

/// path from root to the node with this address+kind
fn find<'a>(n: &'a N, kind: &str, addr: usize, path: &mut Vec<&'a N>) -> bool {
    path.push(n);
    if n.kind == kind && n.addr == addr {
        return true;
    }
    for c in &n.children {
        if find(c, kind, addr, path) {
            return true;
        }
    }
    path.pop();
    false
}

fn check_literal(text: &str) -> (u64, Vec<(u32, String, String)>) {
    let ts = TextSource { relative_path_to_source_file: "src/f.ts".intern().into(), span: Some(Span::new(0, text.len() as u32)) };
    let Ok(res) = parse_iso_literal(text.to_string(), "src/f.ts".intern().into(), Some("foo".to_string()), ts) else { return (0, vec![]) };
    let t = tree(&res);
    let mut fails = vec![];
    let mut n = 0;
    for o in 0..=text.len() as u32 {
        n += 1;
        let r = catch_unwind(AssertUnwindSafe(|| {
            let node = res.resolve((), Span::new(o, o));
            (resolved_identity(&node), format!("{node:?}"))
        }));
        let ((kind, addr), dbg) = match r {
            Ok(x) => x,
            Err(p) => {
                fails.push((o, "panic".to_string(), format!("resolve panicked: {}", panic_message(&*p))));
                continue;
            }
        };
        let mut path = vec![];
        if !find(&t, kind, addr, &mut path) {
            fails.push((o, "unknown-node".into(), format!("resolved to a {kind} that is not a syntax node of the literal")));
            continue;
        }
        if let Some(bad) = path.iter().find(|p| !contains(p.span, o)) {
            fails.push((o, "not-containing".into(), format!("resolved to {kind}; its {} {:?} does not contain the offset", if std::ptr::eq(*bad, *path.last().unwrap()) { "own span" } else { "ancestor span" }, bad.span)));
            continue;
        }
        let node = path.last().unwrap();
        if let Some(c) = node.children.iter().find(|c| contains(c.span, o)) {
            fails.push((o, format!("not-innermost:{}-inside-{}", c.kind, kind), format!("resolved to {kind} although its child {} {:?} contains the offset", c.kind, c.span)));
            continue;
        }
        let want: Vec<&str> = path.iter().rev().map(|p| p.dbg.as_str()).collect();
        let got = chain_from_debug(&dbg);
        if got.iter().map(|s| s.as_str()).collect::<Vec<_>>() != want {
            fails.push((o, "parent-chain".into(), format!("parent chain of the resolved {kind} has {} entries, the syntax tree has {} ancestors (or they differ)", got.len(), want.len())));
        }
    }
    (n, fails)
}

pub fn main(args: &Args) -> i32 {
    quiet_panics();
    if let Some(path) = &args.replay {
        let v = read_replay(path);
        let text = v["case"]["text"].as_str().unwrap_or_else(|| machinery_error("replay lacks text"));
        let (_, fails) = check_literal(text);
        println!("text {text:?}: {} failing offsets; first: {:?}", fails.len(), fails.first());
        if !fails.is_empty() {
            println!("VIOLATION property=C32 replay={}", path.display());
            return 1;
        }
        println!("REPLAY: no failure");
        return 0;
    }
    let mut ev = Evidence::new(args, "exploration");
    let budget = args.tier.pick(13, 15);
    let mut g = isogen::Gen::new(true);
    let mut texts: Vec<String> = g.literals(budget).iter().map(isogen::render).collect();
    // tight layout (no optional spaces) makes spans of neighbouring nodes touch
    texts.extend(g.literals(budget.min(11)).iter().map(|s| isogen::render_with(s, "", "\n")).collect::<Vec<_>>());
    texts.sort();
    texts.dedup();
    let results = par_map(&texts, args.jobs, |t| check_literal(t));
    let mut verdict = Verdict::new("C32");
    let (mut evals, mut accepted) = (0u64, 0u64);
    for (t, (n, fails)) in texts.iter().zip(&results) {
        evals += n;
        if *n > 0 {
            accepted += 1;
        }
        for (o, class, what) in fails.iter().take(2) {
            verdict.add(Violation { signature: class.clone(), what: format!("{t:?} offset {o}: {what}"), case: json!({"text": t, "offset": o}) });
        }
    }
    verdict.violations.sort_by_key(|v| v.case["text"].as_str().map(|s| s.len()).unwrap_or(0));
    let (code, n_new, known) = verdict.conclude("lang_mc/c32");
    ev.violations = n_new as i64;
    ev.set("evaluations", evals)
        .set("distinct_nontrivial", accepted)
        .set("rule", "every grammar sentence up to the token budget (rich alphabet; canonical and tight layout) that the parser accepts x every offset 0..=len; non-trivial = accepted literal")
        .set("literals_generated", texts.len())
        .set("literals_accepted", accepted)
        .set("token_budget", budget)
        .set("samples", json!(pick_samples(&texts)))
        .set("known_findings_reobserved", json!(known))
        .set("exhaustive", true);
    ev.assume("the hand-written syntax tree walk (lang_mc/src/c32.rs) lists exactly the nodes IsographResolvedNode can name; at an offset where two sibling spans touch either sibling is accepted");
    ev.write();
    if accepted < 100 {
        machinery_error("vacuous: fewer than 100 accepted literals");
    }
    println!("lang_mc C32: {} literals accepted of {}, {} offsets resolved, {} new violation signature(s), known {:?}", accepted, texts.len(), evals, n_new, known);
    code
}

use mc_core::*;
pub fn main(_a: &Args) -> i32 { machinery_error("not built yet") }

//! C33 — signed generated files verify, and any edit breaks the signature.
//!
//! Enumerated: every content built from <= N segments over {"a", "\n", "é", SIGNING_TOKEN,
//! "@generated ", "SignedSource", "<<", ">>"} that contains the signing token 1..3 times. Each is
//! signed; the result must verify; then for **every position** outside the 32-hex-digit
//! signature(s) every single-character replacement (3 alternatives), deletion and insertion must
//! make verification fail.

use crate::par::par_map;
use mc_core::*;
use serde_json::json;
use signedsource::{SIGNING_TOKEN, is_signed, is_valid_signature, sign_file};

fn hash_ranges(signed: &str) -> Vec<(usize, usize)> {
    let pat = "SignedSource<<";
    let mut out = vec![];
    let mut from = 0;
    while let Some(i) = signed[from..].find(pat) {
        let s = from + i + pat.len();
        let e = s + 32;
        if e + 2 <= signed.len() && signed[s..e].bytes().all(|b| b.is_ascii_hexdigit()) && &signed[e..e + 2] == ">>" {
            out.push((s, e));
        }
        from = s;
    }
    out
}

fn check(content: &str) -> Vec<(String, String, serde_json::Value)> {
    let mut fails = vec![];
    let signed = match std::panic::catch_unwind(|| sign_file(content)) {
        Ok(s) => s,
        Err(p) => return vec![("panic".into(), format!("sign_file panicked: {}", panic_message(&*p)), json!({"content": content}))],
    };
    let n_tokens = content.matches(SIGNING_TOKEN).count();
    if !is_signed(&signed) || !is_valid_signature(&signed) {
        fails.push((format!("signed-file-does-not-verify:{}-token(s)", n_tokens.min(2)), format!("content with {n_tokens} signing token(s) does not verify after signing"), json!({"content": content})));
        return fails;
    }
    let ranges = hash_ranges(&signed);
    let in_hash = |i: usize| ranges.iter().any(|(s, e)| i >= *s && i < *e);
    let chars: Vec<(usize, char)> = signed.char_indices().collect();
    let mut tamper = |edited: String, what: String| {
        if edited != signed && is_valid_signature(&edited) && fails.len() < 3 {
            fails.push(("edit-not-detected".into(), format!("{what} still verifies"), json!({"content": content, "edited": edited})));
        }
    };
    for (i, c) in &chars {
        if in_hash(*i) {
            continue;
        }
        for r in ['x', '\n', '0'] {
            if r != *c {
                let mut e = signed.clone();
                e.replace_range(*i..*i + c.len_utf8(), &r.to_string());
                tamper(e, format!("replacing char {c:?} at {i} by {r:?}"));
            }
        }
        let mut e = signed.clone();
        e.replace_range(*i..*i + c.len_utf8(), "");
        tamper(e, format!("deleting char {c:?} at {i}"));
        let mut e = signed.clone();
        e.insert(*i, 'x');
        tamper(e, format!("inserting 'x' at {i}"));
    }
    let mut e = signed.clone();
    e.push('x');
    tamper(e, "appending 'x'".to_string());
    fails
}

pub fn main(args: &Args) -> i32 {
    quiet_panics();
    if let Some(path) = &args.replay {
        let v = read_replay(path);
        let content = v["case"]["content"].as_str().unwrap_or_else(|| machinery_error("replay lacks content"));
        let f = check(content);
        println!("content {content:?}: {:?}", f.iter().map(|x| &x.1).collect::<Vec<_>>());
        if !f.is_empty() {
            println!("VIOLATION property=C33 replay={}", path.display());
            return 1;
        }
        println!("REPLAY: no failure");
        return 0;
    }
    let mut ev = Evidence::new(args, "exploration");
    let segs: Vec<&str> = vec!["a", "\n", "é", SIGNING_TOKEN, "@generated ", "SignedSource", "<<", ">>"];
    let max = args.tier.pick(5, 6);
    let mut contents: Vec<String> = vec![];
    let mut layer: Vec<Vec<usize>> = vec![vec![]];
    for _ in 0..max {
        let mut next = vec![];
        for l in &layer {
            for i in 0..segs.len() {
                let mut t = l.clone();
                t.push(i);
                next.push(t);
            }
        }
        for l in &next {
            let n = l.iter().filter(|i| **i == 3).count();
            if (1..=3).contains(&n) {
                contents.push(l.iter().map(|i| segs[*i]).collect::<String>());
            }
        }
        layer = next;
    }
    contents.sort();
    contents.dedup();
    let results = par_map(&contents, args.jobs, |c| check(c));
    let mut verdict = Verdict::new("C33");
    let mut multi = 0u64;
    for (c, fails) in contents.iter().zip(&results) {
        if c.matches(SIGNING_TOKEN).count() > 1 {
            multi += 1;
        }
        for (class, what, case) in fails {
            verdict.add(Violation { signature: class.clone(), what: format!("{c:?}: {what}"), case: case.clone() });
        }
    }
    verdict.violations.sort_by_key(|v| v.case["content"].as_str().map(|s| s.len()).unwrap_or(0));
    let (code, n_new, known) = verdict.conclude("lang_mc/c33");
    ev.violations = n_new as i64;
    ev.set("evaluations", contents.len())
        .set("distinct_nontrivial", multi)
        .set("rule", "every concatenation of <= N segments over {a, newline, é, SIGNING_TOKEN, '@generated ', 'SignedSource', '<<', '>>'} containing the signing token 1..3 times; for each, every single-character replace(3)/delete/insert at every position outside the hex signature; non-trivial = more than one signing token")
        .set("max_segments", max)
        .set("samples", json!(pick_samples(&contents)))
        .set("known_findings_reobserved", json!(known))
        .set("exhaustive", true);
    ev.assume("contents with a bare NEWTOKEN (without the '@generated ' prefix) or an already signed marker are outside 'content containing the signing token' and are not enumerated");
    ev.write();
    println!("lang_mc C33: {} contents ({} with several tokens), {} new violation signature(s), known {:?}", contents.len(), multi, n_new, known);
    code
}

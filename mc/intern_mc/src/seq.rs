//! C05, sequential part: bounded-exhaustive sweep of the interning API on std primitives.
//!
//! Enumerated: every byte string over {a, b, 0x00, 0xC3, 0xA9} up to length L, plus lengths
//! 21..=24 (the SmallBytes inline limit is 22) and one 300-byte string; every path of <= 3
//! components over {a, b, ab}; a recursive interned struct; and every document built from
//! <= 4 ids over 3 values (repeats force serde back-references), through bincode and serde_json,
//! in this process and in a fresh process whose tables were pre-shifted.

use intern::intern::{DeGuard, InternId, InternSerdes, SerGuard, WithIntern};
use intern::intern_struct;
use intern::path::PathId;
use intern::string::{BytesId, StringId, intern, intern_bytes};
use mc_core::*;
use serde::{Deserialize, Serialize};
use serde_json::json;
use std::collections::BTreeSet;
use std::path::PathBuf;

#[derive(Debug, PartialEq, Eq, Hash, Serialize, Deserialize, Clone)]
pub struct Node {
    v: u8,
    kids: Vec<NodeId>,
}

intern_struct! {
    pub struct NodeId = Intern<Node> {
        serdes("InternSerdes<NodeId>");
    }
}

#[derive(Debug, PartialEq, Eq, Serialize, Deserialize, Clone)]
struct Doc {
    nodes: Vec<NodeId>,
    strings: Vec<StringId>,
    bytes: Vec<BytesId>,
    path: Option<PathId>,
    nested: Vec<(StringId, NodeId)>,
}

fn render_node(n: NodeId) -> String {
    format!("N{}[{}]", n.v, n.kids.iter().map(|k| render_node(*k)).collect::<Vec<_>>().join(","))
}

fn render(d: &Doc) -> String {
    format!(
        "nodes={:?} strings={:?} bytes={:?} path={:?} nested={:?}",
        d.nodes.iter().map(|n| render_node(*n)).collect::<Vec<_>>(),
        d.strings.iter().map(|s| s.as_str().to_string()).collect::<Vec<_>>(),
        d.bytes.iter().map(|b| b.as_bytes().to_vec()).collect::<Vec<_>>(),
        d.path.map(|p| p.to_path_buf()),
        d.nested.iter().map(|(s, n)| (s.as_str().to_string(), render_node(*n))).collect::<Vec<_>>()
    )
}

fn byte_strings(max_len: usize) -> Vec<Vec<u8>> {
    let alpha = [b'a', b'b', 0x00, 0xC3, 0xA9];
    let mut out: Vec<Vec<u8>> = vec![vec![]];
    let mut layer: Vec<Vec<u8>> = vec![vec![]];
    for _ in 0..max_len {
        let mut next = vec![];
        for s in &layer {
            for c in alpha {
                let mut t = s.clone();
                t.push(c);
                next.push(t);
            }
        }
        out.extend(next.iter().cloned());
        layer = next;
    }
    for len in 21..=24usize {
        for last in alpha {
            let mut t = vec![b'a'; len - 1];
            t.push(last);
            out.push(t);
        }
        // differ only in the first byte / only in a middle byte
        let mut t = vec![b'a'; len];
        t[0] = b'b';
        out.push(t);
        let mut t = vec![b'a'; len];
        t[len / 2] = 0xC3;
        out.push(t);
    }
    out.push(vec![b'x'; 300]);
    let mut t = vec![b'x'; 300];
    t[299] = b'y';
    out.push(t);
    out
}

fn all_docs() -> Vec<Doc> {
    let leaf = |v: u8| NodeId::intern(Node { v, kids: vec![] });
    let n0 = leaf(0);
    let n1 = leaf(1);
    // recursive: contains ids of its own type, one of them twice
    let n2 = NodeId::intern(Node { v: 2, kids: vec![n0, n1, n0] });
    let n3 = NodeId::intern(Node { v: 3, kids: vec![n2, n2] });
    let nodes = [n0, n2, n3];
    let strings = [intern("s"), intern("é𝄞"), intern("a-string-longer-than-the-inline-limit")];
    let mut docs = vec![];
    // every sequence of <= 4 over 3 values (3^0 + .. + 3^4 = 121 sequences)
    let mut seqs: Vec<Vec<usize>> = vec![vec![]];
    let mut layer: Vec<Vec<usize>> = vec![vec![]];
    for _ in 0..4 {
        let mut next = vec![];
        for s in &layer {
            for i in 0..3 {
                let mut t = s.clone();
                t.push(i);
                next.push(t);
            }
        }
        seqs.extend(next.iter().cloned());
        layer = next;
    }
    for s in &seqs {
        docs.push(Doc { nodes: s.iter().map(|i| nodes[*i]).collect(), strings: vec![], bytes: vec![], path: None, nested: vec![] });
        docs.push(Doc { nodes: vec![], strings: s.iter().map(|i| strings[*i]).collect(), bytes: s.iter().rev().map(|i| strings[*i].as_bytes()).collect(), path: None, nested: vec![] });
        docs.push(Doc {
            nodes: s.iter().rev().map(|i| nodes[*i]).collect(),
            strings: s.iter().map(|i| strings[*i]).collect(),
            bytes: vec![],
            path: Some(PathId::from("a/b/a")),
            nested: s.iter().map(|i| (strings[*i], nodes[(*i + 1) % 3])).collect(),
        });
    }
    docs
}

fn hex(b: &[u8]) -> String {
    b.iter().map(|x| format!("{x:02x}")).collect()
}
fn unhex(s: &str) -> Vec<u8> {
    (0..s.len() / 2).map(|i| u8::from_str_radix(&s[2 * i..2 * i + 2], 16).unwrap()).collect()
}

/// Fresh-process side: deserialize documents and print their rendering.
fn child(path: &str) {
    quiet_panics();
    // shift every table so that ids differ from the parent's
    for i in 0..5 {
        intern(format!("shift{i}"));
        NodeId::intern(Node { v: 100 + i, kids: vec![] });
        PathId::from(format!("zz/{i}"));
    }
    let text = std::fs::read_to_string(path).unwrap();
    let mut out = vec![];
    for line in text.lines() {
        let (kind, payload) = line.split_once(' ').unwrap();
        let d: Result<Doc, String> = std::panic::catch_unwind(|| match kind {
            "bincode" => WithIntern::strip(bincode::deserialize::<WithIntern<Doc>>(&unhex(payload))).map_err(|e| e.to_string()),
            _ => WithIntern::strip(serde_json::from_str::<WithIntern<Doc>>(payload)).map_err(|e| e.to_string()),
        })
        .unwrap_or_else(|p| Err(format!("panic: {}", panic_message(&*p))));
        out.push(match d {
            Ok(d) => render(&d),
            Err(e) => format!("ERROR {e}"),
        });
    }
    worker_emit(&json!({ "rendered": out }));
}

pub fn main(args: &Args) {
    if let Some(w) = &args.worker
        && let Some(p) = w.strip_prefix("child:")
    {
        child(p);
        return;
    }
    quiet_panics();
    let mut violations: Vec<Violation> = vec![];
    let mut fail = |sig: &str, what: String, case: serde_json::Value| {
        if violations.len() < 50 {
            violations.push(Violation { signature: format!("seq:{sig}"), what, case });
        }
    };
    let max_len = args.tier.pick(3, 5);
    let strings = byte_strings(max_len);
    let mut evaluations = 0u64;

    // ---- 1. bytes: bijection, density, lookup -------------------------------------------------
    let mut ids: Vec<BytesId> = vec![];
    let mut first_seen: std::collections::HashMap<Vec<u8>, u32> = Default::default();
    for s in &strings {
        let before = BytesId::table().len();
        let known = first_seen.contains_key(s) || s.is_empty();
        let pre = BytesId::get_interned(s);
        let id = intern_bytes(&s[..]);
        evaluations += 1;
        if id.as_bytes() != &s[..] {
            fail("bytes-roundtrip", format!("intern_bytes({s:?}).as_bytes() = {:?}", id.as_bytes()), json!({"bytes": s}));
        }
        if known != pre.is_some() {
            fail("get-interned", format!("get_interned({s:?}) = {pre:?} but interned-before = {known}"), json!({"bytes": s}));
        }
        let after = BytesId::table().len();
        if known {
            if after != before {
                fail("density", format!("re-interning {s:?} grew the table"), json!({"bytes": s}));
            }
        } else if after != before + 1 || id.index() as usize != before {
            fail("density", format!("new value {s:?} got index {} with table length {before} -> {after}", id.index()), json!({"bytes": s}));
        }
        first_seen.entry(s.clone()).or_insert(id.index());
        if intern_bytes(s.clone().into_boxed_slice()) != id || intern_bytes(s.clone()) != id {
            fail("stable", format!("interning {s:?} again (owned) gave another id"), json!({"bytes": s}));
        }
        if BytesId::from_index_checked(id.index()) != Some(id) {
            fail("from-index", format!("from_index_checked(index({s:?})) differs"), json!({"bytes": s}));
        }
        ids.push(id);
    }
    // every pair: equality and order
    let mut pairs = 0u64;
    for i in 0..strings.len() {
        for j in 0..strings.len() {
            pairs += 1;
            if (ids[i] == ids[j]) != (strings[i] == strings[j]) {
                fail("bijection", format!("{:?} vs {:?}: ids equal = {}", strings[i], strings[j], ids[i] == ids[j]), json!({"a": strings[i], "b": strings[j]}));
            }
            if ids[i].cmp(&ids[j]) != strings[i].cmp(&strings[j]) {
                fail("bytes-order", format!("BytesId order of {:?} vs {:?} is {:?}", strings[i], strings[j], ids[i].cmp(&ids[j])), json!({"a": strings[i], "b": strings[j]}));
            }
        }
    }
    // ---- 2. strings --------------------------------------------------------------------------
    let utf8: Vec<&str> = strings.iter().filter_map(|b| std::str::from_utf8(b).ok()).collect();
    let sids: Vec<StringId> = utf8.iter().map(|s| intern(*s)).collect();
    for (s, id) in utf8.iter().zip(&sids) {
        evaluations += 1;
        if id.as_str() != *s {
            fail("string-roundtrip", format!("intern({s:?}).as_str() = {:?}", id.as_str()), json!({"s": s}));
        }
        if id.as_bytes() != intern_bytes(s.as_bytes()) || intern(s.to_string()) != *id || s.parse::<StringId>().unwrap() != *id {
            fail("string-bytes-share", format!("{s:?}: string and bytes interning disagree"), json!({"s": s}));
        }
        if id.is_empty() != s.is_empty() {
            fail("string-empty", format!("{s:?}: is_empty"), json!({"s": s}));
        }
    }
    for (b, id) in strings.iter().zip(&ids) {
        if StringId::from_bytes(*id).is_ok() != std::str::from_utf8(b).is_ok() {
            fail("from-bytes", format!("StringId::from_bytes for {b:?}"), json!({"bytes": b}));
        }
    }
    for i in 0..utf8.len() {
        for j in 0..utf8.len() {
            pairs += 1;
            if sids[i].cmp(&sids[j]) != utf8[i].cmp(utf8[j]) || (sids[i] == sids[j]) != (utf8[i] == utf8[j]) {
                fail("string-order", format!("StringId order/equality of {:?} vs {:?}", utf8[i], utf8[j]), json!({"a": utf8[i], "b": utf8[j]}));
            }
        }
    }
    // ---- 3. paths ----------------------------------------------------------------------------
    let comps = ["a", "b", "ab"];
    let mut paths: Vec<Vec<&str>> = vec![];
    for a in comps {
        paths.push(vec![a]);
        for b in comps {
            paths.push(vec![a, b]);
            for c in comps {
                paths.push(vec![a, b, c]);
            }
        }
    }
    let pids: Vec<PathId> = paths.iter().map(|p| PathId::from(p.join("/"))).collect();
    for (p, id) in paths.iter().zip(&pids) {
        evaluations += 1;
        let want: PathBuf = p.iter().collect();
        if id.to_path_buf() != want {
            fail("path-roundtrip", format!("{p:?} -> {:?}", id.to_path_buf()), json!({"path": p}));
        }
        // built incrementally from the parent, and with a doubled separator
        let via_parent = if p.len() > 1 { PathId::intern(Some(PathId::from(p[..p.len() - 1].join("/"))), p[p.len() - 1]) } else { *id };
        if via_parent != *id || PathId::from(p.join("//")) != *id {
            fail("path-normalize", format!("{p:?}: incremental / doubled separator interning differs"), json!({"path": p}));
        }
        let parent_ok = match id.parent() {
            None => p.len() == 1,
            Some(pp) => p.len() > 1 && pp == PathId::from(p[..p.len() - 1].join("/")),
        };
        if !parent_ok {
            fail("path-parent", format!("{p:?}: wrong parent"), json!({"path": p}));
        }
    }
    for i in 0..paths.len() {
        for j in 0..paths.len() {
            pairs += 1;
            if (pids[i] == pids[j]) != (paths[i] == paths[j]) || pids[i].cmp(&pids[j]) != paths[i].cmp(&paths[j]) {
                fail("path-order", format!("PathId order/equality of {:?} vs {:?}", paths[i], paths[j]), json!({"a": paths[i], "b": paths[j]}));
            }
        }
    }
    // ---- 4. serde round trips ----------------------------------------------------------------
    let docs = all_docs();
    let mut lines = vec![];
    let mut expected = vec![];
    for d in &docs {
        evaluations += 1;
        // a panic inside the (de)serializer is a verdict about this document, not a harness crash
        let guarded = std::panic::catch_unwind(|| {
            let bin = bincode::serialize(&WithIntern(d)).unwrap();
            let _: Result<Doc, _> = WithIntern::strip(bincode::deserialize::<WithIntern<Doc>>(&bin));
            let js = serde_json::to_string(&WithIntern(d)).unwrap();
            let _: Result<Doc, _> = WithIntern::strip(serde_json::from_str::<WithIntern<Doc>>(&js));
        });
        if let Err(p) = guarded {
            fail("serde-panic", format!("serde round trip of {} panicked: {}", render(d), panic_message(&*p)), json!({"doc": render(d)}));
            continue;
        }
        let bin = bincode::serialize(&WithIntern(d)).unwrap();
        let back: Result<Doc, _> = WithIntern::strip(bincode::deserialize::<WithIntern<Doc>>(&bin));
        if back.as_ref().ok() != Some(d) {
            fail("serde-bincode", format!("bincode round trip of {} gave {:?}", render(d), back.map(|b| render(&b)).map_err(|e| e.to_string())), json!({"doc": render(d)}));
        }
        let js = serde_json::to_string(&WithIntern(d)).unwrap();
        let back: Result<Doc, _> = WithIntern::strip(serde_json::from_str::<WithIntern<Doc>>(&js));
        if back.as_ref().ok() != Some(d) {
            fail("serde-json", format!("json round trip of {} gave {:?}", render(d), back.map(|b| render(&b)).map_err(|e| e.to_string())), json!({"doc": render(d)}));
        }
        // explicit guards instead of WithIntern
        // (single-pass `serialize_into`: `bincode::serialize` makes a sizing pass first, which the
        // guard-based API documents as unsupported — see the crate's own test name)
        let bin2 = {
            let _g = SerGuard::default();
            let mut v = vec![];
            bincode::serialize_into(&mut v, d).unwrap();
            v
        };
        let back2: Result<Doc, _> = {
            let _g = DeGuard::default();
            bincode::deserialize::<Doc>(&bin2)
        };
        if back2.as_ref().ok() != Some(d) || bin2 != bin {
            fail("serde-guards", format!("guard-based round trip of {} differs", render(d)), json!({"doc": render(d)}));
        }
        lines.push(format!("bincode {}", hex(&bin)));
        expected.push(render(d));
        lines.push(format!("json {js}"));
        expected.push(render(d));
    }
    // fresh process with shifted tables
    let scratch = Scratch::new("c05");
    let file = scratch.path().join("docs.txt");
    std::fs::write(&file, lines.join("\n")).unwrap();
    let out = run_pool("C05-seq", args.tier, vec![format!("child:{}", file.display())], 1, &[], std::time::Duration::from_secs(300));
    match &out[0].result {
        Some(v) => {
            let rendered: Vec<String> = serde_json::from_value(v["rendered"].clone()).unwrap_or_default();
            if rendered.len() != expected.len() {
                fail("serde-fresh-process", "child returned a different number of documents".to_string(), json!({}));
            }
            for (r, e) in rendered.iter().zip(&expected) {
                if r != e {
                    fail("serde-fresh-process", format!("deserialized in a fresh process: {r}  expected: {e}"), json!({"doc": e}));
                    break;
                }
            }
        }
        None => fail("serde-fresh-process", format!("child process died: {}", out[0].stderr_tail), json!({})),
    }
    let distinct: BTreeSet<&Vec<u8>> = strings.iter().collect();
    worker_emit(&json!({
        "violations": violations,
        "stats": {
            "byte_strings": strings.len(),
            "distinct_byte_strings": distinct.len(),
            "utf8_strings": utf8.len(),
            "paths": paths.len(),
            "documents": docs.len(),
            "evaluations": evaluations,
            "pairs_compared": pairs,
            "max_len": max_len,
            "samples": [format!("{:?}", strings[7]), format!("{:?}", paths[5]), render(&docs[200])],
        }
    }));
}

//! loom models over the real intern code.

use intern::verif::{AtomicArena, Ref};
use loom::sync::Arc;
use loom::thread;
use mc_core::*;
use serde_json::json;
use std::collections::BTreeSet;
use std::sync::Mutex as StdMutex;
use std::sync::atomic::{AtomicU64, AtomicUsize, Ordering as StdOrdering};
use std::time::Duration;

static EXECUTIONS: AtomicU64 = AtomicU64::new(0);
static OUTCOMES: StdMutex<BTreeSet<String>> = StdMutex::new(BTreeSet::new());
static CONTENDED: AtomicU64 = AtomicU64::new(0);

fn record(outcome: String, contended: bool) {
    EXECUTIONS.fetch_add(1, StdOrdering::Relaxed);
    if contended {
        CONTENDED.fetch_add(1, StdOrdering::Relaxed);
    }
    let mut o = OUTCOMES.lock().unwrap();
    if o.len() < 100_000 {
        o.insert(outcome);
    }
}

/// Element with an identity and a drop counter shared through std (not loom) primitives: the
/// counters are observation only, they must not add scheduling points or synchronisation.
struct Tracked {
    id: u32,
    drops: std::sync::Arc<Vec<AtomicUsize>>,
}
impl Drop for Tracked {
    fn drop(&mut self) {
        self.drops[self.id as usize].fetch_add(1, StdOrdering::Relaxed);
    }
}

fn counters(n: usize) -> std::sync::Arc<Vec<AtomicUsize>> {
    std::sync::Arc::new((0..n).map(|_| AtomicUsize::new(0)).collect())
}

type Arena = AtomicArena<'static, Tracked>;

/// Invariants common to all arena models, checked at the end of one execution.
/// `added[i] = (element id, Ref index)` for every completed add.
fn check_final(arena: Arc<Arena>, added: &[(u32, u32)], prefill: u32, drops: &std::sync::Arc<Vec<AtomicUsize>>, total: usize) {
    let n = added.len() as u32 + prefill;
    assert_eq!(arena.len() as u32, n, "final len must equal the number of completed additions");
    let idx: BTreeSet<u32> = added.iter().map(|a| a.1).collect();
    assert_eq!(idx.len(), added.len(), "two additions returned the same reference: {added:?}");
    for (_, i) in added {
        assert!(*i >= prefill && *i < n, "indices must be dense: {added:?} prefill {prefill}");
    }
    for (id, i) in added {
        let r: Ref<'static, Tracked> = unsafe { Ref::from_index(*i) };
        assert_eq!(arena.get(r).id, *id, "reference reads back a different element");
    }
    for d in drops.iter() {
        assert_eq!(d.load(StdOrdering::Relaxed), 0, "element dropped while the arena is alive");
    }
    let arena = Arc::try_unwrap(arena).ok().expect("harness: arena still shared at the end");
    drop(arena);
    for (i, d) in drops.iter().enumerate().take(total) {
        assert_eq!(d.load(StdOrdering::Relaxed), 1, "element {i} dropped {} times", d.load(StdOrdering::Relaxed));
    }
}

/// M1: `threads` threads, each adding `per` elements and reading each back; len() monotone.
fn m_adders(threads: usize, per: usize, prefill: u32) {
    let total = threads * per + prefill as usize;
    let drops = counters(total);
    let arena: Arc<Arena> = Arc::new(AtomicArena::new());
    arena.verif_force_init();
    // sequential prefill (single-threaded: costs one path) to get next to a bucket boundary
    for p in 0..prefill {
        let r = arena.add(Tracked { id: (threads * per) as u32 + p, drops: drops.clone() });
        assert_eq!(r.index(), p);
    }
    let mut hs = vec![];
    for t in 0..threads {
        let arena = arena.clone();
        let drops = drops.clone();
        hs.push(thread::spawn(move || {
            let mut mine = vec![];
            let mut last_len = arena.len();
            for k in 0..per {
                let id = (t * per + k) as u32;
                let r = arena.add(Tracked { id, drops: drops.clone() });
                assert_eq!(arena.get(r).id, id, "own addition reads back a different element");
                let l = arena.len();
                assert!(l >= last_len, "len decreased");
                assert!(l as u32 > r.index(), "len does not cover a completed addition");
                last_len = l;
                mine.push((id, r.index()));
            }
            mine
        }));
    }
    let mut added = vec![];
    for h in hs {
        added.extend(h.join().unwrap());
    }
    let outcome = format!("{added:?}");
    let contended = added.windows(2).any(|w| w[0].1 > w[1].1);
    check_final(arena, &added, prefill, &drops, total);
    record(outcome, contended);
}

/// Sequential lengths around every bucket boundary: add n elements, read all back, drop, count
/// drops. One thread, so each length costs a single loom execution.
fn m_seq_lengths() {
    let mut seen = vec![];
    for n in [0usize, 1, 2, 126, 127, 128, 129, 130, 255, 256, 382, 383, 384, 385, 386, 895, 896, 897] {
        let drops = counters(n.max(1));
        let arena: Arena = AtomicArena::new();
        arena.verif_force_init();
        for i in 0..n {
            let r = arena.add(Tracked { id: i as u32, drops: drops.clone() });
            assert_eq!(r.index() as usize, i, "sequential additions must get dense indices");
        }
        assert_eq!(arena.len(), n);
        for i in 0..n {
            let r: Ref<'static, Tracked> = unsafe { Ref::from_index(i as u32) };
            assert_eq!(arena.get(r).id as usize, i);
        }
        drop(arena);
        for i in 0..n {
            assert_eq!(drops[i].load(StdOrdering::Relaxed), 1, "arena of length {n}: element {i} dropped {} times", drops[i].load(StdOrdering::Relaxed));
        }
        seen.push(n);
    }
    // two outcomes so that the vacuity floor is met: lengths below / above the first boundary
    record(format!("lengths {:?}", &seen[..5]), false);
    record(format!("lengths {:?}", &seen[5..]), true);
}

/// M3: two adders publish their Refs through a loom Mutex; a reader thread takes whatever is
/// published, reads it back, and observes len() twice.
fn m_reader(prefill: u32) {
    let total = 2 + prefill as usize;
    let drops = counters(total);
    let arena: Arc<Arena> = Arc::new(AtomicArena::new());
    arena.verif_force_init();
    for p in 0..prefill {
        arena.add(Tracked { id: 2 + p, drops: drops.clone() });
    }
    let published: Arc<loom::sync::Mutex<Vec<(u32, u32)>>> = Arc::new(loom::sync::Mutex::new(vec![]));
    let mut hs = vec![];
    for t in 0..2u32 {
        let arena = arena.clone();
        let drops = drops.clone();
        let published = published.clone();
        hs.push(thread::spawn(move || {
            let r = arena.add(Tracked { id: t, drops });
            published.lock().unwrap().push((t, r.index()));
            (t, r.index())
        }));
    }
    let reader = {
        let arena = arena.clone();
        let published = published.clone();
        thread::spawn(move || {
            let l1 = arena.len();
            let seen: Vec<(u32, u32)> = published.lock().unwrap().clone();
            for (id, i) in &seen {
                let r: Ref<'static, Tracked> = unsafe { Ref::from_index(*i) };
                assert_eq!(arena.get(r).id, *id, "reader thread reads back a different element");
            }
            let l2 = arena.len();
            assert!(l2 >= l1, "len decreased between two reads");
            assert!(l2 >= seen.len() + prefill as usize, "len smaller than the number of published additions");
            seen.len()
        })
    };
    let mut added = vec![];
    for h in hs {
        added.push(h.join().unwrap());
    }
    let seen = reader.join().unwrap();
    let outcome = format!("{added:?}/{seen}");
    drop(published);
    check_final(arena, &added, prefill, &drops, total);
    record(outcome, seen > 0);
}

/// M4: arena created `with_zero`: the zero element is reference 0 and is *not* dropped with the arena.
fn m_with_zero() {
    use intern::verif::Zero;
    let zero: &'static Zero<u32> = Box::leak(Box::new(Zero::new(77u32)));
    // a with_zero arena is a static in real use and is never dropped (dropping it would free the
    // static zero bucket), so it is leaked here as well
    let arena: &'static AtomicArena<'static, u32> = Box::leak(Box::new(AtomicArena::with_zero(zero)));
    arena.verif_force_init();
    assert_eq!(arena.len(), 1);
    assert_eq!(*arena.get(Zero::<u32>::zero()), 77);
    let mut hs = vec![];
    for t in 0..2u32 {
        hs.push(thread::spawn(move || {
            let r = arena.add(100 + t);
            assert_eq!(*arena.get(r), 100 + t);
            assert_eq!(*arena.get(Zero::<u32>::zero()), 77);
            r.index()
        }));
    }
    let got: Vec<u32> = hs.into_iter().map(|h| h.join().unwrap()).collect();
    let set: BTreeSet<u32> = got.iter().copied().collect();
    assert_eq!(set, BTreeSet::from([1, 2]), "with_zero: additions must get references 1 and 2, got {got:?}");
    assert_eq!(arena.len(), 3);
    record(format!("{got:?}"), got[0] > got[1]);
}

// ---- C05: InternTable / ShardedSet under loom -------------------------------------------------

mod table {
    use intern::intern::{AsInterned, InternId, InternTable, Ref};
    use std::sync::atomic::{AtomicPtr, Ordering};

    #[derive(Clone, Eq, PartialEq, Hash, Debug)]
    pub struct Key(pub String);

    #[derive(Copy, Clone, Eq, PartialEq, Hash, Debug)]
    pub struct KeyId(Ref<Key>);

    static CURRENT: AtomicPtr<InternTable<KeyId, Key>> = AtomicPtr::new(std::ptr::null_mut());

    pub fn install() -> &'static InternTable<KeyId, Key> {
        let t: &'static InternTable<KeyId, Key> = Box::leak(Box::new(InternTable::new()));
        CURRENT.store(t as *const _ as *mut _, Ordering::SeqCst);
        t
    }
    /// free the table of the finished execution (drops the loom objects inside it)
    pub fn uninstall() {
        let p = CURRENT.swap(std::ptr::null_mut(), Ordering::SeqCst);
        if !p.is_null() {
            drop(unsafe { Box::from_raw(p) });
        }
    }

    impl InternId for KeyId {
        type Intern = Key;
        type Lookup = Key;
        fn wrap(r: Ref<Key>) -> Self {
            KeyId(r)
        }
        fn unwrap(self) -> Ref<Key> {
            self.0
        }
        fn table() -> &'static InternTable<KeyId, Key> {
            unsafe { &*CURRENT.load(Ordering::SeqCst) }
        }
    }
    impl std::borrow::Borrow<Key> for AsInterned<KeyId> {
        fn borrow(&self) -> &Key {
            self.0.get()
        }
    }
}

fn shard_of(s: &str) -> u64 {
    let s = &table::Key(s.to_string());
    use std::hash::{Hash, Hasher};
    let mut h = fnv::FnvHasher::default();
    s.hash(&mut h);
    (h.finish() >> (64 - 7 - 6)) & 63
}

/// three keys: x and y in the same shard, z in another
fn keys() -> (String, String, String) {
    let x = "k0".to_string();
    let sx = shard_of(&x);
    let mut y = None;
    let mut z = None;
    for i in 1..100_000 {
        let c = format!("k{i}");
        if shard_of(&c) == sx && y.is_none() {
            y = Some(c);
        } else if shard_of(&c) != sx && z.is_none() {
            z = Some(c);
        }
        if y.is_some() && z.is_some() {
            break;
        }
    }
    (x, y.unwrap(), z.unwrap())
}

/// T1 interns [x, y], T2 interns [y, z] (x,y share a shard), optional T3 looks up y and reads it.
fn m_intern(with_reader: bool) {
    use intern::intern::InternId;
    use table::{Key, KeyId};
    let (x, y, z) = keys();
    let t = table::install();
    t.verif_force_init();
    let sets = [vec![x.clone(), y.clone()], vec![y.clone(), z.clone()]];
    let mut hs = vec![];
    for set in sets {
        hs.push(thread::spawn(move || {
            let mut out = vec![];
            for k in set {
                let id = KeyId::intern(Key(k.clone()));
                assert_eq!(id.get().0, k, "get(intern(k)) != k");
                assert_eq!(KeyId::get_interned(&Key(k.clone())), Some(id), "get_interned after intern");
                out.push((k, id.index()));
            }
            out
        }));
    }
    let reader = with_reader.then(|| {
        let y = y.clone();
        thread::spawn(move || match KeyId::get_interned(&Key(y.clone())) {
            Some(id) => {
                assert_eq!(id.get().0, y, "reader: id reads a different value");
                Some(id.index())
            }
            None => None,
        })
    });
    let r1 = hs.remove(0).join().unwrap();
    let r2 = hs.remove(0).join().unwrap();
    let seen = reader.map(|r| r.join().unwrap());
    // bijection across threads
    let all: Vec<(String, u32)> = r1.iter().chain(r2.iter()).cloned().collect();
    for a in &all {
        for b in &all {
            assert_eq!(a.0 == b.0, a.1 == b.1, "intern is not a bijection: {all:?}");
        }
    }
    let ids: BTreeSet<u32> = all.iter().map(|a| a.1).collect();
    assert_eq!(ids, BTreeSet::from([0, 1, 2]), "ids must be dense: {all:?}");
    assert_eq!(t.len(), 3, "table length");
    if let Some(Some(i)) = seen {
        assert_eq!(Some(i), all.iter().find(|a| a.0 == y).map(|a| a.1), "reader saw a different id for y");
    }
    // stable: interning again returns the same ids
    for (k, i) in &all {
        assert_eq!(KeyId::intern(Key(k.clone())).index(), *i, "id not stable");
    }
    let y1 = r1.iter().find(|a| a.0 == y).unwrap().1;
    record(format!("{all:?}/{seen:?}"), y1 != 1);
    table::uninstall();
}

// ---- driver -------------------------------------------------------------------------------------

struct ModelSpec {
    name: &'static str,
    property: &'static str,
    /// preemption bound per tier (None = unbounded)
    bound: fn(Tier) -> Option<usize>,
    run: fn(),
    what: &'static str,
}

fn specs() -> Vec<ModelSpec> {
    vec![
        ModelSpec { name: "arena_2x2", property: "C06", bound: |t| t.pick(Some(2), Some(4)), run: || m_adders(2, 2, 0), what: "2 threads x 2 adds, read back, len monotone, drop counts" },
        ModelSpec { name: "arena_boundary_2x2", property: "C06", bound: |t| t.pick(Some(2), Some(4)), run: || m_adders(2, 2, 127), what: "127 sequential adds, then 2 threads x 2 adds racing across the first bucket boundary (slice_for_slot_slow)" },
        ModelSpec { name: "arena_boundary_3x1", property: "C06", bound: |t| t.pick(Some(1), Some(3)), run: || m_adders(3, 1, 127), what: "127 sequential adds, then 3 threads x 1 add racing to allocate the same bucket" },
        ModelSpec { name: "arena_fill_exact_2x1", property: "C06", bound: |t| t.pick(Some(3), None), run: || m_adders(2, 1, 126), what: "126 sequential adds, then 2 threads x 1 add fill the first bucket exactly; drop of an exactly full last bucket" },
        ModelSpec { name: "arena_seq_lengths", property: "C06", bound: |_| Some(1), run: m_seq_lengths, what: "sequential: every length around the first three bucket boundaries (0..2, 126..130, 255..256, 382..386, 895..897): dense indices, read back, exactly-once drop" },
        ModelSpec { name: "arena_3x2", property: "C06", bound: |t| t.pick(Some(1), Some(2)), run: || m_adders(3, 2, 0), what: "3 threads x 2 adds" },
        ModelSpec { name: "arena_reader", property: "C06", bound: |t| t.pick(Some(1), Some(3)), run: || m_reader(0), what: "2 adders publish Refs through a mutex, reader thread reads them back and observes len twice" },
        ModelSpec { name: "arena_reader_boundary", property: "C06", bound: |t| t.pick(Some(1), Some(3)), run: || m_reader(127), what: "same, additions land in a freshly allocated bucket" },
        ModelSpec { name: "arena_with_zero", property: "C06", bound: |t| t.pick(Some(3), None), run: m_with_zero, what: "arena created with_zero, 2 adders, zero element stays readable" },
        ModelSpec { name: "intern_2", property: "C05", bound: |t| t.pick(Some(2), Some(4)), run: || m_intern(false), what: "T1 interns [x,y], T2 interns [y,z]; x,y share a shard" },
        ModelSpec { name: "intern_2_reader", property: "C05", bound: |t| t.pick(Some(2), Some(3)), run: || m_intern(true), what: "same + T3 get_interned(y) and get" },
    ]
}

fn worker(args: &Args, name: &str) {
    let spec = specs().into_iter().find(|s| s.name == name).unwrap_or_else(|| machinery_error("unknown model"));
    let mut b = loom::model::Builder::new();
    b.preemption_bound = (spec.bound)(args.tier);
    b.max_branches = 100_000;
    if let Some(p) = args.rest.iter().position(|a| a == "--checkpoint") {
        b.checkpoint_file = Some(args.rest[p + 1].clone().into());
        b.checkpoint_interval = 1;
    }
    let start = std::time::Instant::now();
    b.check(spec.run);
    let outcomes = OUTCOMES.lock().unwrap();
    worker_emit(&json!({
        "model": name,
        "executions": EXECUTIONS.load(StdOrdering::Relaxed),
        "contended": CONTENDED.load(StdOrdering::Relaxed),
        "outcomes": outcomes.len(),
        "sample_outcomes": outcomes.iter().take(3).collect::<Vec<_>>(),
        "preemption_bound": (spec.bound)(args.tier),
        "wall_s": start.elapsed().as_secs_f64(),
    }));
}

pub fn main(args: &Args) {
    if let Some(w) = &args.worker {
        worker(args, w);
        return;
    }
    let mine: Vec<ModelSpec> = specs().into_iter().filter(|s| s.property == args.property).collect();
    if let Some(path) = &args.replay {
        // replay = rerun one model from the checkpoint loom wrote when it failed
        let v = read_replay(path);
        let model = v["case"]["model"].as_str().unwrap_or_else(|| machinery_error("replay lacks model")).to_string();
        let cp = v["case"]["checkpoint"].as_str().map(|s| s.to_string());
        let mut extra = vec![];
        if let Some(cp) = cp.filter(|c| std::path::Path::new(c).exists()) {
            extra = vec!["--checkpoint".to_string(), cp];
        }
        let out = run_pool(&args.property, args.tier, vec![model.clone()], 1, &extra, Duration::from_secs(3600));
        if out[0].crashed() {
            println!("REPLAY: model {model} fails: {}", out[0].stderr_tail.lines().rev().take(6).collect::<Vec<_>>().join(" | "));
            println!("VIOLATION property={} replay={}", args.property, path.display());
            std::process::exit(1);
        }
        println!("REPLAY: model {model} passes");
        std::process::exit(0);
    }
    let mut ev = Evidence::new(args, "model_checking");
    let scratch = Scratch::new("loom");
    let shards: Vec<String> = mine.iter().map(|s| s.name.to_string()).collect();
    // one checkpoint file per model so that a failing schedule can be replayed
    let mut outs = vec![];
    {
        let handles: Vec<_> = shards
            .iter()
            .map(|name| {
                let cp = scratch.path().join(format!("{name}.checkpoint.json"));
                let extra = vec!["--checkpoint".to_string(), cp.display().to_string()];
                let (p, t, n) = (args.property.clone(), args.tier, name.clone());
                std::thread::spawn(move || run_pool(&p, t, vec![n], 1, &extra, Duration::from_secs(t.pick(900, 6 * 3600))).remove(0))
            })
            .collect();
        for h in handles {
            outs.push(h.join().unwrap());
        }
    }
    let mut verdict = Verdict::new(&args.property);
    let mut per_model = vec![];
    let (mut execs, mut contended, mut outcomes) = (0u64, 0u64, 0u64);
    for (o, spec) in outs.iter().zip(mine.iter()) {
        match &o.result {
            Some(v) => {
                execs += v["executions"].as_u64().unwrap_or(0);
                contended += v["contended"].as_u64().unwrap_or(0);
                outcomes += v["outcomes"].as_u64().unwrap_or(0);
                let mut v = v.clone();
                v["what"] = json!(spec.what);
                per_model.push(v);
            }
            None => {
                // keep the failing checkpoint next to the replay file
                let keep = verif_root().join("replays").join(&args.property);
                let _ = std::fs::create_dir_all(&keep);
                let cp_src = scratch.path().join(format!("{}.checkpoint.json", spec.name));
                let cp_dst = keep.join(format!("{}.checkpoint.json", spec.name));
                let _ = std::fs::copy(&cp_src, &cp_dst);
                let msg: Vec<&str> = o.stderr_tail.lines().filter(|l| l.contains("panicked") || l.contains("assert") || l.contains("left:") || l.contains("right:") || l.contains("deadlock") || l.contains("Causality")).collect();
                let what = if o.timed_out { format!("model {} did not finish within the time cap", spec.name) } else { format!("model {} ({}) fails under some schedule: {}", spec.name, spec.what, msg.join(" | ")) };
                if o.timed_out {
                    machinery_error(&what);
                }
                let sig_msg = msg.iter().find(|l| !l.contains("panicked at")).map(|s| s.trim()).unwrap_or("").chars().filter(|c| !c.is_ascii_digit()).take(60).collect::<String>();
                verdict.add(Violation { signature: format!("loom:{}:{}", spec.name, sig_msg), what, case: json!({"model": spec.name, "checkpoint": cp_dst.display().to_string()}) });
            }
        }
    }
    // C05 also has a sequential, bounded-exhaustive part that runs on std primitives
    let mut seq = serde_json::Value::Null;
    if args.property == "C05" {
        let exe = std::env::var("INTERN_MC_STD_EXE").unwrap_or_else(|_| machinery_error("INTERN_MC_STD_EXE not set (use ./check)"));
        let out = run_pool_with_exe(std::path::Path::new(&exe), "C05-seq", args.tier, vec!["all".to_string()], 1, &[], Duration::from_secs(3600), &[]);
        match &out[0].result {
            Some(v) => {
                for viol in v["violations"].as_array().cloned().unwrap_or_default() {
                    verdict.add(serde_json::from_value(viol).unwrap());
                }
                seq = v["stats"].clone();
            }
            None => {
                verdict.add(Violation { signature: "seq-crash".to_string(), what: format!("sequential sweep crashed: {}", out[0].stderr_tail), case: json!({"model": "seq"}) });
            }
        }
    }
    let (code, n_new, known) = verdict.conclude("intern_mc");
    ev.violations = n_new as i64;
    ev.set("states", outcomes)
        .set("transitions", execs)
        .set("traces_validated_against_impl", execs)
        .set("evaluations", execs)
        .set("distinct_nontrivial", contended)
        .set("rule", "loom executions (one per explored schedule) of the real code; states = distinct final observation tuples; non-trivial = executions in which the threads' operations were observably reordered (indices/ids assigned out of spawn order, or the reader saw a published element)")
        .set("models", json!(per_model))
        .set("samples", json!(per_model.iter().map(|m| json!({"model": m["model"], "sample_outcomes": m["sample_outcomes"]})).collect::<Vec<_>>()))
        .set("known_findings_reobserved", json!(known))
        .set("exhaustive", per_model.iter().all(|m| m["preemption_bound"].is_null()));
    if !seq.is_null() {
        ev.set("sequential_sweep", seq);
    }
    ev.assume("loom's C11 model; the raw slot memory of the arena is not tracked by loom (races on it are visible only through the bucket AtomicPtr / the index counter)")
        .assume("once_cell lazy construction of the shards is forced in the parent thread and not explored")
        .assume("the cfg shim relay-crates/intern/src/verif_sync.rs maps parking_lot/std primitives to loom faithfully");
    ev.write();
    if mine.iter().zip(outs.iter()).any(|(_, o)| o.result.as_ref().is_some_and(|v| v["outcomes"].as_u64().unwrap_or(0) < 2)) {
        machinery_error("vacuous model: a model produced fewer than 2 distinct outcomes");
    }
    println!("intern_mc {}: {} schedules over {} models, {} distinct outcomes, {} new violation signature(s)", args.property, execs, mine.len(), outcomes, n_new);
    std::process::exit(code);
}

//! intern_mc — model checking of the forked `intern` crate.
//!
//! Two builds of this one binary:
//!   * with `--cfg isographlabs_isograph_verif_loom` (target-loom/): loom explores thread
//!     interleavings of the real `AtomicArena` (C06) and `InternTable`/`ShardedSet` (C05);
//!   * without it (target/): the bounded-exhaustive sequential sweep of C05 (bijection, ordering,
//!     serde round trips) on std primitives. The loom build calls the std build as a subprocess
//!     for C05 and merges both into one evidence file.

#[cfg(isographlabs_isograph_verif_loom)]
mod models;
mod seq;

use mc_core::*;

fn main() {
    let args = Args::parse();
    match args.property.as_str() {
        "C05-seq" => seq::main(&args),
        #[cfg(isographlabs_isograph_verif_loom)]
        "C05" | "C06" => models::main(&args),
        _ => machinery_error("intern_mc serves C05 and C06 (loom build) and C05-seq (std build)"),
    }
}

//! A project = schema + schema extension + source files with iso literals + config options.
use serde::{Deserialize, Serialize};
use std::path::Path;

#[derive(Debug, Clone, Serialize, Deserialize, Default, PartialEq, Eq)]
pub struct Project {
    pub schema: String,
    pub extension: Option<String>,
    /// (path relative to src/, content)
    pub files: Vec<(String, String)>,
    /// the JSON object placed under "options" in isograph.config.json
    pub options: serde_json::Value,
}

impl Project {
    pub fn write_to(&self, dir: &Path) {
        let _ = std::fs::remove_dir_all(dir);
        std::fs::create_dir_all(dir.join("src")).unwrap();
        std::fs::write(dir.join("schema.graphql"), &self.schema).unwrap();
        let mut cfg = serde_json::json!({"project_root": "./src", "schema": "./schema.graphql", "options": self.options});
        if self.options.is_null() {
            cfg["options"] = serde_json::json!({});
        }
        if let Some(e) = &self.extension {
            std::fs::write(dir.join("schema-extension.graphql"), e).unwrap();
            cfg["schema_extensions"] = serde_json::json!(["./schema-extension.graphql"]);
        }
        std::fs::write(dir.join("isograph.config.json"), serde_json::to_string_pretty(&cfg).unwrap()).unwrap();
        for (p, c) in &self.files {
            let f = dir.join("src").join(p);
            std::fs::create_dir_all(f.parent().unwrap()).unwrap();
            std::fs::write(f, c).unwrap();
        }
    }
}

/// wrap iso literals into a source file the way user code does
pub fn source_file(literals: &[(Option<&str>, String)]) -> String {
    let mut out = String::from("import { iso } from '@iso';\n\n");
    for (export, lit) in literals {
        match export {
            Some(name) => out.push_str(&format!("export const {name} = iso(`\n{lit}\n`)(function X({{ data }}) {{ return data; }});\n\n")),
            None => out.push_str(&format!("const e_{} = iso(`{lit}`);\n\n", out.len())),
        }
    }
    out
}

//! The checked-in demo projects (/repo/demos/*) as additional cases: compiled from a scratch copy
//! by the real compiler, each with its own schema (+ extensions) as the reference schema.
use crate::driver::{self, Compiled};
use crate::gql::Schema;
use mc_core::*;
use serde_json::{Value as J, json};
use std::path::Path;

pub const DEMOS: [&str; 3] = ["pet-demo", "github-demo", "vite-demo"];

pub struct Demo {
    pub name: String,
    pub arts: Vec<(String, String)>,
    pub schema: Schema,
    pub config: J,
}

fn copy_dir(from: &Path, to: &Path) -> std::io::Result<()> {
    std::fs::create_dir_all(to)?;
    for e in std::fs::read_dir(from)? {
        let e = e?;
        let name = e.file_name();
        if ["node_modules", ".next", "dist", ".turbo", "__isograph"].contains(&name.to_string_lossy().as_ref()) {
            continue;
        }
        let p = e.path();
        if p.is_dir() {
            copy_dir(&p, &to.join(&name))?;
        } else if p.is_file() {
            std::fs::copy(&p, to.join(&name))?;
        }
    }
    Ok(())
}

/// compile one demo in a scratch copy (optionally with other options)
pub fn compile(name: &str, options: Option<J>) -> Demo {
    let scratch = Scratch::new("demo");
    let dir = scratch.path().join(name);
    copy_dir(&Path::new("/repo/demos").join(name), &dir).unwrap_or_else(|e| machinery_error(&format!("cannot copy demo {name}: {e}")));
    let mut cfg: J = serde_json::from_str(&std::fs::read_to_string(dir.join("isograph.config.json")).unwrap_or_default()).unwrap_or_else(|e| machinery_error(&format!("{name}: config: {e}")));
    if let Some(o) = options {
        let mut merged = cfg["options"].as_object().cloned().unwrap_or_default();
        for (k, v) in o.as_object().cloned().unwrap_or_default() {
            merged.insert(k, v);
        }
        cfg["options"] = J::Object(merged);
        std::fs::write(dir.join("isograph.config.json"), serde_json::to_string_pretty(&cfg).unwrap()).unwrap();
    }
    let arts = match driver::compile_dir(&dir) {
        Compiled::Ok(a) => a,
        Compiled::Diagnostics(d) => machinery_error(&format!("demo {name} does not compile: {}", d.first().cloned().unwrap_or_default())),
        Compiled::Panic(m) => machinery_error(&format!("demo {name}: compiler panicked: {m}")),
    };
    let mut sdl = std::fs::read_to_string(dir.join(cfg["schema"].as_str().unwrap_or("schema.graphql"))).unwrap_or_else(|e| machinery_error(&format!("{name}: schema: {e}")));
    for x in cfg["schema_extensions"].as_array().into_iter().flatten() {
        sdl.push('\n');
        sdl.push_str(&std::fs::read_to_string(dir.join(x.as_str().unwrap_or(""))).unwrap_or_default());
    }
    let schema = Schema::parse(&sdl).unwrap_or_else(|e| machinery_error(&format!("demo {name}: schema does not parse: {e}")));
    Demo { name: name.to_string(), arts, schema, config: cfg }
}

/// run `check` on every demo; failures become violations whose case is `{"demo": name}`
pub fn violations(check: &dyn Fn(&Demo) -> Vec<(String, String)>) -> (Vec<Violation>, u64) {
    let mut out = vec![];
    let mut artifacts = 0;
    for d in DEMOS {
        let demo = compile(d, None);
        artifacts += demo.arts.len() as u64;
        for (signature, what) in check(&demo) {
            out.push(Violation { signature, what: format!("[demo {d}] {what}"), case: json!({"demo": d}) });
        }
    }
    (out, artifacts)
}

/// `--replay` of a demo case; None if the replay file is not a demo case
pub fn replay_if_demo(args: &Args, check: &dyn Fn(&Demo) -> Vec<(String, String)>) -> Option<i32> {
    let path = args.replay.as_ref()?;
    let v = read_replay(path);
    let name = v["case"]["demo"].as_str()?.to_string();
    let run = || check(&compile(&name, None));
    let (a, b) = (run(), run());
    if a != b {
        machinery_error("replay of the demo is not deterministic");
    }
    if a.is_empty() {
        println!("REPLAY: no failure");
        return Some(0);
    }
    for f in &a {
        println!("REPLAY: [{}] {}", f.0, f.1);
    }
    println!("VIOLATION property={} replay={}", args.property, path.display());
    Some(1)
}

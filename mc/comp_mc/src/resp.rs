//! Conforming responses for an operation, enumerated from a schema (C10, C25).
//!
//! A response is the result of executing the operation against a *world*: a lazily unfolded graph of
//! entities in which every (entity, field, argument values) has one answer. The base world answers
//! every field with a non-null value, every list with one element, every abstract type with its
//! first possible type, every scalar with the first value of a two-value alphabet, and gives every
//! position its own entity (entity = path from the root, which is also its `id`). A world is the
//! base world plus a set of *deviations*, each keyed by the (entity, field+arguments) it changes:
//! null where the schema allows, list of length 0 / 2 / 2 with the same entity twice / with a null
//! element where allowed, another concrete type, the other scalar value, or "this field points to an
//! entity that another position of the response also returns" (ids collide, the normalized records
//! merge). Because deviations are keyed by entity and field, two positions that resolve to the same
//! entity always agree on its fields: every generated response is one a server with a consistent
//! state could return.
use crate::gql::{Kind, Schema, TypeRef};
use common::SourceLocationKey;
use graphql_syntax::*;
use serde_json::{Map, Value as J, json};
use std::collections::{BTreeMap, BTreeSet};

#[derive(Debug, Clone, PartialEq, Eq, PartialOrd, Ord, Hash, serde::Serialize, serde::Deserialize)]
pub enum Dev {
    Null,
    Len0,
    Len2,
    /// two elements, the same entity twice
    Len2Same,
    /// two elements, the first null
    ElemNull,
    /// i-th possible type (i >= 1) for the entity
    AltType(usize),
    AltScalar,
    /// the field returns this other entity
    Alias(String),
}

impl Dev {
    pub fn class(&self) -> &'static str {
        match self {
            Dev::Null => "null",
            Dev::Len0 => "empty-list",
            Dev::Len2 => "two-elements",
            Dev::Len2Same => "same-entity-twice",
            Dev::ElemNull => "null-element",
            Dev::AltType(_) => "other-concrete-type",
            Dev::AltScalar => "other-scalar",
            Dev::Alias(_) => "shared-entity",
        }
    }
}

pub type World = BTreeMap<String, Dev>;

pub struct Operation {
    #[allow(dead_code)]
    pub text: String,
    pub doc: ExecutableDocument,
    pub root: &'static str,
    /// (name, type)
    pub variables: Vec<(String, TypeRef)>,
}

pub fn parse_operation(text: &str) -> Result<Operation, String> {
    let doc = parse_executable(text, SourceLocationKey::Generated).map_err(|e| e.iter().map(|d| d.message().to_string()).collect::<Vec<_>>().join("; "))?;
    let Some(ExecutableDefinition::Operation(op)) = doc.definitions.first() else { return Err("no operation".into()) };
    let root = match op.operation_kind() {
        OperationKind::Query => "Query",
        OperationKind::Mutation => "Mutation",
        OperationKind::Subscription => "Subscription",
    };
    let variables = op.variable_definitions.iter().flat_map(|l| l.items.iter()).map(|v| (v.name.name.to_string(), TypeRef::from_ast(&v.type_))).collect();
    Ok(Operation { text: text.to_string(), doc, root, variables })
}

impl Operation {
    pub fn op(&self) -> &OperationDefinition {
        match self.doc.definitions.first() {
            Some(ExecutableDefinition::Operation(op)) => op,
            _ => unreachable!(),
        }
    }
}

/// a value of an input type (variables): first value of the alphabet
pub fn input_value(schema: &Schema, ty: &TypeRef, depth: usize) -> J {
    match ty {
        TypeRef::NonNull(t) => input_value(schema, t, depth),
        TypeRef::List(t) => json!([input_value(schema, t, depth)]),
        TypeRef::Named(n) => match (n.as_str(), schema.types.get(n).map(|t| &t.kind)) {
            ("ID", _) => json!("1"),
            ("Int", _) => json!(1),
            ("Float", _) => json!(1.5),
            ("String", _) => json!("a"),
            ("Boolean", _) => json!(true),
            (_, Some(Kind::Enum)) => json!(schema.types[n].enum_values.first().cloned().unwrap_or_default()),
            (_, Some(Kind::Input)) => {
                let mut m = Map::new();
                if depth < 3 {
                    for (k, fd) in &schema.types[n].fields {
                        m.insert(k.clone(), input_value(schema, &fd.ty, depth + 1));
                    }
                }
                J::Object(m)
            }
            _ => json!("x"),
        },
    }
}

/// Variable assignments: everything set; then each nullable variable omitted in turn.
pub fn variable_assignments(schema: &Schema, op: &Operation) -> Vec<Map<String, J>> {
    let mut full = Map::new();
    for (n, t) in &op.variables {
        full.insert(n.clone(), input_value(schema, t, 0));
    }
    let mut out = vec![full.clone()];
    for (n, t) in &op.variables {
        if !t.is_non_null() {
            let mut m = full.clone();
            m.remove(n);
            out.push(m);
        }
    }
    out
}

fn scalar_value(schema: &Schema, name: &str, alt: bool) -> J {
    match (name, schema.types.get(name).map(|t| &t.kind)) {
        ("Int", _) => json!(if alt { 2 } else { 1 }),
        ("Float", _) => json!(if alt { 2.5 } else { 1.5 }),
        ("String", _) => json!(if alt { "b" } else { "a" }),
        ("Boolean", _) => json!(!alt),
        ("ID", _) => json!(if alt { "i2" } else { "i1" }),
        (_, Some(Kind::Enum)) => {
            let v = &schema.types[name].enum_values;
            json!(v.get(if alt { 1 } else { 0 }).or(v.first()).cloned().unwrap_or_default())
        }
        _ => json!(if alt { "x2" } else { "x1" }),
    }
}

fn value_json(v: &Value, vars: &Map<String, J>) -> J {
    match v {
        Value::Variable(x) => vars.get(&x.name.to_string()).cloned().unwrap_or(J::Null),
        Value::Constant(c) => const_json(c),
        Value::List(l) => J::Array(l.items.iter().map(|i| value_json(i, vars)).collect()),
        Value::Object(o) => {
            let m: BTreeMap<String, J> = o.items.iter().map(|a| (a.name.value.to_string(), value_json(&a.value, vars))).filter(|(_, v)| !v.is_null()).collect();
            J::Object(m.into_iter().collect())
        }
    }
}
fn const_json(c: &ConstantValue) -> J {
    match c {
        ConstantValue::Int(i) => json!(i.value),
        ConstantValue::Float(f) => json!(f.source_value.to_string()),
        ConstantValue::String(s) => json!(s.value.to_string()),
        ConstantValue::Boolean(b) => json!(b.value),
        ConstantValue::Null(_) => J::Null,
        ConstantValue::Enum(e) => json!(e.value.to_string()),
        ConstantValue::List(l) => J::Array(l.items.iter().map(const_json).collect()),
        ConstantValue::Object(o) => {
            let m: BTreeMap<String, J> = o.items.iter().map(|a| (a.name.value.to_string(), const_json(&a.value))).filter(|(_, v)| !v.is_null()).collect();
            J::Object(m.into_iter().collect())
        }
    }
}

fn args_key(args: &Option<List<Argument>>, vars: &Map<String, J>) -> String {
    let m: BTreeMap<String, J> = args.iter().flat_map(|l| l.items.iter()).map(|a| (a.name.value.to_string(), value_json(&a.value, vars))).filter(|(_, v)| !v.is_null()).collect();
    if m.is_empty() { String::new() } else { format!("({})", m.iter().map(|(k, v)| format!("{k}:{v}")).collect::<Vec<_>>().join(",")) }
}

pub struct Eval<'a> {
    pub schema: &'a Schema,
    pub vars: &'a Map<String, J>,
    pub world: &'a World,
    /// deviation points met, in evaluation order: (key, options)
    pub touched: Vec<(String, Vec<Dev>)>,
    seen: BTreeSet<String>,
    /// entities met: (entity, concrete type)
    pub entities: Vec<(String, String)>,
    /// object-valued fields met: (deviation key, declared type name, child entity) — candidates for `Alias`
    links: Vec<(String, String, String)>,
    pub problems: Vec<String>,
    /// response path (keys / indices) of every object, by entity id and concrete type
    pub positions: Vec<(String, String, Vec<J>)>,
}

/// (outer nullable, list?, element nullable, named type)
fn shape(t: &TypeRef) -> Result<(bool, bool, bool, String), String> {
    let outer_nullable = !t.is_non_null();
    match t.nullable() {
        TypeRef::Named(n) => Ok((outer_nullable, false, false, n.clone())),
        TypeRef::List(inner) => {
            let elem_nullable = !inner.is_non_null();
            match inner.nullable() {
                TypeRef::Named(n) => Ok((outer_nullable, true, elem_nullable, n.clone())),
                _ => Err(format!("nested list type {t} is not supported by the response generator")),
            }
        }
        TypeRef::NonNull(_) => unreachable!(),
    }
}

impl<'a> Eval<'a> {
    pub fn new(schema: &'a Schema, vars: &'a Map<String, J>, world: &'a World) -> Self {
        Eval { schema, vars, world, touched: vec![], seen: BTreeSet::new(), entities: vec![], links: vec![], problems: vec![], positions: vec![] }
    }

    fn touch(&mut self, key: &str, options: Vec<Dev>) -> Option<Dev> {
        if !options.is_empty() && self.seen.insert(key.to_string()) {
            self.touched.push((key.to_string(), options));
        }
        self.world.get(key).cloned()
    }

    fn concrete_type(&mut self, entity: &str, declared: &str) -> String {
        let possible: Vec<String> = self.schema.possible_types(declared).into_iter().collect();
        if possible.is_empty() {
            self.problems.push(format!("type {declared} has no possible types"));
            return declared.to_string();
        }
        let key = format!("{entity}#type");
        // the entity's type is a property of the entity: only positions that declare a supertype of it may offer alternatives
        let dev = self.touch(&key, (1..possible.len()).map(Dev::AltType).collect());
        match dev {
            Some(Dev::AltType(i)) if i < possible.len() => possible[i].clone(),
            _ => possible[0].clone(),
        }
    }

    fn object(&mut self, entity: &str, declared: &str, sels: &[Selection], path: &[J]) -> J {
        let ty = self.concrete_type(entity, declared);
        if !self.entities.iter().any(|(e, _)| e == entity) {
            self.entities.push((entity.to_string(), ty.clone()));
        }
        self.positions.push((entity.to_string(), ty.clone(), path.to_vec()));
        let mut out = Map::new();
        self.selection_set(entity, &ty, sels, &mut out, path);
        J::Object(out)
    }

    fn selection_set(&mut self, entity: &str, ty: &str, sels: &[Selection], out: &mut Map<String, J>, path: &[J]) {
        for s in sels {
            match s {
                Selection::ScalarField(f) => {
                    let name = f.name.value.to_string();
                    let rk = f.alias.as_ref().map(|a| a.alias.value.to_string()).unwrap_or(name.clone());
                    if name == "__typename" {
                        out.insert(rk, json!(ty));
                        continue;
                    }
                    let Some(fd) = self.schema.field(ty, &name) else {
                        self.problems.push(format!("type {ty} has no field {name}"));
                        continue;
                    };
                    let (nullable, list, _, named) = match shape(&fd.ty) {
                        Ok(s) => s,
                        Err(e) => {
                            self.problems.push(e);
                            continue;
                        }
                    };
                    let key = format!("{entity}.{name}{}", args_key(&f.arguments, self.vars));
                    if name == "id" && named == "ID" && !list {
                        out.insert(rk, json!(entity));
                        continue;
                    }
                    let mut options = vec![];
                    if nullable {
                        options.push(Dev::Null);
                    }
                    if list {
                        options.push(Dev::Len0);
                        options.push(Dev::Len2);
                    } else {
                        options.push(Dev::AltScalar);
                    }
                    let v = match self.touch(&key, options) {
                        Some(Dev::Null) if nullable => J::Null,
                        Some(Dev::Len0) if list => json!([]),
                        Some(Dev::Len2) if list => json!([scalar_value(self.schema, &named, false), scalar_value(self.schema, &named, true)]),
                        Some(Dev::AltScalar) if !list => scalar_value(self.schema, &named, true),
                        _ if list => json!([scalar_value(self.schema, &named, false)]),
                        _ => scalar_value(self.schema, &named, false),
                    };
                    out.insert(rk, v);
                }
                Selection::LinkedField(f) => {
                    let name = f.name.value.to_string();
                    let rk = f.alias.as_ref().map(|a| a.alias.value.to_string()).unwrap_or(name.clone());
                    let Some(fd) = self.schema.field(ty, &name) else {
                        self.problems.push(format!("type {ty} has no field {name}"));
                        continue;
                    };
                    let (nullable, list, elem_nullable, named) = match shape(&fd.ty) {
                        Ok(s) => s,
                        Err(e) => {
                            self.problems.push(e);
                            continue;
                        }
                    };
                    let key = format!("{entity}.{name}{}", args_key(&f.arguments, self.vars));
                    if self.schema.possible_types(&named).is_empty() {
                        // an interface nobody implements / an empty union: the only conforming answers are null or []
                        if nullable {
                            out.insert(rk, J::Null);
                        } else if list {
                            out.insert(rk, json!([]));
                        } else {
                            self.problems.push(format!("non-null field {ty}.{name} of type {named}, which has no possible types"));
                        }
                        continue;
                    }
                    let mut options = vec![];
                    if nullable {
                        options.push(Dev::Null);
                    }
                    if list {
                        options.extend([Dev::Len0, Dev::Len2, Dev::Len2Same]);
                        if elem_nullable {
                            options.push(Dev::ElemNull);
                        }
                    }
                    let dev = self.touch(&key, options);
                    let alias_key = format!("{key}#entity");
                    let first = match self.world.get(&alias_key) {
                        Some(Dev::Alias(e)) => e.clone(),
                        _ => {
                            if list {
                                format!("{key}[0]")
                            } else {
                                key.clone()
                            }
                        }
                    };
                    self.links.push((alias_key, named.clone(), first.clone()));
                    let mut p = path.to_vec();
                    p.push(json!(rk));
                    let v = if !list {
                        match dev {
                            Some(Dev::Null) if nullable => J::Null,
                            _ => self.object(&first, &named, &f.selections.items, &p),
                        }
                    } else {
                        let second = format!("{key}[1]");
                        let elems: Vec<Option<String>> = match dev {
                            Some(Dev::Null) if nullable => {
                                out.insert(rk, J::Null);
                                continue;
                            }
                            Some(Dev::Len0) => vec![],
                            Some(Dev::Len2) => vec![Some(first.clone()), Some(second)],
                            Some(Dev::Len2Same) => vec![Some(first.clone()), Some(first.clone())],
                            Some(Dev::ElemNull) if elem_nullable => vec![None, Some(first.clone())],
                            _ => vec![Some(first.clone())],
                        };
                        J::Array(
                            elems
                                .iter()
                                .enumerate()
                                .map(|(i, e)| match e {
                                    None => J::Null,
                                    Some(e) => {
                                        let mut pi = p.clone();
                                        pi.push(json!(i));
                                        self.object(e, &named, &f.selections.items, &pi)
                                    }
                                })
                                .collect(),
                        )
                    };
                    // the same response key twice (through fragments): merge objects
                    match (out.get_mut(&rk), v) {
                        (Some(J::Object(a)), J::Object(b)) => {
                            for (k, x) in b {
                                a.entry(k).or_insert(x);
                            }
                        }
                        (_, v) => {
                            out.insert(rk, v);
                        }
                    }
                }
                Selection::InlineFragment(fr) => {
                    let applies = match &fr.type_condition {
                        None => true,
                        Some(tc) => self.schema.possible_types(&tc.type_.value.to_string()).contains(ty),
                    };
                    if applies {
                        self.selection_set(entity, ty, &fr.selections.items, out, path);
                    }
                }
                Selection::FragmentSpread(sp) => self.problems.push(format!("fragment spread {} in a generated operation", sp.name.value)),
            }
        }
    }

    /// `Alias` options: an object-valued field may return an entity of the same concrete type that another field returns
    fn alias_options(&mut self) {
        let links = std::mem::take(&mut self.links);
        for (alias_key, declared, child) in &links {
            if self.world.contains_key(alias_key) {
                continue;
            }
            let possible = self.schema.possible_types(declared);
            let child_ty = self.entities.iter().find(|(e, _)| e == child).map(|(_, t)| t.clone());
            let opts: Vec<Dev> = self
                .entities
                .iter()
                .filter(|(e, t)| e != child && possible.contains(t) && Some(t) == child_ty.as_ref() && self.schema.field(t, "id").is_some())
                .take(3)
                .map(|(e, _)| Dev::Alias(e.clone()))
                .collect();
            if !opts.is_empty() && self.seen.insert(alias_key.clone()) {
                self.touched.push((alias_key.clone(), opts));
            }
        }
    }
}

pub struct Response {
    pub data: J,
    pub world: World,
    /// (entity id, concrete type, response path)
    pub positions: Vec<(String, String, Vec<J>)>,
}

pub fn evaluate(schema: &Schema, op: &Operation, vars: &Map<String, J>, world: &World) -> Result<(Response, Vec<(String, Vec<Dev>)>), String> {
    evaluate_from(schema, op, vars, world, if op.root == "Query" { "Q" } else { op.root })
}

/// `root_entity` names the root of the world: responses of different operations get disjoint entity ids
pub fn evaluate_from(schema: &Schema, op: &Operation, vars: &Map<String, J>, world: &World, root_entity: &str) -> Result<(Response, Vec<(String, Vec<Dev>)>), String> {
    let mut ev = Eval::new(schema, vars, world);
    let data = ev.object(root_entity, op.root, &op.op().selections.items, &[]);
    ev.alias_options();
    if let Some(p) = ev.problems.first() {
        return Err(p.clone());
    }
    Ok((Response { data, world: world.clone(), positions: ev.positions }, ev.touched))
}

/// All responses of worlds with at most `max_dev` deviations (deduplicated by response), in
/// simplest-first order; stops at `cap` responses (second value: cap hit).
pub fn enumerate(schema: &Schema, op: &Operation, vars: &Map<String, J>, max_dev: usize, cap: usize) -> Result<(Vec<Response>, bool), String> {
    let mut out: Vec<Response> = vec![];
    let mut seen_worlds: BTreeSet<String> = BTreeSet::new();
    let mut seen_responses: BTreeSet<u64> = BTreeSet::new();
    let mut frontier: Vec<World> = vec![World::new()];
    let mut capped = false;
    for depth in 0..=max_dev {
        let mut next = vec![];
        for w in &frontier {
            let (r, touched) = evaluate(schema, op, vars, w)?;
            let h = crate::sweep::fnv(&r.data.to_string());
            if seen_responses.insert(h) {
                if out.len() >= cap {
                    capped = true;
                    break;
                }
                out.push(r);
            }
            if depth < max_dev {
                for (key, options) in touched {
                    if w.contains_key(&key) {
                        continue;
                    }
                    for o in options {
                        let mut w2 = w.clone();
                        w2.insert(key.clone(), o);
                        if seen_worlds.insert(format!("{w2:?}")) {
                            next.push(w2);
                        }
                    }
                }
            }
        }
        if capped {
            break;
        }
        frontier = next;
    }
    Ok((out, capped))
}

/// The world in which the root field of a refetch-shaped operation (`node(id: $id) { ... on T { .. } }`)
/// returns an object of type T (the base world would pick the first possible type of the interface).
pub fn refetch_world(schema: &Schema, op: &Operation, vars: &Map<String, J>, root_entity: &str) -> World {
    let mut w = World::new();
    if let [Selection::LinkedField(f)] = op.op().selections.items.as_slice()
        && let Some(fd) = schema.field(op.root, &f.name.value.to_string())
        && let Some(Selection::InlineFragment(fr)) = f.selections.items.iter().find(|s| matches!(s, Selection::InlineFragment(_)))
        && let Some(tc) = &fr.type_condition
    {
        let possible: Vec<String> = schema.possible_types(fd.ty.named()).into_iter().collect();
        let want: Vec<String> = schema.possible_types(&tc.type_.value.to_string()).into_iter().collect();
        if let Some(i) = possible.iter().position(|p| want.contains(p))
            && i > 0
        {
            let entity = format!("{root_entity}.{}{}", f.name.value, args_key(&f.arguments, vars));
            w.insert(format!("{entity}#type"), Dev::AltType(i));
        }
    }
    w
}

//! Generic compile sweep: enumerate programs, compile each in a crash-isolated worker, hand the
//! result to a property-specific oracle.

use crate::driver::{self, Compiled};
use crate::progx::{Menu, Program, programs};
use mc_core::*;
use serde::{Deserialize, Serialize};
use serde_json::{Value, json};
use std::path::Path;
use std::time::Duration;

#[derive(Debug, Clone, Serialize, Deserialize)]
pub struct Family {
    pub menu: Menu,
    pub k: usize,
}

pub fn family_programs(f: &Family) -> Vec<Program> {
    programs(f.menu, f.k)
}

#[derive(Debug, Clone, Serialize, Deserialize)]
pub struct Shard {
    pub family: Family,
    pub lo: usize,
    pub hi: usize,
    /// file in which the worker records the index it is about to compile (crash attribution)
    pub progress_file: String,
}

#[derive(Debug, Default, Serialize, Deserialize)]
pub struct ShardStats {
    pub programs: u64,
    pub accepted: u64,
    pub rejected: u64,
    pub artifacts: u64,
    pub outcomes: std::collections::BTreeSet<u64>,
    /// (program index, signature, what, case)
    pub failures: Vec<(usize, String, String, Value)>,
    pub samples: Vec<Value>,
    pub extra: std::collections::BTreeMap<String, u64>,
}

pub fn fnv(s: &str) -> u64 {
    let mut h: u64 = 0xcbf29ce484222325;
    for b in s.bytes() {
        h ^= b as u64;
        h = h.wrapping_mul(0x100000001b3);
    }
    h
}

pub struct Ctx<'a> {
    pub program: &'a Program,
    pub index: usize,
    pub dir: &'a Path,
    pub result: &'a Compiled,
}

/// The oracle returns failures as (signature, what).
pub type Oracle = fn(&Ctx<'_>, &mut ShardStats) -> Vec<(String, String)>;

pub fn worker(shard: &str, oracle: Oracle) {
    worker_with_finish(shard, oracle, |_| {})
}

/// `finish` runs once after the shard's programs (batch work such as one node invocation per shard)
pub fn worker_with_finish(shard: &str, oracle: Oracle, finish: fn(&mut ShardStats)) {
    quiet_panics();
    let sh: Shard = serde_json::from_str(shard).unwrap_or_else(|e| machinery_error(&format!("bad shard {e}")));
    let progs = family_programs(&sh.family);
    let scratch = Scratch::new("comp");
    let dir = scratch.path().join("p");
    let mut stats = ShardStats::default();
    for i in sh.lo..sh.hi.min(progs.len()) {
        let _ = std::fs::write(&sh.progress_file, i.to_string());
        let p = &progs[i];
        p.project().write_to(&dir);
        let result = driver::compile_dir(&dir);
        stats.programs += 1;
        match &result {
            Compiled::Ok(a) => {
                stats.accepted += 1;
                stats.artifacts += a.len() as u64;
                stats.outcomes.insert(fnv(&a.iter().map(|(p, c)| format!("{p}\u{0}{c}")).collect::<String>()));
            }
            Compiled::Diagnostics(d) => {
                stats.rejected += 1;
                stats.outcomes.insert(fnv(&d.join("\u{0}")));
            }
            Compiled::Panic(_) => {}
        }
        let ctx = Ctx { program: p, index: i, dir: &dir, result: &result };
        for (sig, what) in oracle(&ctx, &mut stats) {
            if stats.failures.len() < 200 {
                stats.failures.push((i, sig, what, json!({"family": sh.family, "index": i, "literals": p.literals().iter().map(|l| l.1.clone()).collect::<Vec<_>>()})));
            }
        }
        if stats.samples.len() < 2 {
            stats.samples.push(json!({"family": sh.family, "index": i, "literals": p.literals().iter().map(|l| l.1.clone()).collect::<Vec<_>>()}));
        }
    }
    finish(&mut stats);
    worker_emit(&serde_json::to_value(&stats).unwrap());
}

pub struct SweepResult {
    pub stats: ShardStats,
    pub violations: Vec<Violation>,
    pub families: Vec<(Family, usize)>,
}

/// Run all families through the pool. A worker that dies (abort, stack overflow) is attributed to
/// the program index it recorded and reported as a violation with signature `crash:<signal>`.
pub fn run(args: &Args, families: Vec<Family>) -> SweepResult {
    let scratch = Scratch::new("comp-main");
    let mut shards = vec![];
    let mut fams = vec![];
    for f in &families {
        let n = family_programs(f).len();
        fams.push((f.clone(), n));
        let chunk = n.div_ceil(args.jobs * 3).max(1);
        let mut lo = 0;
        while lo < n {
            let pf = scratch.path().join(format!("progress-{}", shards.len()));
            shards.push(serde_json::to_string(&Shard { family: f.clone(), lo, hi: (lo + chunk).min(n), progress_file: pf.display().to_string() }).unwrap());
            lo += chunk;
        }
    }
    let mut total = ShardStats::default();
    let mut violations = vec![];
    let mut pending = shards;
    // a crashed shard is resumed after the crashing program so that one crash does not hide the rest
    let mut rounds = 0;
    while !pending.is_empty() && rounds < 50 {
        rounds += 1;
        let outs = run_pool(&args.property, args.tier, pending.clone(), args.jobs, &[], Duration::from_secs(args.tier.pick(900, 4 * 3600)));
        pending.clear();
        for o in outs {
            let sh: Shard = serde_json::from_str(&o.shard).unwrap();
            match o.result {
                Some(v) => {
                    let st: ShardStats = serde_json::from_value(v).unwrap_or_else(|e| machinery_error(&format!("bad worker result {e}")));
                    total.programs += st.programs;
                    total.accepted += st.accepted;
                    total.rejected += st.rejected;
                    total.artifacts += st.artifacts;
                    total.outcomes.extend(st.outcomes);
                    for (k, v) in st.extra {
                        *total.extra.entry(k).or_default() += v;
                    }
                    if total.samples.len() < 6 {
                        total.samples.extend(st.samples.into_iter().take(1));
                    }
                    for (_, sig, what, case) in st.failures {
                        violations.push(Violation { signature: sig, what, case });
                    }
                }
                None => {
                    let at: usize = std::fs::read_to_string(&sh.progress_file).ok().and_then(|s| s.trim().parse().ok()).unwrap_or(sh.lo);
                    let progs = family_programs(&sh.family);
                    let lits: Vec<String> = progs.get(at).map(|p| p.literals().iter().map(|l| l.1.clone()).collect()).unwrap_or_default();
                    let reason = if o.timed_out { "timeout".to_string() } else { format!("signal {:?} exit {:?}", o.signal, o.exit) };
                    let msg = o.stderr_tail.lines().find(|l| l.contains("overflowed its stack") || l.contains("panicked") || l.contains("fatal")).unwrap_or("").to_string();
                    violations.push(Violation {
                        signature: format!("crash:{}", if msg.contains("overflowed its stack") { "stack-overflow" } else { "abort" }),
                        what: format!("the compiler process died ({reason}) on program #{at} of {:?}: {} :: {}", sh.family, msg, lits.join(" || ").replace('\n', " ")),
                        case: json!({"family": sh.family, "index": at, "literals": lits}),
                    });
                    total.programs += (at - sh.lo) as u64 + 1;
                    if at + 1 < sh.hi {
                        pending.push(serde_json::to_string(&Shard { lo: at + 1, ..sh }).unwrap());
                    }
                }
            }
        }
    }
    SweepResult { stats: total, violations, families: fams }
}

/// Like `run`, with the total number of shards chosen by the caller (engines whose shards carry a
/// fixed cost, e.g. one node process each, want fewer and larger shards). Shards are sized
/// proportionally: every family is cut into pieces of about total/target programs.
pub fn run_with(args: &Args, families: Vec<Family>, target_shards: usize) -> SweepResult {
    let scratch = Scratch::new("comp-main");
    let mut shards = vec![];
    let mut fams = vec![];
    let total_programs: usize = families.iter().map(|f| family_programs(f).len()).sum();
    let chunk = total_programs.div_ceil(target_shards.max(1)).max(1);
    for f in &families {
        let n = family_programs(f).len();
        fams.push((f.clone(), n));
        let mut lo = 0;
        while lo < n {
            let pf = scratch.path().join(format!("progress-{}", shards.len()));
            shards.push(serde_json::to_string(&Shard { family: f.clone(), lo, hi: (lo + chunk).min(n), progress_file: pf.display().to_string() }).unwrap());
            lo += chunk;
        }
    }
    let mut total = ShardStats::default();
    let mut violations = vec![];
    let mut pending = shards;
    let mut rounds = 0;
    while !pending.is_empty() && rounds < 50 {
        rounds += 1;
        let outs = run_pool(&args.property, args.tier, pending.clone(), args.jobs, &[], Duration::from_secs(args.tier.pick(900, 4 * 3600)));
        pending.clear();
        for o in outs {
            let sh: Shard = serde_json::from_str(&o.shard).unwrap();
            match o.result {
                Some(v) => {
                    let st: ShardStats = serde_json::from_value(v).unwrap_or_else(|e| machinery_error(&format!("bad worker result {e}")));
                    total.programs += st.programs;
                    total.accepted += st.accepted;
                    total.rejected += st.rejected;
                    total.artifacts += st.artifacts;
                    total.outcomes.extend(st.outcomes);
                    for (k, v) in st.extra {
                        *total.extra.entry(k).or_default() += v;
                    }
                    if total.samples.len() < 6 {
                        total.samples.extend(st.samples.into_iter().take(1));
                    }
                    for (_, sig, what, case) in st.failures {
                        violations.push(Violation { signature: sig, what, case });
                    }
                }
                None => {
                    // exit code 2 is a worker that stopped with MACHINERY-ERROR: never a verdict
                    if o.exit == Some(2) && !o.timed_out {
                        let msg = o.stderr_tail.lines().find(|l| l.contains("MACHINERY-ERROR")).unwrap_or("MACHINERY-ERROR in a worker").to_string();
                        machinery_error(msg.trim_start_matches("MACHINERY-ERROR: "));
                    }
                    let at: usize = std::fs::read_to_string(&sh.progress_file).ok().and_then(|s| s.trim().parse().ok()).unwrap_or(sh.lo);
                    let progs = family_programs(&sh.family);
                    let lits: Vec<String> = progs.get(at).map(|p| p.literals().iter().map(|l| l.1.clone()).collect()).unwrap_or_default();
                    let reason = if o.timed_out { "timeout".to_string() } else { format!("signal {:?} exit {:?}", o.signal, o.exit) };
                    let msg = o.stderr_tail.lines().find(|l| l.contains("overflowed its stack") || l.contains("panicked") || l.contains("fatal")).unwrap_or("").to_string();
                    violations.push(Violation {
                        signature: format!("crash:{}", if msg.contains("overflowed its stack") { "stack-overflow" } else { "abort" }),
                        what: format!("the compiler process died ({reason}) on program #{at} of {:?}: {} :: {}", sh.family, msg, lits.join(" || ").replace('\n', " ")),
                        case: json!({"family": sh.family, "index": at, "literals": lits}),
                    });
                    total.programs += (at - sh.lo) as u64 + 1;
                    if at + 1 < sh.hi {
                        pending.push(serde_json::to_string(&Shard { lo: at + 1, ..sh }).unwrap());
                    }
                }
            }
        }
    }
    SweepResult { stats: total, violations, families: fams }
}

/// Re-run one recorded case (family + index) in a subprocess-free way is not possible for crashes;
/// the replay spawns one worker for exactly that program.
pub fn replay(args: &Args) -> i32 {
    let v = read_replay(args.replay.as_ref().unwrap());
    let family: Family = serde_json::from_value(v["case"]["family"].clone()).unwrap_or_else(|e| machinery_error(&format!("bad replay {e}")));
    let index = v["case"]["index"].as_u64().unwrap_or(0) as usize;
    let scratch = Scratch::new("comp-replay");
    let pf = scratch.path().join("progress");
    let shard = serde_json::to_string(&Shard { family, lo: index, hi: index + 1, progress_file: pf.display().to_string() }).unwrap();
    let outs = run_pool(&args.property, args.tier, vec![shard], 1, &[], Duration::from_secs(600));
    match &outs[0].result {
        None => {
            println!("REPLAY: the compiler process died: {}", outs[0].stderr_tail.lines().take(3).collect::<Vec<_>>().join(" | "));
            println!("VIOLATION property={} replay={}", args.property, args.replay.as_ref().unwrap().display());
            1
        }
        Some(v) => {
            let st: ShardStats = serde_json::from_value(v.clone()).unwrap();
            if st.failures.is_empty() {
                println!("REPLAY: no failure");
                0
            } else {
                for f in &st.failures {
                    println!("REPLAY: [{}] {}", f.1, f.2);
                }
                println!("VIOLATION property={} replay={}", args.property, args.replay.as_ref().unwrap().display());
                1
            }
        }
    }
}

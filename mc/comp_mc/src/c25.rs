//! C25 — refetch references resolve to the refetch query for that field.
//!
//! Subjects: every accepted program of the progx family `Reuse` (one client field with refetchable
//! selections reused under `me`, `user(id:)`, a list field, a second-level client field, a linked field
//! inside another parent and by two entrypoints, always next to different sibling selections), of the
//! families General / Pointers / ClientArgs / Cycles, and the checked-in demo projects compiled into a
//! scratch copy. For every entrypoint artifact the REAL runtime (type-blanked, node) normalizes the
//! base-world response and reads the entrypoint; the driver then walks the data that was read and, for
//! every imperatively loaded field (`__refetch`, exposed mutation fields), client pointer and loadable
//! field it meets — through every chain of eager and @component client fields, which the runtime itself
//! follows while composing `usedRefetchQueries` / `refetchQueryIndex` over `nestedRefetchQueries` —
//! calls the loader the runtime produced and records the operation the runtime hands to the network
//! function. Pointer and loadable fragments are read again after their answer is normalized, so
//! refetchable selections nested in them are reached too (depth <= 2).
//! Oracle, per recorded request: the index existed (the runtime throws otherwise); the operation is one
//! of this project's; and it is the one for that field at that position:
//!  * `__refetch` / exposed field: its selections under `node(id:) { ... on T` (resp. under the exposed
//!    path) equal the enclosing operation's selections at the response position of the record the request
//!    is for (found through the id the runtime read there), modulo `__typename`;
//!  * client pointer / loadable field: its selections cover what that field's reader needs (reader AST
//!    flattened with argument substitution; for a loadable field only `id` / `__typename` may be extra, for a
//!    pointer the selections of the same pointer selected elsewhere on the same record are merged in by the
//!    compiler), it is named after the field, and for a loadable field it is the text of that field's own
//!    entrypoint artifact and carries the selection's literal arguments as variables.
use crate::c09::operation_texts;
use crate::c10::{self, Prepared};
use crate::driver::{self, Compiled};
use crate::gql::Schema;
use crate::progx::{EXTENSION, Menu, SCHEMA};
use crate::resp::{self, Operation, Response, World};
use crate::sweep::{self, Ctx, Family, ShardStats};
use crate::tsrun;
use graphql_syntax::*;
use mc_core::*;
use serde_json::{Map, Value as J, json};
use std::cell::RefCell;
use std::collections::{BTreeMap, BTreeSet};
use std::path::{Path, PathBuf};
use std::time::Duration;

// ---- canonical selection trees ------------------------------------------------------------------------

#[derive(Debug, Clone, PartialEq, Eq, Default)]
struct Tree(BTreeMap<String, Option<Tree>>);

fn print_value(v: &Value) -> String {
    match v {
        Value::Variable(x) => format!("${}", x.name),
        Value::Constant(c) => print_const(c),
        Value::List(l) => format!("[{}]", l.items.iter().map(print_value).collect::<Vec<_>>().join(",")),
        Value::Object(o) => format!("{{{}}}", o.items.iter().map(|a| format!("{}:{}", a.name.value, print_value(&a.value))).collect::<Vec<_>>().join(",")),
    }
}
fn print_const(c: &ConstantValue) -> String {
    match c {
        ConstantValue::Int(i) => i.value.to_string(),
        ConstantValue::Float(f) => f.source_value.to_string(),
        ConstantValue::String(s) => serde_json::to_string(&unescape(&s.value.to_string())).unwrap(),
        ConstantValue::Boolean(b) => b.value.to_string(),
        ConstantValue::Null(_) => "null".into(),
        ConstantValue::Enum(e) => format!("enum:{}", e.value),
        ConstantValue::List(l) => format!("[{}]", l.items.iter().map(print_const).collect::<Vec<_>>().join(",")),
        ConstantValue::Object(o) => format!("{{{}}}", o.items.iter().map(|a| format!("{}:{}", a.name.value, print_const(&a.value))).collect::<Vec<_>>().join(",")),
    }
}
fn unescape(s: &str) -> String {
    let mut out = String::new();
    let mut it = s.chars();
    while let Some(c) = it.next() {
        if c != '\\' {
            out.push(c);
            continue;
        }
        match it.next() {
            Some('n') => out.push('\n'),
            Some('t') => out.push('\t'),
            Some('r') => out.push('\r'),
            Some('u') => {
                let hex: String = it.by_ref().take(4).collect();
                out.push(u32::from_str_radix(&hex, 16).ok().and_then(char::from_u32).unwrap_or('?'));
            }
            Some(o) => out.push(o),
            None => {}
        }
    }
    out
}
fn field_key(name: &str, args: &Option<List<Argument>>) -> String {
    let mut a: Vec<String> = args.iter().flat_map(|l| l.items.iter()).map(|a| format!("{}:{}", a.name.value, print_value(&a.value))).collect();
    a.sort();
    format!("{name}({})", a.join(","))
}

/// `concrete`: flatten the inline fragments that apply to this type into the level, drop the others
/// (top level only); below, fragments stay as `... on T` nodes.
fn tree_of(schema: &Schema, sels: &[&Selection], concrete: Option<&str>, out: &mut Tree) {
    for s in sels {
        match s {
            Selection::ScalarField(f) => {
                out.0.entry(field_key(&f.name.value.to_string(), &f.arguments)).or_insert(None);
            }
            Selection::LinkedField(f) => {
                let e = out.0.entry(field_key(&f.name.value.to_string(), &f.arguments)).or_insert(None);
                let mut child = e.take().unwrap_or_default();
                tree_of(schema, &f.selections.items.iter().collect::<Vec<_>>(), None, &mut child);
                *e = Some(child);
            }
            Selection::InlineFragment(fr) => {
                let on = fr.type_condition.as_ref().map(|t| t.type_.value.to_string()).unwrap_or_default();
                let inner: Vec<&Selection> = fr.selections.items.iter().collect();
                match concrete {
                    Some(c) => {
                        if on.is_empty() || schema.possible_types(&on).contains(c) {
                            tree_of(schema, &inner, concrete, out);
                        }
                    }
                    None => {
                        let e = out.0.entry(format!("... on {on}")).or_insert(None);
                        let mut child = e.take().unwrap_or_default();
                        tree_of(schema, &inner, None, &mut child);
                        *e = Some(child);
                    }
                }
            }
            Selection::FragmentSpread(_) => {}
        }
    }
}

fn tree_from_json(v: &J) -> Tree {
    let mut t = Tree::default();
    if let Some(o) = v.as_object() {
        for (k, c) in o {
            t.0.insert(k.clone(), if c.is_null() { None } else { Some(tree_from_json(c)) });
        }
    }
    t
}

fn print_tree(t: &Tree) -> String {
    t.0.iter().map(|(k, c)| match c {
        None => k.clone(),
        Some(c) => format!("{k} {{ {} }}", print_tree(c)),
    }).collect::<Vec<_>>().join(", ")
}

/// `... on X` nodes of the top level: merged into the level when the concrete type is an X, dropped otherwise
fn flatten_refinements(schema: &Schema, t: &Tree, concrete: &str) -> Tree {
    let mut out = Tree::default();
    fn merge(into: &mut Tree, from: &Tree) {
        for (k, c) in &from.0 {
            match (into.0.get_mut(k), c) {
                (Some(Some(a)), Some(b)) => merge(a, b),
                (Some(_), _) => {}
                (None, _) => {
                    into.0.insert(k.clone(), c.clone());
                }
            }
        }
    }
    for (k, c) in &t.0 {
        match (k.strip_prefix("... on "), c) {
            (Some(x), Some(c)) => {
                if schema.possible_types(x).contains(concrete) {
                    let inner = flatten_refinements(schema, c, concrete);
                    merge(&mut out, &inner);
                }
            }
            _ => merge(&mut out, &Tree([(k.clone(), c.clone())].into_iter().collect())),
        }
    }
    out
}

const AUTO: [&str; 2] = ["id()", "__typename()"];

/// `actual` selects everything `needed` lists and, when `strict`, nothing else except `id` / `__typename`.
/// (Not strict for client pointers: the compiler generates ONE refetch query for all selections of the same
/// pointer on the same record — e.g. one in a client field and one in a client field nested in it — and
/// that query selects the union of their selection sets.)
fn covers(actual: &Tree, needed: &Tree, at: &str, strict: bool) -> Result<(), String> {
    for (k, nc) in &needed.0 {
        match (actual.0.get(k), nc) {
            // a refinement under which nothing is read needs no fragment
            (None, Some(nc)) if k.starts_with("... on ") && nc.0.keys().all(|x| AUTO.contains(&x.as_str())) => {}
            (None, _) => return Err(format!("{at}: the reader needs {k}, the operation does not select it")),
            (Some(Some(ac)), Some(nc)) => covers(ac, nc, &format!("{at}.{k}"), strict)?,
            (Some(None), Some(nc)) if !nc.0.is_empty() => return Err(format!("{at}: {k} is selected without sub-selections the reader needs")),
            _ => {}
        }
    }
    for k in actual.0.keys() {
        if strict && !needed.0.contains_key(k) && !AUTO.contains(&k.as_str()) {
            return Err(format!("{at}: the operation selects {k}, which this field's reader does not read"));
        }
    }
    Ok(())
}

fn equal_modulo_typename(a: &Tree, b: &Tree) -> Result<(), String> {
    let mut a = a.clone();
    let mut b = b.clone();
    a.0.remove("__typename()");
    b.0.remove("__typename()");
    if a == b {
        return Ok(());
    }
    fn diff(a: &Tree, b: &Tree, at: &str) -> String {
        for (k, ac) in &a.0 {
            match (b.0.get(k), ac) {
                (None, _) => return format!("{at}: {k} only in the refetch operation"),
                (Some(Some(bc)), Some(ac)) if ac != bc => return diff(ac, bc, &format!("{at}.{k}")),
                (Some(bc), ac) if bc.is_some() != ac.is_some() => return format!("{at}: {k} differs in shape"),
                _ => {}
            }
        }
        for k in b.0.keys() {
            if !a.0.contains_key(k) {
                return format!("{at}: {k} only in the enclosing operation at that position");
            }
        }
        format!("{at}: differ")
    }
    Err(diff(&a, &b, ""))
}

// ---- project-level tables ------------------------------------------------------------------------------

struct OpInfo {
    paths: Vec<String>,
    op: Operation,
    /// the answer, by concrete type of the refetched object (a server answers with the object that was asked for)
    responses: BTreeMap<String, Response>,
    default_type: String,
    /// response path of the refetched object (the first object below the root whose type has an `id`)
    id_path: Vec<J>,
}

fn default_vars(schema: &Schema, op: &Operation) -> Map<String, J> {
    resp::variable_assignments(schema, op).into_iter().next().unwrap_or_default()
}

fn id_path_of(schema: &Schema, r: &Response) -> Vec<J> {
    r.positions.iter().skip(1).find(|(_, ty, _)| schema.field(ty, "id").is_some()).map(|p| p.2.clone()).unwrap_or_default()
}

/// the entity a refetch operation is answered for: the driver replaces it by the id the runtime asks for,
/// so that the answer describes the same world as the response the record came from (ids are entity paths)
pub const REFETCHED: &str = "@@R@@";

/// Base-world answer of an operation in which the refetched object (the first object below the root whose
/// type has an `id`) is the entity `REFETCHED`, of the type the operation's inline fragment there asks for.
fn answer_for(schema: &Schema, op: &Operation, vars: &Map<String, J>, root: &str, store_types: &BTreeSet<String>) -> Result<(BTreeMap<String, Response>, String, Vec<J>), String> {
    let (r0, _) = resp::evaluate_from(schema, op, vars, &World::new(), root)?;
    let id_path = id_path_of(schema, &r0);
    let Some(pos) = r0.positions.iter().find(|p| !id_path.is_empty() && p.2 == id_path) else {
        return Ok(([(String::new(), r0)].into_iter().collect(), String::new(), id_path));
    };
    let key = pos.0.trim_end_matches("[0]").to_string();
    let mut world = World::new();
    world.insert(format!("{key}#entity"), resp::Dev::Alias(REFETCHED.to_string()));
    // the type condition directly below the refetched field decides which types can be asked for
    let want: Option<BTreeSet<String>> = selections_raw_at(op, &id_path).iter().find_map(|s| match s {
        Selection::InlineFragment(fr) => fr.type_condition.as_ref().map(|t| schema.possible_types(&t.type_.value.to_string())),
        _ => None,
    });
    let mut out: BTreeMap<String, Response> = BTreeMap::new();
    let mut first_type: Option<String> = None;
    let mut default_type = String::new();
    for i in 0..2000 {
        let mut w = world.clone();
        if i > 0 {
            w.insert(format!("{REFETCHED}#type"), resp::Dev::AltType(i));
        }
        let (r, _) = resp::evaluate_from(schema, op, vars, &w, root)?;
        let Some(ty) = r.positions.iter().find(|p| p.2 == id_path).map(|p| p.1.clone()) else { break };
        if i == 0 {
            first_type = Some(ty.clone());
        } else if Some(&ty) == first_type.as_ref() {
            break; // past the last possible type
        }
        if want.as_ref().is_some_and(|w| !w.contains(&ty)) {
            continue;
        }
        if default_type.is_empty() {
            default_type = ty.clone();
            out.insert(ty, r);
        } else if store_types.contains(&ty) {
            out.insert(ty, r);
        }
    }
    if out.is_empty() {
        return Err("no possible type of the refetched field satisfies the operation's type condition".into());
    }
    Ok((out, default_type, id_path))
}

fn operations_of(schema: &Schema, arts: &[(String, String)]) -> Result<BTreeMap<String, OpInfo>, String> {
    // first pass: which concrete types can be in the store at all
    let mut parsed: Vec<(String, String, Operation)> = vec![];
    let mut store_types: BTreeSet<String> = BTreeSet::new();
    for (path, text) in operation_texts(arts) {
        let Ok(text) = text else { continue };
        let Ok(op) = resp::parse_operation(&text) else { continue }; // C09's business
        let vars = default_vars(schema, &op);
        let (r0, _) = resp::evaluate_from(schema, &op, &vars, &World::new(), "T").map_err(|e| format!("{path}: cannot answer the operation: {e}"))?;
        store_types.extend(r0.positions.iter().map(|p| p.1.clone()));
        parsed.push((path, text, op));
    }
    let mut out: BTreeMap<String, OpInfo> = BTreeMap::new();
    for (path, text, op) in parsed {
        if let Some(o) = out.get_mut(&text) {
            o.paths.push(path);
            continue;
        }
        let vars = default_vars(schema, &op);
        let root = format!("A{}", out.len());
        let (responses, default_type, id_path) = answer_for(schema, &op, &vars, &root, &store_types).map_err(|e| format!("{path}: cannot answer the operation: {e}"))?;
        out.insert(text, OpInfo { paths: vec![path], op, responses, default_type, id_path });
    }
    Ok(out)
}

/// selections of the field at a response path, inline fragments NOT flattened at the last level
fn selections_raw_at<'a>(op: &'a Operation, path: &[J]) -> Vec<&'a Selection> {
    selections_at_impl(op, path)
}

/// selections of `op` at a response path (keys; list indices are skipped); inline fragments on the way are looked through
fn selections_at<'a>(op: &'a Operation, path: &[J]) -> Vec<&'a Selection> {
    selections_at_impl(op, path)
}

fn selections_at_impl<'a>(op: &'a Operation, path: &[J]) -> Vec<&'a Selection> {
    fn flat<'a>(sels: &[&'a Selection], out: &mut Vec<&'a Selection>) {
        for s in sels {
            match s {
                Selection::InlineFragment(fr) => flat(&fr.selections.items.iter().collect::<Vec<_>>(), out),
                other => out.push(other),
            }
        }
    }
    let mut cur: Vec<&Selection> = op.op().selections.items.iter().collect();
    for p in path {
        let Some(key) = p.as_str() else { continue };
        let mut all = vec![];
        flat(&cur, &mut all);
        let mut next = vec![];
        for s in all {
            if let Selection::LinkedField(f) = s {
                let rk = f.alias.as_ref().map(|a| a.alias.value.to_string()).unwrap_or(f.name.value.to_string());
                if rk == key {
                    next.extend(f.selections.items.iter());
                }
            }
        }
        cur = next;
    }
    cur
}

// ---- one project ----------------------------------------------------------------------------------------

pub struct Project {
    pub label: String,
    pub case: J,
    /// exposed field name -> paths (`set_name.user` -> [set_name, user]) from the schema extensions
    exposed: BTreeMap<String, Vec<Vec<String>>>,
    ops: BTreeMap<String, OpInfo>,
    /// (entrypoint, its response, case index in the job)
    entrypoints: Vec<(Prepared, Response, Map<String, J>)>,
}


/// Blank the artifacts and build the node cases for one compiled project.
fn prepare_project(schema: &Schema, extensions: &str, arts: &[(String, String)], out: &Path, runtime: &Path, label: &str, case: J) -> Result<(Project, Vec<J>, J), String> {
    let root_types = ["Query", "Mutation", "Subscription"];
    let mut skipped = vec![];
    let prepared = c10::prepare(&arts, out, runtime, &root_types, &mut skipped)?;
    let ops = operations_of(schema, &arts)?;
    let answers: Map<String, J> = ops.iter().map(|(t, o)| (t.clone(), json!({"byType": o.responses.iter().map(|(ty, r)| (ty.clone(), r.data.clone())).collect::<Map<String, J>>(), "defaultType": o.default_type}))).collect();
    let mut cases = vec![];
    let mut entrypoints = vec![];
    for p in prepared {
        let vars = default_vars(schema, &p.op);
        let world: World = if p.root.is_some() { resp::refetch_world(schema, &p.op, &vars, "Q") } else { World::new() };
        let (response, _) = resp::evaluate_from(schema, &p.op, &vars, &world, "Q").map_err(|e| format!("{}: cannot answer the operation: {e}", p.entrypoint))?;
        cases.push(json!({"entrypoint": p.file.display().to_string(), "text": p.text, "variables": vars, "root": p.root, "response": response.data}));
        entrypoints.push((p, response, vars));
    }
    Ok((Project { label: label.to_string(), case, exposed: exposed_fields(extensions), ops, entrypoints }, cases, J::Object(answers)))
}

fn find_position(resp: &Response, id_path: &[J], patched: Option<&str>, id: &str) -> Option<(String, Vec<J>)> {
    if patched == Some(id)
        && let Some(p) = resp.positions.iter().find(|p| p.2 == id_path)
    {
        return Some((p.1.clone(), p.2.clone()));
    }
    // in an answer, entity ids below the refetched object start with the id that was asked for
    resp.positions.iter().find(|p| p.0 == id || patched.is_some_and(|pt| p.0.replace(REFETCHED, pt) == id)).map(|p| (p.1.clone(), p.2.clone()))
}

/// `@exposeField(field: "a.b.asC", as: "name")` directives of the schema extensions
fn exposed_fields(extensions: &str) -> BTreeMap<String, Vec<Vec<String>>> {
    let mut out: BTreeMap<String, Vec<Vec<String>>> = BTreeMap::new();
    let Ok(doc) = parse_schema_document(extensions, common::SourceLocationKey::Generated) else { return out };
    for d in &doc.definitions {
        let TypeSystemDefinition::ObjectTypeExtension(e) = d else { continue };
        for dir in &e.directives {
            if &*dir.name.value.to_string() != "exposeField" {
                continue;
            }
            let arg = |n: &str| {
                dir.arguments.iter().flat_map(|l| l.items.iter()).find(|a| &*a.name.value.to_string() == n).and_then(|a| match &a.value {
                    ConstantValue::String(s) => Some(s.value.to_string()),
                    _ => None,
                })
            };
            let Some(field) = arg("field") else { continue };
            let path: Vec<String> = field.split('.').map(String::from).collect();
            let name = arg("as").unwrap_or(path[0].clone());
            out.entry(name).or_default().push(path);
        }
    }
    out
}

/// selections of the object an exposed field's operation refetches: follow the exposed path from the root
fn follow_exposed<'a>(schema: &Schema, op: &'a Operation, path: &[String]) -> Option<Vec<&'a Selection>> {
    let mut cur: Vec<&Selection> = op.op().selections.items.iter().collect();
    for seg in path {
        let mut next: Vec<&Selection> = vec![];
        let mut found = false;
        for s in &cur {
            match s {
                Selection::LinkedField(f) if f.name.value.to_string() == *seg => {
                    found = true;
                    next.extend(f.selections.items.iter());
                }
                Selection::InlineFragment(fr) if seg.starts_with("as") && fr.type_condition.as_ref().is_some_and(|t| t.type_.value.to_string() == seg[2..]) => {
                    found = true;
                    next.extend(fr.selections.items.iter());
                }
                _ => {}
            }
        }
        let _ = schema;
        if !found {
            return None;
        }
        cur = next;
    }
    Some(cur)
}

/// (typename, link) of the record a loader was created on, from the stable id the runtime builds
fn root_link_of(kind: &str, name: &str, stable_id: &str) -> Option<(String, String)> {
    let head = match kind {
        "imperative" => stable_id.strip_suffix(&format!("__{name}"))?,
        _ => &stable_id[..stable_id.rfind(&format!("/{name}/"))?],
    };
    let (ty, link) = head.split_once(':')?;
    Some((ty.to_string(), link.to_string()))
}

/// the response position of a store link. Records with an `id` are found by it; the others by the key the
/// runtime derives for them (`ParentType:parentLink.field[.index]` + argument chunks).
fn resolve_link(schema: &Schema, resp: &Response, id_path: &[J], patched: Option<&str>, ty: &str, link: &str) -> Option<(String, Vec<J>)> {
    if link == "__ROOT" {
        return resp.positions.first().map(|p| (p.1.clone(), p.2.clone()));
    }
    if let Some(p) = find_position(resp, id_path, patched, link) {
        return Some(p);
    }
    // derived keys: compute the prefix for every position without an id
    let mut hits = vec![];
    for p in resp.positions.iter().skip(1) {
        if p.1 != ty || schema.field(&p.1, "id").is_some() {
            continue;
        }
        let (mut parent_path, mut last) = (p.2.clone(), p.2.last().cloned());
        parent_path.pop();
        let mut index = None;
        if let Some(J::Number(n)) = &last {
            index = n.as_u64();
            last = parent_path.pop();
        }
        let Some(key) = last.as_ref().and_then(|k| k.as_str()) else { continue };
        let Some(parent) = resp.positions.iter().find(|q| q.2 == parent_path) else { continue };
        let parent_link = if parent_path.is_empty() {
            "__ROOT".to_string()
        } else if schema.field(&parent.1, "id").is_some() {
            if patched.is_some() && parent.2 == id_path { patched.unwrap().to_string() } else { patched.map(|pt| parent.0.replace(REFETCHED, pt)).unwrap_or(parent.0.clone()) }
        } else {
            continue;
        };
        let field = key.split("____").next().unwrap_or(key);
        let mut prefix = format!("{}:{}.{}", parent.1, parent_link, field);
        if let Some(i) = index {
            prefix.push_str(&format!(".{i}"));
        }
        if link == prefix || link.starts_with(&format!("{prefix}____")) {
            hits.push((p.1.clone(), p.2.clone()));
        }
    }
    if hits.len() == 1 { hits.pop() } else { None }
}

fn root_field(op: &Operation) -> Option<&LinkedField> {
    match op.op().selections.items.as_slice() {
        [Selection::LinkedField(f)] => Some(f),
        _ => None,
    }
}

/// violations of one entrypoint's node result: (signature, what)
fn check_entrypoint(schema: &Schema, proj: &Project, ep: &(Prepared, Response, Map<String, J>), result: &J, stats: &mut BTreeMap<String, u64>, samples: &mut Vec<J>) -> Vec<(String, String)> {
    let mut fails = vec![];
    let (prep, ep_response, _) = ep;
    let mut bump = |k: &str| *stats.entry(k.to_string()).or_default() += 1;
    for pr in result["problems"].as_array().into_iter().flatten() {
        let kind = pr["kind"].as_str().unwrap_or("?");
        let path = pr["path"].as_array().map(|a| a.iter().filter_map(|x| x.as_str()).collect::<Vec<_>>().join(".")).unwrap_or_default();
        let nested = path.contains('<');
        match kind {
            "index-out-of-range" => fails.push(("refetch-index-out-of-range".to_string(), format!("{}: reading {path}: {}", prep.entrypoint, pr["m"]))),
            // an unreadable entrypoint is C10's finding; nothing can be walked
            "unreadable" if !nested => bump("entrypoints_unreadable"),
            "unreadable" => {
                let k = if path.contains("<pointer>") { "pointer" } else { "loadable" };
                fails.push((format!("unreadable-after-refetch:{k}"), format!("{}: after the refetch answer was normalized, reading {path} fails: {}", prep.entrypoint, pr["m"])));
            }
            "normalize-throws" | "machinery" => bump("entrypoints_unreadable"),
            other => fails.push((format!("runtime-failure:{other}"), format!("{}: {path}: {}", prep.entrypoint, pr["m"]))),
        }
    }
    for rec in result["records"].as_array().into_iter().flatten() {
        bump("refetchable_selections");
        let kind = rec["kind"].as_str().unwrap_or("?");
        bump(&format!("kind_{kind}"));
        let name = rec["name"].as_str().unwrap_or("?");
        let path = rec["path"].as_array().map(|a| a.iter().filter_map(|x| x.as_str()).collect::<Vec<_>>().join(".")).unwrap_or_default();
        let wher = format!("{} at {path} ({kind} {name})", prep.entrypoint);
        if rec["depth"].as_u64().unwrap_or(0) > 0 {
            bump("reached_through_refetched_fragment");
        }
        let Some(req_text) = rec["request"]["text"].as_str() else {
            fails.push((format!("{kind}:no-request"), format!("{wher}: the loader made no network request")));
            continue;
        };
        let Some(req) = proj.ops.get(req_text) else {
            fails.push((format!("{kind}:foreign-operation"), format!("{wher}: the runtime sends an operation that is none of the project's artifacts")));
            continue;
        };
        // the operation the record was read from
        let ctx_text = rec["ctx"]["text"].as_str().unwrap_or("");
        let patched = rec["ctx"]["patchedId"].as_str();
        let (ctx_op, ctx_resp, ctx_id_path): (&Operation, &Response, Vec<J>) = if ctx_text == prep.text {
            (&prep.op, ep_response, prep.root.iter().flatten().map(|s| json!(s)).collect())
        } else {
            match proj.ops.get(ctx_text) {
                Some(o) => {
                    let ty = rec["ctx"]["answerType"].as_str().unwrap_or("");
                    match o.responses.get(ty).or(o.responses.get(&o.default_type)) {
                        Some(r) => (&o.op, r, o.id_path.clone()),
                        None => {
                            fails.push(("machinery".into(), format!("{wher}: no answer of type {ty} for the context operation")));
                            continue;
                        }
                    }
                }
                None => {
                    fails.push(("machinery".into(), format!("{wher}: unknown context operation")));
                    continue;
                }
            }
        };
        let req_name = req.op.op().name.as_ref().map(|n| n.value.to_string()).unwrap_or_default();
        let rf = root_field(&req.op);
        // where the selection sits: the record its loader was created on
        let stable_id = rec["stableId"].as_str().unwrap_or("");
        let Some((root_ty, root_link)) = root_link_of(kind, name, stable_id) else {
            fails.push(("machinery".into(), format!("{wher}: stable id {stable_id:?} has an unexpected shape")));
            continue;
        };
        let Some((ty, pos)) = resolve_link(schema, ctx_resp, &ctx_id_path, patched, &root_ty, &root_link) else {
            bump("position_unresolved");
            continue;
        };
        match kind {
            "imperative" => {
                let expected_sels = selections_at(ctx_op, &pos);
                let mut expected = Tree::default();
                tree_of(schema, &expected_sels, Some(&ty), &mut expected);
                // the refetched object inside the request
                let actual_sels: Vec<&Selection> = if name == "__refetch" {
                    match rf {
                        Some(f) if &*f.name.value.to_string() == "node" && req.op.root == "Query" => f.selections.items.iter().collect(),
                        _ => {
                            fails.push(("imperative:__refetch-is-not-a-node-query".into(), format!("{wher}: the operation is not `query {{ node(id:) }}`: {}", req_name)));
                            continue;
                        }
                    }
                } else {
                    let Some(paths) = proj.exposed.get(name) else {
                        fails.push(("machinery".into(), format!("{wher}: no @exposeField directive defines {name}")));
                        continue;
                    };
                    match paths.iter().find_map(|p| follow_exposed(schema, &req.op, p)) {
                        Some(s) => s,
                        None => {
                            fails.push(("imperative:operation-of-another-field".into(), format!("{wher}: operation {req_name} ({}) does not contain the exposed path {:?}", req.paths.join(", "), paths)));
                            continue;
                        }
                    }
                };
                let mut actual = Tree::default();
                tree_of(schema, &actual_sels, Some(&ty), &mut actual);
                if !req_name.ends_with(&format!("__{name}")) {
                    fails.push(("imperative:operation-of-another-field".into(), format!("{wher}: the runtime selects operation {req_name} ({})", req.paths.join(", "))));
                } else if let Err(d) = equal_modulo_typename(&actual, &expected) {
                    fails.push((
                        format!("imperative:selects-another-position:{}", if name == "__refetch" { "__refetch" } else { "exposed-field" }),
                        format!("{wher}: operation {req_name} ({}) does not select what the enclosing operation selects at {} :: {d} :: refetch {{ {} }} vs position {{ {} }}", req.paths.join(", "), J::Array(pos.clone()), print_tree(&actual), print_tree(&expected)),
                    ));
                } else {
                    bump("checked_against_position_subtree");
                    if samples.is_empty() || (samples.len() < 2 && rec["depth"].as_u64().unwrap_or(0) > 0) {
                        samples.push(json!({"project": proj.label, "entrypoint": prep.entrypoint, "selection": path, "kind": kind, "field": name, "record": format!("{root_ty}:{root_link}"), "operation_sent": req_name, "artifact": req.paths, "position_in_enclosing_operation": pos, "selections_compared": print_tree(&actual)}));
                    }
                }
            }
            "pointer" | "loadable" => {
                let needed = flatten_refinements(schema, &tree_from_json(&rec["needed"]), &ty);
                let actual_sels: Vec<&Selection> = match rf {
                    Some(f) if &*f.name.value.to_string() == "node" && req.op.root == "Query" => f.selections.items.iter().collect(),
                    // a loadable field on the root type is fetched by a plain query
                    _ if kind == "loadable" && req.op.root == ty => req.op.op().selections.items.iter().collect(),
                    _ => {
                        fails.push((format!("{kind}:not-a-node-query"), format!("{wher}: the operation is not `query {{ node(id:) }}`: {req_name}")));
                        continue;
                    }
                };
                let mut actual = Tree::default();
                tree_of(schema, &actual_sels, Some(&ty), &mut actual);
                let named_ok = if kind == "pointer" { req_name.ends_with(&format!("__{name}")) } else { req_name == name && req.paths.iter().any(|p| p.ends_with(&format!("/{name}/query_text.ts"))) };
                if !named_ok {
                    fails.push((format!("{kind}:operation-of-another-field"), format!("{wher}: the runtime selects operation {req_name} ({})", req.paths.join(", "))));
                } else if let Some(bad) = rec["expectedVariables"].as_object().and_then(|m| m.iter().find(|(k, v)| {
                    let v: &serde_json::Value = v;
                    rec["request"]["variables"].get(k.as_str()) != Some(v)
                })) {
                    fails.push((format!("{kind}:wrong-variables"), format!("{wher}: the selection passes {}: {} but the request carries {}", bad.0, bad.1, rec["request"]["variables"])));
                } else if let Err(d) = covers(&actual, &needed, "", kind == "loadable") {
                    fails.push((format!("{kind}:selections-differ-from-the-field's-reader"), format!("{wher}: operation {req_name} ({}) :: {d} :: operation {{ {} }} vs reader {{ {} }}", req.paths.join(", "), print_tree(&actual), print_tree(&needed))));
                } else {
                    bump("checked_against_reader");
                }
            }
            _ => fails.push(("machinery".into(), format!("{wher}: unknown record kind"))),
        }
    }
    fails
}

// ---- sweep over progx families ----------------------------------------------------------------------------

struct Shard {
    scratch: Scratch,
    runtime: PathBuf,
    projects: Vec<(Project, usize, usize)>,
    cases: Vec<J>,
    answer_sets: Vec<J>,
    pointers: BTreeMap<String, bool>,
}

thread_local! {
    static SHARD: RefCell<Option<Shard>> = const { RefCell::new(None) };
    static SHARD_TEXT: RefCell<String> = const { RefCell::new(String::new()) };
    static SCHEMA_MODEL: Schema = Schema::parse(&format!("{SCHEMA}\n{EXTENSION}")).or_else(|_| Schema::parse(SCHEMA)).unwrap_or_else(|e| machinery_error(&format!("universe schema does not parse: {e}")));
}

fn with_shard<R>(f: impl FnOnce(&mut Shard) -> R) -> R {
    SHARD.with(|s| {
        let mut s = s.borrow_mut();
        if s.is_none() {
            let scratch = Scratch::new("c25");
            let runtime = match std::env::var("VERIF_TSRUN_RUNTIME") {
                Ok(p) if Path::new(&p).join("index.mjs").is_file() => PathBuf::from(p),
                _ => {
                    let r = scratch.path().join("rt");
                    tsrun::write_runtime(&r).unwrap_or_else(|e| machinery_error(&e));
                    r
                }
            };
            *s = Some(Shard { scratch, runtime, projects: vec![], cases: vec![], answer_sets: vec![], pointers: BTreeMap::new() });
        }
        f(s.as_mut().unwrap())
    })
}

fn oracle(ctx: &Ctx<'_>, _stats: &mut ShardStats) -> Vec<(String, String)> {
    let Compiled::Ok(arts) = ctx.result else { return vec![] };
    let lits: Vec<String> = ctx.program.literals().iter().map(|l| l.1.clone()).collect();
    with_shard(|sh| {
        let out = sh.scratch.path().join(format!("p{}", ctx.index));
        let case = json!({"family": null, "index": ctx.index, "literals": lits});
        let (proj, cases, answers) = SCHEMA_MODEL.with(|schema| prepare_project(schema, EXTENSION, arts, &out, &sh.runtime, &format!("#{}", ctx.index), case)).unwrap_or_else(|e| machinery_error(&format!("program #{}: {e}", ctx.index)));
        for (k, v) in c10::pointer_plurality(&lits) {
            if sh.pointers.insert(k.clone(), v).is_some_and(|old| old != v) {
                machinery_error(&format!("two client pointers named {k} with different plurality in one shard"));
            }
        }
        let first = sh.cases.len();
        let set = sh.answer_sets.len();
        sh.answer_sets.push(answers);
        for mut c in cases {
            c["id"] = json!(sh.cases.len());
            c["answerSet"] = json!(set);
            sh.cases.push(c);
        }
        sh.projects.push((proj, first, sh.cases.len()));
    });
    vec![]
}

#[allow(clippy::too_many_arguments)]
fn run_projects(schema: &Schema, dir: &Path, runtime: &Path, projects: &[(Project, usize, usize)], cases: &[J], answer_sets: &[J], pointers: &BTreeMap<String, bool>, extra: &mut BTreeMap<String, u64>, samples: &mut Vec<J>) -> Vec<(usize, String, String, J)> {
    let mut out = vec![];
    if cases.is_empty() {
        return out;
    }
    let job = json!({
        "mode": "refetch",
        "maxDepth": 2,
        "pointers": pointers.iter().map(|(k, v)| (k.clone(), json!({"list": v}))).collect::<Map<String, J>>(),
        "answerSets": answer_sets,
        "cases": cases,
    });
    let res = c10::run_job(dir, runtime, &job, Duration::from_secs(3600)).unwrap_or_else(|e| machinery_error(&format!("node run failed: {e}")));
    let results = res["results"].as_array().cloned().unwrap_or_default();
    if results.len() != cases.len() {
        machinery_error("node returned a different number of cases");
    }
    for (pi, (proj, lo, hi)) in projects.iter().enumerate() {
        let mut seen: BTreeSet<String> = BTreeSet::new();
        for (i, ep) in (*lo..*hi).zip(&proj.entrypoints) {
            let r = &results[i];
            if let Some(e) = r.get("error").and_then(|e| e.as_str()) {
                machinery_error(&format!("{} {}: driver error: {e}", proj.label, ep.0.entrypoint));
            }
            *extra.entry("entrypoints".into()).or_default() += 1;
            *extra.entry("fragments_read".into()).or_default() += r["reads"].as_u64().unwrap_or(0);
            for (sig, what) in check_entrypoint(schema, proj, ep, r, extra, samples) {
                if sig == "machinery" {
                    machinery_error(&format!("{}: {what}", proj.label));
                }
                *extra.entry("violating_records".into()).or_default() += 1;
                if seen.insert(sig.clone()) {
                    let mut case = proj.case.clone();
                    case["entrypoint"] = json!(ep.0.entrypoint);
                    out.push((pi, sig, format!("{}: {what}", proj.label), case));
                }
            }
        }
    }
    out
}

fn finish(stats: &mut ShardStats) {
    let Some(sh) = SHARD.with(|s| s.borrow_mut().take()) else { return };
    let mut samples = vec![];
    let fails = SCHEMA_MODEL.with(|schema| run_projects(schema, sh.scratch.path(), &sh.runtime, &sh.projects, &sh.cases, &sh.answer_sets, &sh.pointers, &mut stats.extra, &mut samples));
    for smp in samples.into_iter().take(1) {
        stats.samples.insert(0, smp);
    }
    let shard: sweep::Shard = serde_json::from_str(&SHARD_TEXT.with(|s| s.borrow().clone())).unwrap_or_else(|e| machinery_error(&format!("bad shard {e}")));
    for (pi, sig, what, mut case) in fails {
        case["family"] = serde_json::to_value(&shard.family).unwrap();
        let index = sh.projects[pi].0.case["index"].as_u64().unwrap_or(0) as usize;
        stats.outcomes.insert(sweep::fnv(&sig));
        if stats.failures.len() < 200 {
            stats.failures.push((index, sig, what, case));
        }
    }
    for k in ["kind_imperative", "kind_pointer", "kind_loadable", "reached_through_refetched_fragment"] {
        if stats.extra.get(k).copied().unwrap_or(0) > 0 {
            stats.outcomes.insert(sweep::fnv(k));
        }
    }
}

pub fn families(tier: Tier) -> Vec<Family> {
    vec![
        Family { menu: Menu::Reuse, k: tier.pick(3, 5) },
        Family { menu: Menu::General, k: tier.pick(3, 5) },
        Family { menu: Menu::Pointers, k: tier.pick(2, 4) },
        Family { menu: Menu::ClientArgs, k: tier.pick(2, 4) },
        Family { menu: Menu::Cycles, k: tier.pick(1, 2) },
    ]
}

// ---- demo projects ----------------------------------------------------------------------------------------

const DEMOS: [&str; 3] = ["pet-demo", "github-demo", "vite-demo"];

fn copy_dir(from: &Path, to: &Path) -> std::io::Result<()> {
    std::fs::create_dir_all(to)?;
    for e in std::fs::read_dir(from)? {
        let e = e?;
        let name = e.file_name();
        if ["node_modules", ".next", "dist", ".turbo", "__isograph"].contains(&name.to_string_lossy().as_ref()) {
            continue;
        }
        let p = e.path();
        if p.is_dir() {
            copy_dir(&p, &to.join(&name))?;
        } else if p.is_file() {
            std::fs::copy(&p, to.join(&name))?;
        }
    }
    Ok(())
}

fn read_sources(dir: &Path, out: &mut Vec<String>) {
    let Ok(rd) = std::fs::read_dir(dir) else { return };
    for e in rd.flatten() {
        let p = e.path();
        if p.is_dir() {
            read_sources(&p, out);
        } else if p.extension().is_some_and(|x| x == "ts" || x == "tsx" || x == "js" || x == "jsx") {
            out.push(std::fs::read_to_string(&p).unwrap_or_default());
        }
    }
}

/// compile one demo in a scratch copy and check it in-process (one node run)
fn check_demo(name: &str, runtime: &Path, extra: &mut BTreeMap<String, u64>, samples: &mut Vec<J>) -> Vec<Violation> {
    let scratch = Scratch::new("c25-demo");
    let dir = scratch.path().join(name);
    copy_dir(&Path::new("/repo/demos").join(name), &dir).unwrap_or_else(|e| machinery_error(&format!("cannot copy demo {name}: {e}")));
    let cfg: J = serde_json::from_str(&std::fs::read_to_string(dir.join("isograph.config.json")).unwrap_or_default()).unwrap_or_else(|e| machinery_error(&format!("{name}: config: {e}")));
    let arts = match driver::compile_dir(&dir) {
        Compiled::Ok(a) => a,
        Compiled::Diagnostics(d) => machinery_error(&format!("demo {name} does not compile: {}", d.first().cloned().unwrap_or_default())),
        Compiled::Panic(m) => machinery_error(&format!("demo {name}: compiler panicked: {m}")),
    };
    let mut sdl = std::fs::read_to_string(dir.join(cfg["schema"].as_str().unwrap_or("schema.graphql"))).unwrap_or_else(|e| machinery_error(&format!("{name}: schema: {e}")));
    let mut extensions = String::new();
    for x in cfg["schema_extensions"].as_array().into_iter().flatten() {
        extensions.push('\n');
        extensions.push_str(&std::fs::read_to_string(dir.join(x.as_str().unwrap_or(""))).unwrap_or_default());
    }
    sdl.push_str(&extensions);
    let schema = Schema::parse(&sdl).unwrap_or_else(|e| machinery_error(&format!("demo {name}: schema does not parse: {e}")));
    let mut sources = vec![];
    read_sources(&dir.join(cfg["project_root"].as_str().unwrap_or("src")), &mut sources);
    let pointers = c10::pointer_plurality(&sources);
    let out = scratch.path().join("blanked");
    let (proj, mut cases, answers) = prepare_project(&schema, &extensions, &arts, &out, runtime, name, json!({"demo": name})).unwrap_or_else(|e| machinery_error(&format!("demo {name}: {e}")));
    for (i, c) in cases.iter_mut().enumerate() {
        c["id"] = json!(i);
        c["answerSet"] = json!(0);
    }
    let n = cases.len();
    let fails = run_projects(&schema, scratch.path(), runtime, &[(proj, 0, n)], &cases, &[answers], &pointers, extra, samples);
    *extra.entry("demo_projects".into()).or_default() += 1;
    fails.into_iter().map(|(_, sig, what, case)| Violation { signature: sig, what, case }).collect()
}

fn replay(args: &Args) -> i32 {
    let path = args.replay.as_ref().unwrap();
    let v = read_replay(path);
    let case = &v["case"];
    let runtime_scratch = Scratch::new("c25-replay-rt");
    tsrun::write_runtime(runtime_scratch.path()).unwrap_or_else(|e| machinery_error(&e));
    let mut observations = vec![];
    for _ in 0..2 {
        let mut extra = BTreeMap::new();
        let viols: Vec<(String, String)> = if let Some(demo) = case["demo"].as_str() {
            check_demo(demo, runtime_scratch.path(), &mut extra, &mut vec![]).into_iter().map(|v| (v.signature, v.what)).collect()
        } else {
            let family: Family = serde_json::from_value(case["family"].clone()).unwrap_or_else(|e| machinery_error(&format!("bad replay {e}")));
            let index = case["index"].as_u64().unwrap_or(0) as usize;
            let progs = sweep::family_programs(&family);
            let Some(p) = progs.get(index) else { machinery_error("replay: program index out of range") };
            let scratch = Scratch::new("c25-replay");
            let dir = scratch.path().join("p");
            p.project().write_to(&dir);
            let Compiled::Ok(arts) = driver::compile_dir(&dir) else {
                println!("REPLAY: the program no longer compiles");
                return 0;
            };
            let lits: Vec<String> = p.literals().iter().map(|l| l.1.clone()).collect();
            SCHEMA_MODEL.with(|schema| {
                let (proj, mut cases, answers) = prepare_project(schema, EXTENSION, &arts, &scratch.path().join("b"), runtime_scratch.path(), &format!("#{index}"), case.clone()).unwrap_or_else(|e| machinery_error(&e));
                for (i, c) in cases.iter_mut().enumerate() {
                    c["id"] = json!(i);
                    c["answerSet"] = json!(0);
                }
                let n = cases.len();
                run_projects(schema, scratch.path(), runtime_scratch.path(), &[(proj, 0, n)], &cases, &[answers], &c10::pointer_plurality(&lits), &mut extra, &mut vec![]).into_iter().map(|(_, s, w, _)| (s, w)).collect()
            })
        };
        observations.push(viols);
    }
    if observations[0] != observations[1] {
        machinery_error("replay: two runs of the same case gave different observations");
    }
    let want = v["signature"].as_str().unwrap_or("");
    let hits: Vec<_> = observations[0].iter().filter(|(s, _)| s == want).collect();
    for (s, w) in &hits {
        println!("REPLAY: [{s}] {w}");
    }
    if hits.is_empty() {
        println!("REPLAY: no failure");
        0
    } else {
        println!("VIOLATION property=C25 replay={}", path.display());
        1
    }
}

pub fn main(args: &Args) -> i32 {
    if let Some(sh) = &args.worker {
        SHARD_TEXT.with(|s| *s.borrow_mut() = sh.clone());
        sweep::worker_with_finish(sh, oracle, finish);
        return 0;
    }
    if args.replay.is_some() {
        return replay(args);
    }
    if args.rest.first().map(|s| s.as_str()) == Some("--show") {
        // debugging aid: --show <family json> <index>
        let family: Family = serde_json::from_str(&args.rest[1]).unwrap_or_else(|e| machinery_error(&format!("bad family {e}")));
        let progs = sweep::family_programs(&family);
        println!("{} programs", progs.len());
        if let Some(p) = args.rest.get(2).and_then(|i| i.parse::<usize>().ok()).and_then(|i| progs.get(i)) {
            let scratch = Scratch::new("c25-show");
            let dir = scratch.path().join("p");
            p.project().write_to(&dir);
            for l in p.literals() {
                println!("{}\n", l.1);
            }
            match driver::compile_dir(&dir) {
                Compiled::Ok(a) => {
                    for (p, c) in a {
                        println!("=== {p}\n{c}");
                    }
                }
                Compiled::Diagnostics(d) => println!("DIAGNOSTICS {}", d.join("\n")),
                Compiled::Panic(m) => println!("PANIC {m}"),
            }
        }
        return 0;
    }
    let mut ev = Evidence::new(args, "exploration");
    let rt_scratch = Scratch::new("c25-rt");
    let n_rt = tsrun::write_runtime(rt_scratch.path()).unwrap_or_else(|e| machinery_error(&e));
    // SAFETY: single-threaded at this point
    unsafe { std::env::set_var("VERIF_TSRUN_RUNTIME", rt_scratch.path()) };
    let res = sweep::run_with(args, families(args.tier), args.jobs * 2);
    let mut verdict = Verdict::new("C25");
    for v in res.violations {
        if v.signature == "machinery" {
            machinery_error(&v.what);
        }
        verdict.add(v);
    }
    let mut demo_extra = BTreeMap::new();
    let mut demo_samples = vec![];
    for d in DEMOS {
        let mut smp = vec![];
        for v in check_demo(d, rt_scratch.path(), &mut demo_extra, &mut smp) {
            verdict.add(v);
        }
        demo_samples.extend(smp.into_iter().take(1));
    }
    verdict.violations.sort_by_key(|v| v.what.len());
    let (code, n_new, known) = verdict.conclude("comp_mc/c25");
    ev.violations = n_new as i64;
    let x = |k: &str| res.stats.extra.get(k).copied().unwrap_or(0) + demo_extra.get(k).copied().unwrap_or(0);
    let d = |k: &str| demo_extra.get(k).copied().unwrap_or(0);
    ev.set("evaluations", x("refetchable_selections"))
        .set("states", res.stats.programs + d("demo_projects"))
        .set("distinct_nontrivial", x("checked_against_position_subtree") + x("checked_against_reader"))
        .set("outcomes", res.stats.outcomes.len())
        .set("traces_validated_against_impl", x("refetchable_selections"))
        .set(
            "rule",
            "every accepted program of the stated families and the three demo projects; for every entrypoint artifact the real runtime normalizes the base response and reads it; every imperatively loaded field, client pointer and loadable field met in the data (through eager and @component client fields, and inside pointer / loadable fragments after their answer is normalized, depth <= 2) has its loader called and the operation the runtime sends recorded; evaluations = such selections; non-trivial = those whose operation was compared with the position's subtree (__refetch, exposed fields) or with the field's reader (pointers, loadable fields) and agreed",
        )
        .set("families", json!(res.families.iter().map(|(f, n)| json!({"menu": format!("{:?}", f.menu), "k": f.k, "programs": n})).collect::<Vec<_>>()))
        .set("programs", res.stats.programs)
        .set("programs_accepted", res.stats.accepted)
        .set("demo_projects", d("demo_projects"))
        .set("entrypoints", x("entrypoints"))
        .set("entrypoints_in_demos", d("entrypoints"))
        .set("entrypoints_unreadable_left_to_C10", x("entrypoints_unreadable"))
        .set("fragments_read", x("fragments_read"))
        .set("refetchable_selections", x("refetchable_selections"))
        .set("refetchable_selections_in_demos", d("refetchable_selections"))
        .set("imperatively_loaded", x("kind_imperative"))
        .set("client_pointers", x("kind_pointer"))
        .set("loadable_fields", x("kind_loadable"))
        .set("reached_through_refetched_fragment", x("reached_through_refetched_fragment"))
        .set("compared_with_position_subtree", x("checked_against_position_subtree"))
        .set("compared_with_reader", x("checked_against_reader"))
        .set("violating_records", x("violating_records"))
        .set("runtime_files_blanked", n_rt)
        .set("samples", json!(res.stats.samples.iter().chain(demo_samples.iter()).collect::<Vec<_>>()))
        .set("known_findings_reobserved", json!(known))
        .set("exhaustive", true);
    ev.assume("the composition of refetch indices is executed by the real read.ts; the expected selections of a pointer / loadable field come from a reference flattening of its reader AST (rt_driver.mjs `needed`: scalars, linked fields, client fields inlined with argument substitution, pointer / loadable / imperative nodes contribute what their own small readers read)");
    ev.assume("user code is replaced by stand-ins (see C10); answers to refetch operations are base-world responses whose refetched object carries the requested id");
    ev.write();
    if x("refetchable_selections") < 500 || x("kind_imperative") < 100 || x("kind_pointer") < 50 || x("kind_loadable") < 20 || d("refetchable_selections") < 10 {
        machinery_error("vacuous: too few refetchable selections reached (total < 500, imperative < 100, pointers < 50, loadable < 20, or demos < 10)");
    }
    println!(
        "comp_mc C25: {} programs ({} accepted) + {} demos, {} entrypoints, {} refetchable selections ({} imperative, {} pointers, {} loadable; {} inside refetched fragments; {} in demos), {} new violation signature(s), known {:?}",
        res.stats.programs,
        res.stats.accepted,
        d("demo_projects"),
        x("entrypoints"),
        x("refetchable_selections"),
        x("kind_imperative"),
        x("kind_pointer"),
        x("kind_loadable"),
        x("reached_through_refetched_fragment"),
        d("refetchable_selections"),
        n_new,
        known
    );
    code
}

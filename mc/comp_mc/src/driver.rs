//! Runs the real compiler on a project directory.
use common_lang_types::CurrentWorkingDirectory;
use graphql_network_protocol::GraphQLAndJavascriptProfile;
use intern::string_key::Intern;
use isograph_compiler::{CompilerState, batch_compile::compile};
use isograph_config::create_config;
use std::panic::{AssertUnwindSafe, catch_unwind};
use std::path::Path;

pub enum Compiled {
    /// (path relative to the artifact directory, content), sorted by path
    Ok(Vec<(String, String)>),
    Diagnostics(Vec<String>),
    Panic(String),
}

pub fn read_artifacts(artifact_dir: &Path) -> Vec<(String, String)> {
    fn walk(base: &Path, d: &Path, out: &mut Vec<(String, String)>) {
        let Ok(rd) = std::fs::read_dir(d) else { return };
        for e in rd.flatten() {
            let p = e.path();
            if p.is_dir() {
                walk(base, &p, out);
            } else {
                out.push((p.strip_prefix(base).unwrap().to_string_lossy().to_string(), String::from_utf8_lossy(&std::fs::read(&p).unwrap_or_default()).to_string()));
            }
        }
    }
    let mut out = vec![];
    walk(artifact_dir, artifact_dir, &mut out);
    out.sort();
    out
}

pub fn new_state(dir: &Path) -> Result<CompilerState<GraphQLAndJavascriptProfile>, String> {
    let cwd: CurrentWorkingDirectory = dir.to_str().unwrap().intern().into();
    let config = create_config(&dir.join("isograph.config.json"), cwd);
    CompilerState::new(config, cwd).map_err(|e| e.to_string())
}

pub fn compile_state(state: &mut CompilerState<GraphQLAndJavascriptProfile>) -> Result<usize, Vec<String>> {
    match compile::<GraphQLAndJavascriptProfile>(state) {
        Ok(stats) => Ok(stats.total_artifacts_written),
        Err(diags) => Err(diags.iter().map(|d| d.printable(state.db.print_location_fn(false)).to_string()).collect()),
    }
}

/// Fresh batch compile of the project in `dir` (as `isograph_cli` does).
pub fn compile_dir(dir: &Path) -> Compiled {
    let r = catch_unwind(AssertUnwindSafe(|| {
        let mut state = match new_state(dir) {
            Ok(s) => s,
            Err(e) => return Compiled::Diagnostics(vec![e]),
        };
        match compile_state(&mut state) {
            Ok(_) => Compiled::Ok(read_artifacts(&state.db.get_isograph_config().artifact_directory.absolute_path)),
            Err(d) => Compiled::Diagnostics(d),
        }
    }));
    r.unwrap_or_else(|p| Compiled::Panic(mc_core::panic_message(&*p)))
}

//! C08 — the compiler never crashes on any project.
use crate::driver::Compiled;
use crate::progx::Menu;
use crate::sweep::{self, Ctx, Family, ShardStats};
use mc_core::*;
use serde_json::json;

fn oracle(ctx: &Ctx<'_>, _stats: &mut ShardStats) -> Vec<(String, String)> {
    match ctx.result {
        Compiled::Panic(m) => {
            let mut sig: String = m.chars().filter(|c| !c.is_ascii_digit()).take(80).collect();
            // narrow signature of a recorded finding: a recursive input object type used as a variable type is
            // expanded inline without end by the parameter type printer (indentation counter overflows)
            if sig == "attempt to add with overflow"
                && let Some(crate::progx::Decl::SchemaVariant { code }) = ctx.program.decls.first()
                && crate::schemagen::decode(*code)[6] == 1
            {
                sig = "recursive-input-object-type-as-variable-type".to_string();
            }
            vec![(format!("panic:{sig}"), format!("compile panicked: {m} :: {}", ctx.program.literals().iter().map(|l| l.1.replace('\n', " ")).collect::<Vec<_>>().join(" || ")))]
        }
        Compiled::Diagnostics(d) if d.is_empty() => vec![("no-diagnostic".into(), "compile failed without any diagnostic".into())],
        _ => vec![],
    }
}

pub fn families(tier: Tier) -> Vec<Family> {
    vec![
        Family { menu: Menu::General, k: tier.pick(4, 6) },
        Family { menu: Menu::Args, k: tier.pick(3, 5) },
        Family { menu: Menu::Abstract, k: tier.pick(4, 6) },
        Family { menu: Menu::Cycles, k: tier.pick(2, 3) },
        Family { menu: Menu::ClientArgs, k: tier.pick(3, 4) },
        Family { menu: Menu::Decls, k: 1 },
        Family { menu: Menu::Schemas, k: 1 },
        Family { menu: Menu::DemoMutations, k: tier.pick(2, 3) },
        Family { menu: Menu::Pointers, k: tier.pick(3, 4) },
        Family { menu: Menu::Overlap, k: tier.pick(2, 3) },
    ]
}

pub fn main(args: &Args) -> i32 {
    if let Some(sh) = &args.worker {
        sweep::worker(sh, oracle);
        return 0;
    }
    if args.replay.is_some() {
        return sweep::replay(args);
    }
    let mut ev = Evidence::new(args, "exploration");
    let res = sweep::run(args, families(args.tier));
    let mut verdict = Verdict::new("C08");
    for v in res.violations {
        verdict.add(v);
    }
    verdict.violations.sort_by_key(|v| v.what.len());
    let (code, n_new, known) = verdict.conclude("comp_mc/c08");
    ev.violations = n_new as i64;
    ev.set("evaluations", res.stats.programs)
        .set("distinct_nontrivial", res.stats.outcomes.len())
        .set("rule", "every program of the stated families (all combinations of menu selections up to k nodes, nesting <= 2, over the universe schema; the Cycles family: every pair of selection sets for two client fields that may select themselves and each other) is compiled by the real compiler in a crash-isolated worker; non-trivial = distinct compile outcomes (artifact sets / diagnostics)")
        .set("families", json!(res.families.iter().map(|(f, n)| json!({"menu": format!("{:?}", f.menu), "k": f.k, "programs": n})).collect::<Vec<_>>()))
        .set("accepted", res.stats.accepted)
        .set("rejected_with_diagnostics", res.stats.rejected)
        .set("samples", json!(res.stats.samples))
        .set("known_findings_reobserved", json!(known))
        .set("exhaustive", true);
    ev.assume("generated schemas are one fixed universe schema; raw token mutations of the demo projects and incremental recompiles are covered by C20's harness, not here");
    ev.write();
    println!("comp_mc C08: {} programs ({} accepted, {} rejected), {} distinct outcomes, {} new violation signature(s), known {:?}", res.stats.programs, res.stats.accepted, res.stats.rejected, res.stats.outcomes.len(), n_new, known);
    code
}

//! C12 — response keys are unique per field+arguments and agree with the runtime.
//!
//! (a) Exhaustive: every field name in {f, g} x every argument list of length <= 2 over argument
//!     names {x, y} and a value alphabet (variables, integers incl. negative, booleans, null,
//!     strings incl. every 2-character string over {a, space, _, -, é}, quotes, objects incl.
//!     nested and with variables). Each list is parsed by the real iso parser; the key is built
//!     from the real `to_alias_str_chunk`. For **every pair**: equal key <=> equal (field, args);
//!     every key is a GraphQL Name; the key equals what the TypeScript runtime computes.
//! (b) In context: for every operation of the generated programs, every alias in the query text
//!     equals the key the runtime computes from the corresponding normalization AST node.
//! The runtime side is the *real* `getNetworkResponseKey` / `getArgumentValueChunk` of
//! libs/isograph-react/src/core/cache.ts: their source is cut out by swc spans, parameter and
//! return type annotations are blanked, and the result is executed under node.
use crate::c09::operation_texts;
use crate::driver::Compiled;
use crate::progx::Menu;
use crate::sweep::{self, Ctx, Family, ShardStats};
use crate::tsx::{self, Val};
use common::SourceLocationKey;
use common_lang_types::{Span, TextSource};
use graphql_syntax::*;
use intern::string_key::Intern;
use mc_core::*;
use serde_json::{Value as J, json};
use std::collections::BTreeMap;
use swc_common::Spanned;
use swc_ecma_ast as ast;

const CACHE_TS: &str = "/repo/libs/isograph-react/src/core/cache.ts";

/// JavaScript source of the two runtime functions (types blanked) + a driver reading JSON nodes from stdin
pub fn runtime_js() -> Result<String, String> {
    let src = std::fs::read_to_string(CACHE_TS).map_err(|e| format!("{CACHE_TS}: {e}"))?;
    let module = tsx::parse(&src)?;
    let base = module.span.lo.0; // BytePos of the first byte of the file
    let mut out = String::new();
    let mut consts = String::new();
    for item in &module.body {
        let (decl, span) = match item {
            ast::ModuleItem::Stmt(ast::Stmt::Decl(d)) => (d, item.span()),
            ast::ModuleItem::ModuleDecl(ast::ModuleDecl::ExportDecl(e)) => (&e.decl, e.decl.span()),
            _ => continue,
        };
        match decl {
            ast::Decl::Fn(f) if ["getNetworkResponseKey", "getArgumentValueChunk"].contains(&&*f.ident.sym) => {
                let Some(_) = &f.function.body else { continue }; // overload signature
                let (lo, hi) = ((span.lo.0 - base) as usize, (span.hi.0 - base) as usize);
                let mut text: Vec<u8> = src.as_bytes()[lo..hi].to_vec();
                let mut blank = |s: swc_common::Span| {
                    for b in &mut text[(s.lo.0 - base) as usize - lo..(s.hi.0 - base) as usize - lo] {
                        if *b != b'\n' {
                            *b = b' ';
                        }
                    }
                };
                for p in &f.function.params {
                    if let ast::Pat::Ident(i) = &p.pat
                        && let Some(t) = &i.type_ann
                    {
                        blank(t.span);
                    }
                }
                if let Some(r) = &f.function.return_type {
                    blank(r.span);
                }
                out.push_str(&String::from_utf8_lossy(&text));
                out.push('\n');
            }
            ast::Decl::Var(v) => {
                for d in &v.decls {
                    if let ast::Pat::Ident(i) = &d.name
                        && ["FIRST_SPLIT_KEY", "SECOND_SPLIT_KEY", "THIRD_SPLIT_KEY"].contains(&&*i.id.sym)
                        && let Some(init) = &d.init
                    {
                        let (lo, hi) = ((init.span().lo.0 - base) as usize, (init.span().hi.0 - base) as usize);
                        consts.push_str(&format!("const {} = {};\n", i.id.sym, &src[lo..hi]));
                    }
                }
            }
            _ => {}
        }
    }
    if !out.contains("function getNetworkResponseKey") || !out.contains("function getArgumentValueChunk") || consts.matches("const ").count() != 3 {
        return Err("could not cut getNetworkResponseKey / getArgumentValueChunk / split-key constants out of cache.ts".into());
    }
    Ok(format!("{consts}{out}\nconst nodes = JSON.parse(require('fs').readFileSync(0, 'utf8'));\nconst res = nodes.map(n => {{ try {{ return getNetworkResponseKey(n); }} catch (e) {{ return 'THROW ' + e; }} }});\nprocess.stdout.write(JSON.stringify(res));\n"))
}

pub fn run_runtime(js: &str, nodes: &[J]) -> Result<Vec<String>, String> {
    use std::io::Write;
    let scratch = Scratch::new("node");
    let file = scratch.path().join("keys.cjs");
    std::fs::write(&file, js).map_err(|e| e.to_string())?;
    let mut child = std::process::Command::new("node").arg(&file).stdin(std::process::Stdio::piped()).stdout(std::process::Stdio::piped()).stderr(std::process::Stdio::piped()).spawn().map_err(|e| format!("cannot run node: {e}"))?;
    child.stdin.take().unwrap().write_all(serde_json::to_string(nodes).unwrap().as_bytes()).map_err(|e| e.to_string())?;
    let out = child.wait_with_output().map_err(|e| e.to_string())?;
    if !out.status.success() {
        return Err(format!("node failed: {}", String::from_utf8_lossy(&out.stderr)));
    }
    serde_json::from_slice(&out.stdout).map_err(|e| format!("bad node output: {e}"))
}

fn val_to_json(v: &Val) -> J {
    match v {
        Val::Null => J::Null,
        Val::Bool(b) => json!(b),
        Val::Num(n) => {
            if n.fract() == 0.0 { json!(*n as i64) } else { json!(n) }
        }
        Val::Str(s) => json!(s),
        Val::Arr(a) => J::Array(a.iter().map(val_to_json).collect()),
        Val::Obj(kv) => J::Object(kv.iter().map(|(k, v)| (k.clone(), val_to_json(v))).collect()),
        Val::Ref(r) => json!({"$ref": r}),
        Val::Other => J::Null,
    }
}

fn is_name(s: &str) -> bool {
    let mut cs = s.chars();
    cs.next().is_some_and(|c| c == '_' || c.is_ascii_alphabetic()) && cs.all(|c| c == '_' || c.is_ascii_alphanumeric())
}

/// argument values: (source text, semantic canonical form, normalization AST value as JSON)
fn value_alphabet() -> Vec<(String, String, J)> {
    let mut v: Vec<(String, String, J)> = vec![
        ("$v".into(), "var v".into(), json!({"kind": "Variable", "name": "v"})),
        ("$w".into(), "var w".into(), json!({"kind": "Variable", "name": "w"})),
        ("1".into(), "int 1".into(), json!({"kind": "Literal", "value": 1})),
        ("-1".into(), "int -1".into(), json!({"kind": "Literal", "value": -1})),
        ("0".into(), "int 0".into(), json!({"kind": "Literal", "value": 0})),
        ("true".into(), "bool true".into(), json!({"kind": "Literal", "value": true})),
        ("false".into(), "bool false".into(), json!({"kind": "Literal", "value": false})),
        ("null".into(), "null".into(), json!({"kind": "Literal", "value": null})),
        ("{a: 1}".into(), "obj a=int 1".into(), json!({"kind": "Object", "value": [["a", {"kind": "Literal", "value": 1}]]})),
        ("{a: $v}".into(), "obj a=var v".into(), json!({"kind": "Object", "value": [["a", {"kind": "Variable", "name": "v"}]]})),
        ("{a: {b: 1}}".into(), "obj a=obj b=int 1".into(), json!({"kind": "Object", "value": [["a", {"kind": "Object", "value": [["b", {"kind": "Literal", "value": 1}]]}]]})),
        ("{a: 1, b: 2}".into(), "obj a=int 1,b=int 2".into(), json!({"kind": "Object", "value": [["a", {"kind": "Literal", "value": 1}], ["b", {"kind": "Literal", "value": 2}]]})),
        ("{a_b: 1}".into(), "obj a_b=int 1".into(), json!({"kind": "Object", "value": [["a_b", {"kind": "Literal", "value": 1}]]})),
    ];
    let mut strings: Vec<String> = vec!["".into(), "a".into(), "true".into(), "1".into(), "v".into(), "it's".into(), "null".into()];
    let cs = ['a', ' ', '_', '-', 'é'];
    for x in cs {
        for y in cs {
            strings.push(format!("{x}{y}"));
        }
    }
    for s in strings {
        v.push((format!("\"{s}\""), format!("str {s:?}"), json!({"kind": "String", "value": s})));
    }
    v
}

/// key built from the real parser's arguments and the real to_alias_str_chunk
fn rust_key(field: &str, args_src: &str) -> Result<String, String> {
    let text = format!("field Query.Root {{ {field}{args_src}, }}");
    let ts = TextSource { relative_path_to_source_file: "f.ts".intern().into(), span: Some(Span::new(0, text.len() as u32)) };
    let r = isograph_lang_parser::parse_iso_literal(text.clone(), "f.ts".intern().into(), Some("Root".into()), ts).map_err(|d| format!("parser rejects {text:?}: {}", d.0.message))?;
    let isograph_lang_parser::IsoLiteralExtractionResult::ClientFieldDeclaration(c) = r else { return Err("not a field".into()) };
    let sel = &c.item.selection_set.item.selections[0].item;
    let args = match sel {
        isograph_lang_types::SelectionType::Scalar(s) => &s.arguments,
        isograph_lang_types::SelectionType::Object(o) => &o.arguments,
    };
    let mut key = field.to_string();
    for a in args {
        key.push_str("____");
        key.push_str(&a.item.to_alias_str_chunk());
    }
    Ok(key)
}

fn part_a(js: &str) -> (u64, u64, Vec<Violation>) {
    let vals = value_alphabet();
    let names = ["x", "y"];
    // all argument lists of length <= 2 (distinct names)
    let mut lists: Vec<Vec<(usize, usize)>> = vec![vec![]];
    for n in 0..names.len() {
        for v in 0..vals.len() {
            lists.push(vec![(n, v)]);
        }
    }
    for v1 in 0..vals.len() {
        for v2 in 0..vals.len() {
            lists.push(vec![(0, v1), (1, v2)]);
        }
    }
    let mut cases: Vec<(String, String, String, J)> = vec![]; // (source, semantic, rust key, node)
    let mut violations = vec![];
    for field in ["f", "g"] {
        for l in &lists {
            let src = if l.is_empty() { String::new() } else { format!("({})", l.iter().map(|(n, v)| format!("{}: {}", names[*n], vals[*v].0)).collect::<Vec<_>>().join(", ")) };
            let sem = format!("{field}({})", l.iter().map(|(n, v)| format!("{}={}", names[*n], vals[*v].1)).collect::<Vec<_>>().join(";"));
            let node = json!({"kind": "Scalar", "fieldName": field, "arguments": if l.is_empty() { J::Null } else { J::Array(l.iter().map(|(n, v)| json!([names[*n], vals[*v].2])).collect()) }});
            match rust_key(field, &src) {
                Ok(k) => cases.push((format!("{field}{src}"), sem, k, node)),
                Err(e) => violations.push(Violation { signature: "machinery".into(), what: e, case: json!({}) }),
            }
        }
    }
    let js_keys = match run_runtime(js, &cases.iter().map(|c| c.3.clone()).collect::<Vec<_>>()) {
        Ok(k) => k,
        Err(e) => {
            violations.push(Violation { signature: "machinery".into(), what: e, case: json!({}) });
            return (0, 0, violations);
        }
    };
    // legal names and agreement with the runtime
    for (c, jk) in cases.iter().zip(&js_keys) {
        if !is_name(&c.2) {
            let class = if c.0.contains("-1") { "illegal-name:negative-integer" } else { "illegal-name" };
            violations.push(Violation { signature: class.into(), what: format!("{} gets the response key {:?}, which is not a GraphQL Name", c.0, c.2), case: json!({"selection": c.0}) });
        }
        if c.2 != *jk {
            violations.push(Violation { signature: "compiler-runtime-mismatch".into(), what: format!("{}: the compiler writes {:?}, the runtime computes {:?}", c.0, c.2, jk), case: json!({"selection": c.0}) });
        }
    }
    // every pair: equal key <=> equal (field, args)
    let mut by_key: BTreeMap<&str, Vec<usize>> = BTreeMap::new();
    for (i, c) in cases.iter().enumerate() {
        by_key.entry(&c.2).or_default().push(i);
    }
    let pairs = (cases.len() * (cases.len() - 1) / 2) as u64;
    for (k, idx) in &by_key {
        for i in 0..idx.len() {
            for j in i + 1..idx.len() {
                let (a, b) = (&cases[idx[i]], &cases[idx[j]]);
                if a.1 != b.1 {
                    let norm = |s: &str| s.chars().map(|c| if c.is_ascii_alphanumeric() || c == '_' { c } else { '_' }).collect::<String>();
                    let class = if norm(&a.0) == norm(&b.0) { "collision:strings-differing-only-in-non-word-characters" } else { "collision" };
                    violations.push(Violation { signature: class.into(), what: format!("{} and {} share the response key {k:?}", a.0, b.0), case: json!({"a": a.0, "b": b.0}) });
                }
            }
        }
    }
    (cases.len() as u64, pairs, violations)
}

// ---- (b) in context ---------------------------------------------------------------------------

fn walk(sels: &[Selection], nodes: &[Val], path: &str, out: &mut Vec<(String, String, J)>, problems: &mut Vec<(String, String)>) {
    let mut ni = 0;
    for s in sels {
        let Some(n) = nodes.get(ni) else {
            problems.push(("tree-mismatch".into(), format!("{path}: normalization AST has fewer selections than the operation")));
            return;
        };
        ni += 1;
        match s {
            Selection::ScalarField(f) => out.push((format!("{path}.{}", f.name.value), f.alias.as_ref().map(|a| a.alias.value.to_string()).unwrap_or(f.name.value.to_string()), val_to_json(n))),
            Selection::LinkedField(f) => {
                out.push((format!("{path}.{}", f.name.value), f.alias.as_ref().map(|a| a.alias.value.to_string()).unwrap_or(f.name.value.to_string()), val_to_json(n)));
                walk(&f.selections.items, n.get("selections").and_then(|x| x.arr()).unwrap_or(&[]), &format!("{path}.{}", f.name.value), out, problems);
            }
            Selection::InlineFragment(fr) => walk(&fr.selections.items, n.get("selections").and_then(|x| x.arr()).unwrap_or(&[]), path, out, problems),
            Selection::FragmentSpread(_) => {}
        }
    }
}

thread_local! {
    /// fields collected by the oracle of this shard: (program index, where, key used by the operation, normalization node)
    static PENDING: std::cell::RefCell<Vec<(usize, String, String, J)>> = const { std::cell::RefCell::new(Vec::new()) };
}

fn oracle(ctx: &Ctx<'_>, _stats: &mut ShardStats) -> Vec<(String, String)> {
    let Compiled::Ok(arts) = ctx.result else { return vec![] };
    let mut fields: Vec<(String, String, J)> = vec![];
    for (path, text) in operation_texts(arts) {
        let Ok(text) = text else { continue };
        let ast_path = if path.ends_with("/query_text.ts") { path.replace("/query_text.ts", "/normalization_ast.ts") } else { path.replace("__refetch__query_text__", "__refetch__") };
        let Some((_, ast_src)) = arts.iter().find(|(p, _)| *p == ast_path) else { continue };
        let Ok(doc) = parse_executable(&text, SourceLocationKey::Generated) else { continue };
        let Some(ExecutableDefinition::Operation(op)) = doc.definitions.first() else { continue };
        let Ok(file) = tsx::load(ast_src) else { continue };
        let ast = file.consts.get("normalizationAst").cloned().or(file.default_export.clone()).unwrap_or(Val::Null);
        let ast = if ast.get("selections").is_some() { ast } else { ast.get("networkRequestInfo").and_then(|n| n.get("normalizationAst")).cloned().unwrap_or(ast) };
        let Some(sels) = ast.get("selections").and_then(|s| s.arr()) else { continue };
        let mut problems = vec![];
        // a tree mismatch is C11's business
        walk(&op.selections.items, sels, &path, &mut fields, &mut problems);
    }
    PENDING.with(|p| p.borrow_mut().extend(fields.into_iter().map(|f| (ctx.index, f.0, f.1, f.2))));
    vec![]
}

/// one node invocation per shard
fn finish(stats: &mut ShardStats) {
    let fields = PENDING.with(|p| std::mem::take(&mut *p.borrow_mut()));
    if fields.is_empty() {
        return;
    }
    let js = runtime_js().unwrap_or_else(|e| machinery_error(&e));
    let keys = run_runtime(&js, &fields.iter().map(|f| f.3.clone()).collect::<Vec<_>>()).unwrap_or_else(|e| machinery_error(&e));
    for (f, k) in fields.iter().zip(&keys) {
        *stats.extra.entry("fields_compared".into()).or_default() += 1;
        if f.2 != *k && stats.failures.len() < 20 {
            stats.failures.push((f.0, "compiler-runtime-mismatch".to_string(), format!("{}: the operation uses response key {:?} but the runtime computes {:?} from the normalization AST node", f.1, f.2, k), json!({"index": f.0, "where": f.1})));
        }
    }
}

pub fn main(args: &Args) -> i32 {
    if let Some(sh) = &args.worker {
        sweep::worker_with_finish(sh, oracle, finish);
        return 0;
    }
    if let Some(path) = &args.replay {
        let v = read_replay(path);
        if v["case"].get("family").is_some() {
            return sweep::replay(args);
        }
        let js = runtime_js().unwrap_or_else(|e| machinery_error(&e));
        let (_, _, viols) = part_a(&js);
        let hit: Vec<_> = viols.iter().filter(|x| x.case == v["case"]).collect();
        for h in &hit {
            println!("REPLAY: [{}] {}", h.signature, h.what);
        }
        if hit.is_empty() {
            println!("REPLAY: no failure");
            return 0;
        }
        println!("VIOLATION property=C12 replay={}", path.display());
        return 1;
    }
    let mut ev = Evidence::new(args, "exploration");
    let js = runtime_js().unwrap_or_else(|e| machinery_error(&e));
    let (cases, pairs, viols_a) = part_a(&js);
    let families = vec![Family { menu: Menu::General, k: args.tier.pick(3, 5) }, Family { menu: Menu::Args, k: args.tier.pick(3, 5) }, Family { menu: Menu::Pointers, k: args.tier.pick(3, 4) }];
    let res = sweep::run(args, families);
    let mut verdict = Verdict::new("C12");
    for v in viols_a.into_iter().chain(res.violations) {
        if v.signature == "machinery" {
            machinery_error(&v.what);
        }
        verdict.add(v);
    }
    verdict.violations.sort_by_key(|v| v.what.len());
    let (code, n_new, known) = verdict.conclude("comp_mc/c12");
    ev.violations = n_new as i64;
    let fc = res.stats.extra.get("fields_compared").copied().unwrap_or(0);
    ev.set("evaluations", cases + fc)
        .set("distinct_nontrivial", cases)
        .set("rule", "(a) every (field, argument list of length <= 2) over the stated value alphabet, keys from the real parser + to_alias_str_chunk, every pair compared; (b) every field of every operation of the generated programs; both compared with the real runtime functions cut out of cache.ts and run under node")
        .set("selections_enumerated", cases)
        .set("pairs_compared", pairs)
        .set("fields_compared_in_context", fc)
        .set("traces_validated_against_impl", cases + fc)
        .set("samples", json!(["f(x: \"a b\", y: {a: $v})", "g(x: -1)", res.stats.samples]))
        .set("known_findings_reobserved", json!(known))
        .set("exhaustive", true);
    ev.assume("the runtime functions are executed as found in libs/isograph-react/src/core/cache.ts with only parameter/return type annotations blanked; strings containing characters outside the BMP cannot be written in iso literals (the lexer rejects them) and are not enumerated");
    ev.write();
    if cases < 1000 || fc < 100 {
        machinery_error("vacuous: too few cases");
    }
    println!("comp_mc C12: {} selections, {} pairs, {} fields in context, {} new violation signature(s), known {:?}", cases, pairs, fc, n_new, known);
    code
}

//! `tsrun` — run TypeScript sources under node without a TypeScript compiler.
//!
//! A span-based TYPE BLANKER: a module is parsed with swc (TypeScript syntax); every type-only span
//! (type annotations, type parameters / arguments, interfaces, type aliases, `import type`,
//! type-only import/export specifiers, `as T`, `satisfies T`, `<T>x`, non-null `!`, definite `!`,
//! optional-parameter `?`, overload signatures, `declare` statements, accessibility / `readonly` /
//! `override` modifiers, `implements` clauses) is overwritten with spaces, import declarations are
//! re-printed with their specifier rewritten by the caller (imports whose bindings are never used
//! in a value position are dropped, as TypeScript does), and the result is plain JavaScript (ESM).
//! Nothing else of the text is touched, so what node executes is the code as written.
//!
//! A construct the blanker does not know how to erase (enum, namespace, parameter property,
//! decorator, `import x = require()`, `export =`, abstract class members ...) is an `Err` naming
//! the construct: callers turn it into a MACHINERY-ERROR, never into a verdict.
use std::collections::{BTreeMap, BTreeSet};
use std::path::{Path, PathBuf};
use swc_common::{Span, Spanned};
use swc_ecma_ast::*;
use swc_ecma_visit::{Visit, VisitWith};

/// What to do with one import / re-export specifier (`from '<spec>'`).
pub enum Rewrite {
    /// keep the declaration, with this module specifier
    To(String),
    /// remove the declaration (e.g. a package that only provides types)
    #[allow(dead_code)]
    Drop,
}

pub struct Blanked {
    pub js: String,
    /// (module specifier as written, imported names that survive: `default`, `*`, or the exported name)
    pub value_imports: Vec<(String, Vec<String>)>,
}

struct Collector<'a> {
    src: &'a str,
    base: u32,
    /// (lo, hi) byte ranges to overwrite with spaces
    blanks: Vec<(usize, usize)>,
    /// identifiers referenced outside type positions and outside import declarations
    value_idents: BTreeSet<String>,
    /// `import('<spec>')` expressions: (range of the string literal, spec)
    dynamic_imports: Vec<((usize, usize), String)>,
    unsupported: Vec<String>,
}

impl Collector<'_> {
    fn range(&self, s: Span) -> (usize, usize) {
        ((s.lo.0 - self.base) as usize, (s.hi.0 - self.base) as usize)
    }
    fn blank(&mut self, s: Span) {
        let r = self.range(s);
        self.blanks.push(r);
    }
    fn blank_between(&mut self, lo: swc_common::BytePos, hi: swc_common::BytePos) {
        self.blanks.push(((lo.0 - self.base) as usize, (hi.0 - self.base) as usize));
    }
    /// blank one punctuation character (`?` or `!`) that follows position `after`, skipping white space
    fn blank_char_after(&mut self, after: swc_common::BytePos, ch: u8, what: &str) {
        let bytes = self.src.as_bytes();
        let mut i = (after.0 - self.base) as usize;
        while i < bytes.len() && (bytes[i] as char).is_whitespace() {
            i += 1;
        }
        if bytes.get(i) == Some(&ch) {
            self.blanks.push((i, i + 1));
        } else {
            self.unsupported.push(format!("{what}: expected `{}` after byte {}", ch as char, i));
        }
    }
    /// blank a keyword that precedes position `before` inside `within` (modifiers such as `public`, `readonly`)
    fn blank_word_in(&mut self, within: Span, word: &str) {
        let (lo, hi) = self.range(within);
        let text = &self.src[lo..hi];
        let mut from = 0;
        while let Some(p) = text[from..].find(word) {
            let at = from + p;
            let before_ok = at == 0 || !text.as_bytes()[at - 1].is_ascii_alphanumeric() && text.as_bytes()[at - 1] != b'_';
            let after_ok = text.as_bytes().get(at + word.len()).is_none_or(|c| !c.is_ascii_alphanumeric() && *c != b'_');
            if before_ok && after_ok {
                self.blanks.push((lo + at, lo + at + word.len()));
                return;
            }
            from = at + word.len();
        }
        self.unsupported.push(format!("modifier `{word}` not found where the AST says it is"));
    }
}

impl Visit for Collector<'_> {
    // ---- type positions: blank, never descend (identifiers in there are not value uses) ----
    fn visit_ts_type_ann(&mut self, n: &TsTypeAnn) {
        self.blank(n.span);
    }
    fn visit_ts_type_param_decl(&mut self, n: &TsTypeParamDecl) {
        self.blank(n.span);
    }
    fn visit_ts_type_param_instantiation(&mut self, n: &TsTypeParamInstantiation) {
        self.blank(n.span);
    }
    fn visit_ts_type(&mut self, _: &TsType) {}
    fn visit_ts_interface_decl(&mut self, n: &TsInterfaceDecl) {
        self.blank(n.span);
    }
    fn visit_ts_type_alias_decl(&mut self, n: &TsTypeAliasDecl) {
        self.blank(n.span);
    }
    fn visit_ts_enum_decl(&mut self, n: &TsEnumDecl) {
        if n.declare {
            self.blank(n.span);
        } else {
            self.unsupported.push("enum declaration".into());
        }
    }
    fn visit_ts_module_decl(&mut self, n: &TsModuleDecl) {
        if n.declare {
            self.blank(n.span);
        } else {
            self.unsupported.push("namespace / module declaration".into());
        }
    }
    fn visit_ts_import_equals_decl(&mut self, _: &TsImportEqualsDecl) {
        self.unsupported.push("import x = require(...)".into());
    }
    fn visit_ts_export_assignment(&mut self, _: &TsExportAssignment) {
        self.unsupported.push("export = x".into());
    }
    fn visit_ts_namespace_export_decl(&mut self, _: &TsNamespaceExportDecl) {
        self.unsupported.push("export as namespace".into());
    }
    fn visit_ts_param_prop(&mut self, _: &TsParamProp) {
        self.unsupported.push("constructor parameter property".into());
    }
    fn visit_decorator(&mut self, _: &Decorator) {
        self.unsupported.push("decorator".into());
    }
    fn visit_ts_index_signature(&mut self, n: &TsIndexSignature) {
        // only legal in classes at value level
        self.blank(n.span);
    }

    // ---- expressions that wrap a value in a type operator ----
    fn visit_ts_as_expr(&mut self, n: &TsAsExpr) {
        n.expr.visit_with(self);
        self.blank_between(n.expr.span().hi, n.span.hi);
    }
    fn visit_ts_satisfies_expr(&mut self, n: &TsSatisfiesExpr) {
        n.expr.visit_with(self);
        self.blank_between(n.expr.span().hi, n.span.hi);
    }
    fn visit_ts_const_assertion(&mut self, n: &TsConstAssertion) {
        n.expr.visit_with(self);
        self.blank_between(n.expr.span().hi, n.span.hi);
    }
    fn visit_ts_non_null_expr(&mut self, n: &TsNonNullExpr) {
        n.expr.visit_with(self);
        self.blank_between(n.expr.span().hi, n.span.hi);
    }
    fn visit_ts_type_assertion(&mut self, n: &TsTypeAssertion) {
        self.blank_between(n.span.lo, n.expr.span().lo);
        n.expr.visit_with(self);
    }
    fn visit_ts_instantiation(&mut self, n: &TsInstantiation) {
        n.expr.visit_with(self);
        self.blank(n.type_args.span);
    }

    // ---- declarations ----
    fn visit_fn_decl(&mut self, n: &FnDecl) {
        if n.declare || n.function.body.is_none() {
            // overload signature / ambient function: the caller blanks the enclosing `export` too
            self.blank(n.span());
            return;
        }
        n.visit_children_with(self);
    }
    fn visit_var_decl(&mut self, n: &VarDecl) {
        if n.declare {
            self.blank(n.span);
            return;
        }
        n.visit_children_with(self);
    }
    fn visit_var_declarator(&mut self, n: &VarDeclarator) {
        if n.definite
            && let Pat::Ident(i) = &n.name
        {
            self.blank_char_after(i.id.span.lo + swc_common::BytePos(i.id.sym.len() as u32), b'!', "definite assignment");
        }
        n.visit_children_with(self);
    }
    fn visit_class_decl(&mut self, n: &ClassDecl) {
        if n.declare {
            self.blank(n.span());
            return;
        }
        n.visit_children_with(self);
    }
    fn visit_class(&mut self, n: &Class) {
        if n.is_abstract {
            self.unsupported.push("abstract class".into());
        }
        if let (Some(first), Some(last)) = (n.implements.first(), n.implements.last()) {
            // `implements A, B` sits between the heritage and the body
            let (lo, _) = self.range(first.span());
            let (_, hi) = self.range(last.span());
            let head = &self.src[..lo];
            match head.rfind("implements") {
                Some(p) => self.blanks.push((p, hi)),
                None => self.unsupported.push("implements clause".into()),
            }
        }
        n.visit_children_with(self);
    }
    fn visit_class_prop(&mut self, n: &ClassProp) {
        if n.declare || n.is_abstract {
            self.blank(n.span);
            return;
        }
        if let Some(a) = n.accessibility {
            self.blank_word_in(n.span, match a {
                Accessibility::Public => "public",
                Accessibility::Protected => "protected",
                Accessibility::Private => "private",
            });
        }
        if n.readonly {
            self.blank_word_in(n.span, "readonly");
        }
        if n.is_override {
            self.blank_word_in(n.span, "override");
        }
        if n.is_optional {
            self.blank_char_after(n.key.span().hi, b'?', "optional class property");
        }
        if n.definite {
            self.blank_char_after(n.key.span().hi, b'!', "definite class property");
        }
        n.visit_children_with(self);
    }
    fn visit_class_method(&mut self, n: &ClassMethod) {
        if n.is_abstract || n.function.body.is_none() {
            self.blank(n.span);
            return;
        }
        if let Some(a) = n.accessibility {
            self.blank_word_in(n.span, match a {
                Accessibility::Public => "public",
                Accessibility::Protected => "protected",
                Accessibility::Private => "private",
            });
        }
        if n.is_override {
            self.blank_word_in(n.span, "override");
        }
        if n.is_optional {
            self.unsupported.push("optional class method".into());
        }
        n.visit_children_with(self);
    }
    fn visit_constructor(&mut self, n: &Constructor) {
        if n.body.is_none() {
            self.blank(n.span);
            return;
        }
        if let Some(a) = n.accessibility {
            self.blank_word_in(n.span, match a {
                Accessibility::Public => "public",
                Accessibility::Protected => "protected",
                Accessibility::Private => "private",
            });
        }
        n.visit_children_with(self);
    }
    fn visit_param(&mut self, n: &Param) {
        if let Pat::Ident(i) = &n.pat
            && &*i.id.sym == "this"
        {
            self.unsupported.push("`this` parameter".into());
        }
        n.visit_children_with(self);
    }
    fn visit_binding_ident(&mut self, n: &BindingIdent) {
        if n.id.optional {
            // the identifier's span may extend over `?` and the annotation: start right after the name
            self.blank_char_after(n.id.span.lo + swc_common::BytePos(n.id.sym.len() as u32), b'?', "optional parameter");
        }
        n.visit_children_with(self);
    }
    fn visit_array_pat(&mut self, n: &ArrayPat) {
        if n.optional {
            self.unsupported.push("optional array pattern".into());
        }
        n.visit_children_with(self);
    }
    fn visit_object_pat(&mut self, n: &ObjectPat) {
        if n.optional {
            self.unsupported.push("optional object pattern".into());
        }
        n.visit_children_with(self);
    }

    fn visit_call_expr(&mut self, n: &CallExpr) {
        if let Callee::Import(_) = &n.callee {
            match n.args.first().map(|a| &*a.expr) {
                Some(Expr::Lit(Lit::Str(s))) => {
                    let r = self.range(s.span);
                    self.dynamic_imports.push((r, s.value.to_string()));
                }
                _ => self.unsupported.push("import() with a computed specifier".into()),
            }
        }
        n.visit_children_with(self);
    }

    // ---- value identifier uses (for import elision) ----
    fn visit_ident(&mut self, n: &Ident) {
        self.value_idents.insert(n.sym.to_string());
    }
    fn visit_import_decl(&mut self, _: &ImportDecl) {}
    fn visit_named_export(&mut self, n: &NamedExport) {
        if n.src.is_none() && !n.type_only {
            // `export { a, type B }`: a is a value use
            for s in &n.specifiers {
                if let ExportSpecifier::Named(s) = s
                    && !s.is_type_only
                    && let ModuleExportName::Ident(i) = &s.orig
                {
                    self.value_idents.insert(i.sym.to_string());
                }
            }
        }
    }
}

fn export_name(n: &ModuleExportName) -> String {
    match n {
        ModuleExportName::Ident(i) => i.sym.to_string(),
        ModuleExportName::Str(s) => s.value.to_string(),
    }
}

/// Blank one module. `rewrite` maps every module specifier that survives to its replacement.
pub fn blank_module(src: &str, file_label: &str, rewrite: &mut dyn FnMut(&str) -> Result<Rewrite, String>) -> Result<Blanked, String> {
    let module = crate::tsx::parse(src).map_err(|e| format!("{file_label}: does not parse as TypeScript: {e}"))?;
    // tsx::parse registers the text as the first file of a fresh SourceMap: its first byte is BytePos(1)
    let base = 1u32;
    let mut c = Collector { src, base, blanks: vec![], value_idents: BTreeSet::new(), dynamic_imports: vec![], unsupported: vec![] };
    // module-level: statements that disappear entirely (with their `export` keyword)
    let mut replaced: Vec<(usize, usize, String)> = vec![];
    let mut value_imports: Vec<(String, Vec<String>)> = vec![];
    // first pass: everything except imports (collects value identifier uses)
    for item in &module.body {
        match item {
            ModuleItem::ModuleDecl(ModuleDecl::Import(_)) => {}
            ModuleItem::ModuleDecl(ModuleDecl::ExportDecl(e)) => {
                let whole = match &e.decl {
                    Decl::TsInterface(_) | Decl::TsTypeAlias(_) => true,
                    Decl::Fn(f) => f.declare || f.function.body.is_none(),
                    Decl::Var(v) => v.declare,
                    Decl::Class(cd) => cd.declare,
                    Decl::TsEnum(t) => t.declare,
                    Decl::TsModule(t) => t.declare,
                    Decl::Using(_) => false,
                };
                if whole {
                    c.blank(e.span);
                } else {
                    item.visit_with(&mut c);
                }
            }
            ModuleItem::ModuleDecl(ModuleDecl::ExportNamed(n)) => {
                if n.type_only {
                    c.blank(n.span);
                    continue;
                }
                item.visit_with(&mut c);
                let kept: Vec<String> = n
                    .specifiers
                    .iter()
                    .filter_map(|s| match s {
                        ExportSpecifier::Named(s) if s.is_type_only => None,
                        ExportSpecifier::Named(s) => Some(match &s.exported {
                            Some(ex) => format!("{} as {}", export_name(&s.orig), export_name(ex)),
                            None => export_name(&s.orig),
                        }),
                        ExportSpecifier::Namespace(ns) => Some(format!("* as {}", export_name(&ns.name))),
                        ExportSpecifier::Default(d) => Some(d.exported.sym.to_string()),
                    })
                    .collect();
                let (lo, hi) = c.range(n.span);
                let text = match &n.src {
                    Some(s) => match rewrite(&s.value)? {
                        Rewrite::To(to) => {
                            value_imports.push((s.value.to_string(), kept.clone()));
                            format!("export {{ {} }} from {};", kept.join(", "), serde_json::to_string(&to).unwrap())
                        }
                        Rewrite::Drop => String::new(),
                    },
                    None => format!("export {{ {} }};", kept.join(", ")),
                };
                replaced.push((lo, hi, text));
            }
            ModuleItem::ModuleDecl(ModuleDecl::ExportAll(a)) => {
                let (lo, hi) = c.range(a.span);
                if a.type_only {
                    c.blank(a.span);
                    continue;
                }
                match rewrite(&a.src.value)? {
                    Rewrite::To(to) => {
                        value_imports.push((a.src.value.to_string(), vec!["*".into()]));
                        replaced.push((lo, hi, format!("export * from {};", serde_json::to_string(&to).unwrap())));
                    }
                    Rewrite::Drop => replaced.push((lo, hi, String::new())),
                }
            }
            other => other.visit_with(&mut c),
        }
    }
    // second pass: imports, now that value uses are known
    for item in &module.body {
        let ModuleItem::ModuleDecl(ModuleDecl::Import(i)) = item else { continue };
        let (lo, hi) = c.range(i.span);
        if i.type_only {
            replaced.push((lo, hi, String::new()));
            continue;
        }
        if i.specifiers.is_empty() {
            // side-effect import
            match rewrite(&i.src.value)? {
                Rewrite::To(to) => {
                    value_imports.push((i.src.value.to_string(), vec![]));
                    replaced.push((lo, hi, format!("import {};", serde_json::to_string(&to).unwrap())));
                }
                Rewrite::Drop => replaced.push((lo, hi, String::new())),
            }
            continue;
        }
        let mut default = None;
        let mut namespace = None;
        let mut named = vec![];
        let mut names = vec![];
        for s in &i.specifiers {
            match s {
                ImportSpecifier::Named(n) => {
                    if n.is_type_only || !c.value_idents.contains(&*n.local.sym) {
                        continue;
                    }
                    let imported = n.imported.as_ref().map(export_name).unwrap_or(n.local.sym.to_string());
                    names.push(imported.clone());
                    named.push(if imported == *n.local.sym { imported } else { format!("{imported} as {}", n.local.sym) });
                }
                ImportSpecifier::Default(d) => {
                    if c.value_idents.contains(&*d.local.sym) {
                        default = Some(d.local.sym.to_string());
                        names.push("default".into());
                    }
                }
                ImportSpecifier::Namespace(n) => {
                    if c.value_idents.contains(&*n.local.sym) {
                        namespace = Some(n.local.sym.to_string());
                        names.push("*".into());
                    }
                }
            }
        }
        if default.is_none() && namespace.is_none() && named.is_empty() {
            // only types were imported: TypeScript drops the declaration
            replaced.push((lo, hi, String::new()));
            continue;
        }
        match rewrite(&i.src.value)? {
            Rewrite::Drop => replaced.push((lo, hi, String::new())),
            Rewrite::To(to) => {
                let mut parts = vec![];
                if let Some(d) = default {
                    parts.push(d);
                }
                if let Some(n) = namespace {
                    parts.push(format!("* as {n}"));
                }
                if !named.is_empty() {
                    parts.push(format!("{{ {} }}", named.join(", ")));
                }
                value_imports.push((i.src.value.to_string(), names));
                replaced.push((lo, hi, format!("import {} from {};", parts.join(", "), serde_json::to_string(&to).unwrap())));
            }
        }
    }
    if let Some(u) = c.unsupported.first() {
        return Err(format!("{file_label}: the type blanker cannot erase this construct: {u}"));
    }
    for ((lo, hi), spec) in std::mem::take(&mut c.dynamic_imports) {
        match rewrite(&spec)? {
            Rewrite::To(to) => {
                value_imports.push((spec, vec!["default".into()]));
                replaced.push((lo, hi, serde_json::to_string(&to).unwrap()));
            }
            Rewrite::Drop => return Err(format!("{file_label}: import({spec:?}) cannot be dropped")),
        }
    }
    // apply: blanks first (same length), then replacements from the end
    let mut bytes = src.as_bytes().to_vec();
    for (lo, hi) in &c.blanks {
        if *lo > *hi || *hi > bytes.len() {
            return Err(format!("{file_label}: blank range {lo}..{hi} outside the file"));
        }
        for b in &mut bytes[*lo..*hi] {
            // a type annotation may contain line breaks where JavaScript allows none (before `=>`)
            *b = b' ';
        }
    }
    replaced.sort_by_key(|r| std::cmp::Reverse(r.0));
    for (lo, hi, text) in replaced {
        // keep the line count of the replaced statement
        let newlines = src[lo..hi].matches('\n').count();
        let mut t = text.into_bytes();
        t.extend(std::iter::repeat_n(b'\n', newlines));
        bytes.splice(lo..hi, t);
    }
    let js = String::from_utf8(bytes).map_err(|_| format!("{file_label}: blanking split a multi-byte character"))?;
    Ok(Blanked { js, value_imports })
}

// -------------------------------------------------------------------------------------------------
// The isograph-react runtime as a directory of blanked .mjs files
// -------------------------------------------------------------------------------------------------

pub const CORE_DIR: &str = "/repo/libs/isograph-react/src/core";

/// value exports the shim for `@isograph/react-disposable-state` provides
const DISPOSABLE_SHIM: &str = "// minimal stand-in for @isograph/react-disposable-state (only what core/cache.ts constructs)\nexport class ParentCache {\n  constructor(factory) { this.factory = factory; this.value = null; }\n  getOrPopulateAndTemporaryRetain() { if (this.value == null) { this.value = this.factory(); } return [null, this.value[0], () => {}]; }\n}\n";
const DISPOSABLE_SHIM_EXPORTS: &[&str] = &["ParentCache"];

/// Blank every `core/*.ts` of the runtime into `<dir>/core/*.mjs`, write the shims and an
/// `index.mjs` that re-exports the core modules (what `@isograph/react` resolves to).
/// Returns the number of runtime files written.
pub fn write_runtime(dir: &Path) -> Result<usize, String> {
    let core_out = dir.join("core");
    std::fs::create_dir_all(&core_out).map_err(|e| e.to_string())?;
    let mut names: Vec<String> = std::fs::read_dir(CORE_DIR).map_err(|e| format!("{CORE_DIR}: {e}"))?.flatten().map(|e| e.file_name().to_string_lossy().to_string()).filter(|n| n.ends_with(".ts") && !n.ends_with(".d.ts") && !n.ends_with(".test.ts")).collect();
    names.sort();
    if names.is_empty() {
        return Err(format!("no TypeScript files in {CORE_DIR}"));
    }
    let stems: BTreeSet<String> = names.iter().map(|n| n.trim_end_matches(".ts").to_string()).collect();
    for n in &names {
        let src = std::fs::read_to_string(Path::new(CORE_DIR).join(n)).map_err(|e| format!("{n}: {e}"))?;
        let label = format!("libs/isograph-react/src/core/{n}");
        let mut rw = |spec: &str| -> Result<Rewrite, String> {
            if let Some(rest) = spec.strip_prefix("./") {
                if stems.contains(rest) {
                    return Ok(Rewrite::To(format!("./{rest}.mjs")));
                }
                return Err(format!("{label}: import of {spec:?} does not resolve to a core module"));
            }
            match spec {
                "@isograph/react-disposable-state" => Ok(Rewrite::To("../shim_disposable_state.mjs".into())),
                other => Err(format!("{label}: value import from {other:?} has no shim")),
            }
        };
        let b = blank_module(&src, &label, &mut rw)?;
        for (spec, imported) in &b.value_imports {
            if spec == "@isograph/react-disposable-state" {
                for i in imported {
                    if !DISPOSABLE_SHIM_EXPORTS.contains(&i.as_str()) {
                        return Err(format!("{label}: imports {i} from {spec}, which the shim does not provide"));
                    }
                }
            }
        }
        std::fs::write(core_out.join(n.replace(".ts", ".mjs")), b.js).map_err(|e| e.to_string())?;
    }
    std::fs::write(dir.join("shim_disposable_state.mjs"), DISPOSABLE_SHIM).map_err(|e| e.to_string())?;
    let index: String = stems.iter().map(|s| format!("export * from './core/{s}.mjs';\n")).collect();
    std::fs::write(dir.join("index.mjs"), index).map_err(|e| e.to_string())?;
    Ok(names.len())
}

// -------------------------------------------------------------------------------------------------
// Generated artifacts of one compiled project as blanked .mjs files
// -------------------------------------------------------------------------------------------------

fn normalize(p: &Path) -> PathBuf {
    let mut out = PathBuf::new();
    for c in p.components() {
        match c {
            std::path::Component::ParentDir => {
                out.pop();
            }
            std::path::Component::CurDir => {}
            other => out.push(other),
        }
    }
    out
}

pub struct ArtifactModules {
    /// artifact path (relative to the artifact directory, `.ts`) -> absolute `.mjs` path written
    pub written: BTreeMap<String, PathBuf>,
    /// user modules (project source files the artifacts import resolvers from): virtual path -> exported names
    #[allow(dead_code)]
    pub user_modules: BTreeMap<String, BTreeSet<String>>,
}

/// Blank the artifacts reachable through value imports from `roots` (artifact-relative paths) into
/// `<out>/a/<path>.mjs`. Imports of `@isograph/react` go to `<runtime>/index.mjs`; imports that
/// leave the artifact directory (the user's resolver modules) go to generated shim modules
/// `<out>/user/<n>.mjs` exporting one stand-in resolver per imported name (created by
/// `globalThis.__verifResolver(module, name)`, which the driver defines).
pub fn write_artifacts(arts: &[(String, String)], roots: &[String], out: &Path, runtime: &Path) -> Result<ArtifactModules, String> {
    let by_path: BTreeMap<&str, &str> = arts.iter().map(|(p, c)| (p.as_str(), c.as_str())).collect();
    let mut written = BTreeMap::new();
    let mut user_modules: BTreeMap<String, BTreeSet<String>> = BTreeMap::new();
    let mut user_ids: BTreeMap<String, usize> = BTreeMap::new();
    let mut queue: Vec<String> = roots.to_vec();
    let runtime_index = format!("file://{}", runtime.join("index.mjs").display());
    while let Some(path) = queue.pop() {
        if written.contains_key(&path) {
            continue;
        }
        let Some(src) = by_path.get(path.as_str()) else { return Err(format!("artifact {path} is imported but was not generated")) };
        let here = Path::new("/A").join(&path);
        let here_dir = here.parent().unwrap().to_path_buf();
        let depth = path.matches('/').count();
        let mut found: Vec<String> = vec![];
        let mut user_specs: BTreeMap<String, String> = BTreeMap::new();
        let mut rw = |spec: &str| -> Result<Rewrite, String> {
            if spec.starts_with('.') {
                let target = normalize(&here_dir.join(spec));
                if let Ok(rel) = target.strip_prefix("/A") {
                    let rel = rel.to_string_lossy().to_string();
                    let cand = [format!("{rel}.ts"), rel.clone(), format!("{rel}.tsx")];
                    let Some(hit) = cand.iter().find(|c| by_path.contains_key(c.as_str())) else { return Err(format!("{path}: import {spec:?} resolves to no artifact")) };
                    found.push(hit.clone());
                    let stem = hit.trim_end_matches(".ts");
                    let up = "../".repeat(depth);
                    return Ok(Rewrite::To(format!("./{up}{stem}.mjs")));
                }
                // outside the artifact directory: a project source file
                let key = target.to_string_lossy().to_string();
                let n = user_ids.len();
                let id = *user_ids.entry(key.clone()).or_insert(n);
                user_specs.insert(spec.to_string(), key);
                let up = "../".repeat(depth + 1);
                return Ok(Rewrite::To(format!("./{up}user/u{id}.mjs")));
            }
            match spec {
                "@isograph/react" => Ok(Rewrite::To(runtime_index.clone())),
                other => Err(format!("{path}: value import from {other:?} has no shim")),
            }
        };
        let b = blank_module(src, &path, &mut rw)?;
        for (spec, names) in &b.value_imports {
            if let Some(key) = user_specs.get(spec) {
                user_modules.entry(key.clone()).or_default().extend(names.iter().cloned());
            }
        }
        let file = out.join("a").join(format!("{}.mjs", path.trim_end_matches(".ts")));
        std::fs::create_dir_all(file.parent().unwrap()).map_err(|e| e.to_string())?;
        std::fs::write(&file, b.js).map_err(|e| e.to_string())?;
        written.insert(path.clone(), file);
        queue.extend(found);
    }
    std::fs::create_dir_all(out.join("user")).map_err(|e| e.to_string())?;
    for (key, id) in &user_ids {
        let mut text = format!("// stand-in for the project source file {key}\n");
        for name in user_modules.get(key).into_iter().flatten() {
            if name == "default" {
                text.push_str(&format!("export default globalThis.__verifResolver({}, 'default');\n", serde_json::to_string(key).unwrap()));
            } else if name != "*" {
                text.push_str(&format!("export const {name} = globalThis.__verifResolver({}, {});\n", serde_json::to_string(key).unwrap(), serde_json::to_string(name).unwrap()));
            }
        }
        std::fs::write(out.join("user").join(format!("u{id}.mjs")), text).map_err(|e| e.to_string())?;
    }
    Ok(ArtifactModules { written, user_modules })
}

/// Run `node <script> <args..>`; stdout on success, stderr (tail) as the error otherwise.
pub fn run_node(script: &Path, args: &[String], timeout: std::time::Duration) -> Result<String, String> {
    use std::io::Read;
    let mut child = std::process::Command::new("node")
        .arg("--stack-size=4000")
        .arg(script)
        .args(args)
        .stdin(std::process::Stdio::null())
        .stdout(std::process::Stdio::piped())
        .stderr(std::process::Stdio::piped())
        .spawn()
        .map_err(|e| format!("cannot run node: {e}"))?;
    let mut so = child.stdout.take().unwrap();
    let mut se = child.stderr.take().unwrap();
    let t1 = std::thread::spawn(move || {
        let mut s = String::new();
        let _ = so.read_to_string(&mut s);
        s
    });
    let t2 = std::thread::spawn(move || {
        let mut s = String::new();
        let _ = se.read_to_string(&mut s);
        s
    });
    let start = std::time::Instant::now();
    let status = loop {
        match child.try_wait() {
            Ok(Some(st)) => break st,
            Ok(None) => {
                if start.elapsed() > timeout {
                    let _ = child.kill();
                    return Err(format!("node timed out after {:?}", timeout));
                }
                std::thread::sleep(std::time::Duration::from_millis(5));
            }
            Err(e) => return Err(format!("wait for node failed: {e}")),
        }
    };
    let out = t1.join().unwrap_or_default();
    let err = t2.join().unwrap_or_default();
    if !status.success() {
        let tail: Vec<&str> = err.lines().take(30).collect();
        return Err(format!("node exited with {status}: {}", tail.join("\n")));
    }
    Ok(out)
}

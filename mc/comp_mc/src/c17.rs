//! C17 — a failed compile leaves the artifact directory untouched.
//!
//! For every accepted program P of the families and every invalid program Q derived from it
//! (parse error, undefined field, undefined entrypoint, duplicate selection, missing/ill-formed
//! schema): compile P, snapshot the artifact directory (paths, bytes, mtimes), then compile Q
//! (a) as a fresh batch compile and (b) as a watch-mode recompile in the same compiler state;
//! both must report errors and the snapshot must be unchanged.
use crate::driver::{self, Compiled};
use crate::progx::Menu;
use crate::project::Project;
use crate::sweep::{self, Ctx, Family, ShardStats};
use isograph_compiler::update_sources;
use isograph_compiler::watch::{ChangedFileKind, SourceEventKind};
use mc_core::*;
use serde_json::json;
use std::path::Path;
use std::time::SystemTime;

fn snapshot(dir: &Path) -> Vec<(String, Vec<u8>, Option<SystemTime>)> {
    fn walk(base: &Path, d: &Path, out: &mut Vec<(String, Vec<u8>, Option<SystemTime>)>) {
        let Ok(rd) = std::fs::read_dir(d) else { return };
        for e in rd.flatten() {
            let p = e.path();
            if p.is_dir() {
                out.push((format!("{}/", p.strip_prefix(base).unwrap().display()), vec![], None));
                walk(base, &p, out);
            } else {
                out.push((p.strip_prefix(base).unwrap().to_string_lossy().to_string(), std::fs::read(&p).unwrap_or_default(), e.metadata().ok().and_then(|m| m.modified().ok())));
            }
        }
    }
    let mut out = vec![];
    walk(dir, dir, &mut out);
    out.sort();
    out
}

/// invalid variants of a valid project: (kind, project)
fn invalid_variants(p: &Project) -> Vec<(&'static str, Project)> {
    let mut out = vec![];
    let src = &p.files[0].1;
    let mut q = p.clone();
    q.files[0].1 = src.replacen("{\n", "{\n  (\n", 1);
    out.push(("parse-error", q));
    let mut q = p.clone();
    q.files[0].1 = src.replacen("{\n", "{\n  doesNotExist\n", 1);
    out.push(("undefined-field", q));
    let mut q = p.clone();
    q.files[0].1 = format!("{src}\nconst e2 = iso(`entrypoint Query.Missing`);\n");
    out.push(("undefined-entrypoint", q));
    let mut q = p.clone();
    q.files[0].1 = src.replacen("{\n", "{\n  count\n  count\n", 1);
    out.push(("duplicate-selection", q));
    let mut q = p.clone();
    q.schema = "type Query {".to_string();
    out.push(("schema-syntax-error", q));
    let mut q = p.clone();
    q.files.push(("bad.ts".to_string(), "export const X = iso(`field Nope.X { id }`)(x => x);\n".to_string()));
    out.push(("undefined-parent-type-in-new-file", q));
    // one error class per variant: a diagnostic produced by a different phase may be the only one
    // present, and the property quantifies over any error diagnostic
    let mut q = p.clone();
    q.files[0].1 = format!("{src}\nexport const Dup = iso(`field Query.Root {{ count, }}`)(x => x);\n");
    out.push(("duplicate-definition-same-file", q));
    let mut q = p.clone();
    q.files.push(("dup.ts".to_string(), "import { iso } from '@iso';\nexport const Dup = iso(`field Query.Root { count, }`)(x => x);\n".to_string()));
    out.push(("duplicate-definition-new-file", q));
    let mut q = p.clone();
    q.files.push(("dupp.ts".to_string(), "import { iso } from '@iso';\nexport const A = iso(`pointer Query.Ptr to User { me { __link, }, }`)(x => x);\nexport const B = iso(`pointer Query.Ptr to User { me { __link, }, }`)(x => x);\n".to_string()));
    out.push(("duplicate-pointer-definition", q));
    let mut q = p.clone();
    q.files[0].1 = src.replacen("{\n", "{\n  count @nope\n", 1);
    out.push(("unknown-selection-directive", q));
    let mut q = p.clone();
    q.files[0].1 = src.replacen("{\n", "{\n  count @loadable\n", 1);
    out.push(("loadable-on-server-scalar", q));
    let mut q = p.clone();
    q.files[0].1 = src.replacen("{\n", "{\n  count {\n    id\n  }\n", 1);
    out.push(("scalar-selected-as-object", q));
    let mut q = p.clone();
    q.files[0].1 = src.replacen("{\n", "{\n  me\n", 1);
    out.push(("object-selected-as-scalar", q));
    let mut q = p.clone();
    q.files[0].1 = src.replacen("{\n", "{\n  user {\n    id\n  }\n", 1);
    out.push(("missing-required-argument", q));
    let mut q = p.clone();
    q.files[0].1 = src.replacen("{\n", "{\n  user(id: $undefinedVar) {\n    id\n  }\n", 1);
    out.push(("undefined-variable", q));
    let mut q = p.clone();
    q.files[0].1 = src.replacen("{\n", "{\n  user(id: 1, nope: 2) {\n    id\n  }\n", 1);
    out.push(("unknown-argument", q));
    let mut q = p.clone();
    q.files.push(("nf.ts".to_string(), "import { iso } from '@iso';\nexport const Z = iso(`field User.Zed { id, }`)(x => x);\nconst e = iso(`entrypoint User.Zed`);\n".to_string()));
    out.push(("entrypoint-on-non-root-type", q));
    let mut q = p.clone();
    q.files.push(("vt.ts".to_string(), "import { iso } from '@iso';\nexport const V = iso(`field Query.VarTy($v: Nope) { user(id: $v) { id, }, }`)(x => x);\n".to_string()));
    out.push(("unknown-variable-type", q));
    let mut q = p.clone();
    q.schema = format!("{}\ntype Extra {{ f: NopeType }}\n", p.schema);
    out.push(("schema-undefined-type", q));
    let mut q = p.clone();
    q.files.push(("ptr.ts".to_string(), "import { iso } from '@iso';\nexport const P = iso(`pointer Query.Bad to Nope { me { __link, }, }`)(x => x);\n".to_string()));
    out.push(("pointer-to-undefined-type", q));
    out
}

fn oracle(ctx: &Ctx<'_>, stats: &mut ShardStats) -> Vec<(String, String)> {
    let Compiled::Ok(_) = ctx.result else { return vec![] };
    let mut fails = vec![];
    let p = ctx.program.project();
    let art_dir = ctx.dir.join("src/__isograph");
    for (kind, q) in invalid_variants(&p) {
        // (a) fresh batch compile of Q on top of P's artifacts
        p.write_to(ctx.dir);
        if !matches!(driver::compile_dir(ctx.dir), Compiled::Ok(_)) {
            return vec![("machinery".into(), "base program no longer compiles".into())];
        }
        let before = snapshot(&art_dir);
        write_sources_only(&q, ctx.dir);
        *stats.extra.entry("pairs".into()).or_default() += 1;
        match driver::compile_dir(ctx.dir) {
            Compiled::Ok(_) => fails.push((format!("invalid-accepted:{kind}"), format!("the {kind} variant compiles without error"))),
            Compiled::Panic(m) => fails.push((format!("panic:{kind}"), m)),
            Compiled::Diagnostics(_) => {
                let after = snapshot(&art_dir);
                if after != before {
                    fails.push((format!("directory-changed:batch:{kind}"), format!("a failed batch compile ({kind}) changed the artifact directory: {}", diff(&before, &after))));
                }
            }
        }
        // (b) watch-mode recompile in the same compiler state
        p.write_to(ctx.dir);
        let mut state = match driver::new_state(ctx.dir) {
            Ok(s) => s,
            Err(e) => return vec![("machinery".into(), e)],
        };
        if driver::compile_state(&mut state).is_err() {
            return vec![("machinery".into(), "base program no longer compiles in watch state".into())];
        }
        let before = snapshot(&art_dir);
        write_sources_only(&q, ctx.dir);
        let mut events = vec![];
        for (f, _) in &q.files {
            events.push((SourceEventKind::CreateOrModify(ctx.dir.join("src").join(f)), ChangedFileKind::JavaScriptSourceFile));
        }
        if q.schema != p.schema {
            events.push((SourceEventKind::CreateOrModify(ctx.dir.join("schema.graphql")), ChangedFileKind::Schema));
        }
        let upd = std::panic::catch_unwind(std::panic::AssertUnwindSafe(|| update_sources(&mut state.db, &events)));
        *stats.extra.entry("pairs".into()).or_default() += 1;
        match upd {
            Err(p) => fails.push((format!("panic:watch:{kind}"), panic_message(&*p))),
            Ok(Err(_)) => {
                // the sources could not even be read: nothing is compiled, directory must be intact
                if snapshot(&art_dir) != before {
                    fails.push((format!("directory-changed:watch:{kind}"), "update_sources failed and the artifact directory changed".into()));
                }
            }
            Ok(Ok(())) => match std::panic::catch_unwind(std::panic::AssertUnwindSafe(|| driver::compile_state(&mut state))) {
                Err(p) => fails.push((format!("panic:watch:{kind}"), panic_message(&*p))),
                Ok(Ok(_)) => fails.push((format!("invalid-accepted:watch:{kind}"), format!("the {kind} variant recompiles without error in watch mode"))),
                Ok(Err(_)) => {
                    let after = snapshot(&art_dir);
                    if after != before {
                        fails.push((format!("directory-changed:watch:{kind}"), format!("a failed watch-mode recompile ({kind}) changed the artifact directory: {}", diff(&before, &after))));
                    }
                }
            },
        }
        if fails.len() > 2 {
            break;
        }
    }
    fails
}

fn write_sources_only(q: &Project, dir: &Path) {
    std::fs::write(dir.join("schema.graphql"), &q.schema).unwrap();
    for (f, c) in &q.files {
        let p = dir.join("src").join(f);
        std::fs::create_dir_all(p.parent().unwrap()).unwrap();
        std::fs::write(p, c).unwrap();
    }
}

fn diff(a: &[(String, Vec<u8>, Option<SystemTime>)], b: &[(String, Vec<u8>, Option<SystemTime>)]) -> String {
    let pa: std::collections::BTreeMap<_, _> = a.iter().map(|x| (&x.0, (&x.1, &x.2))).collect();
    let pb: std::collections::BTreeMap<_, _> = b.iter().map(|x| (&x.0, (&x.1, &x.2))).collect();
    let mut out = vec![];
    for k in pa.keys().chain(pb.keys()).collect::<std::collections::BTreeSet<_>>() {
        match (pa.get(k), pb.get(k)) {
            (Some(_), None) => out.push(format!("deleted {k}")),
            (None, Some(_)) => out.push(format!("created {k}")),
            (Some(x), Some(y)) if x.0 != y.0 => out.push(format!("modified {k}")),
            (Some(x), Some(y)) if x.1 != y.1 => out.push(format!("rewritten (mtime) {k}")),
            _ => {}
        }
    }
    out.truncate(5);
    out.join(", ")
}

pub fn main(args: &Args) -> i32 {
    if let Some(sh) = &args.worker {
        sweep::worker(sh, oracle);
        return 0;
    }
    if args.replay.is_some() {
        return sweep::replay(args);
    }
    let mut ev = Evidence::new(args, "exploration");
    let families = vec![Family { menu: Menu::General, k: args.tier.pick(3, 5) }, Family { menu: Menu::Abstract, k: args.tier.pick(2, 5) }];
    let res = sweep::run(args, families);
    let mut verdict = Verdict::new("C17");
    for v in res.violations {
        if v.signature == "machinery" {
            machinery_error(&v.what);
        }
        verdict.add(v);
    }
    verdict.violations.sort_by_key(|v| v.what.len());
    let (code, n_new, known) = verdict.conclude("comp_mc/c17");
    ev.violations = n_new as i64;
    let pairs = res.stats.extra.get("pairs").copied().unwrap_or(0);
    ev.set("evaluations", pairs)
        .set("distinct_nontrivial", pairs)
        .set("rule", "every accepted program P of the stated families x the single-error invalid variants Q listed under variant_kinds (one error class each, so that a diagnostic produced by a later phase is the only one present) x {fresh batch compile, watch-mode recompile in the same compiler state}; artifact directory snapshot (paths, bytes, mtimes, directories) must be identical after the failed compile")
        .set("base_programs", res.stats.accepted)
        .set("variant_kinds", json!(invalid_variants(&crate::project::Project { files: vec![(String::new(), String::new())], ..Default::default() }).iter().map(|(k, _)| *k).collect::<Vec<_>>()))
        .set("families", json!(res.families.iter().map(|(f, n)| json!({"menu": format!("{:?}", f.menu), "k": f.k, "programs": n})).collect::<Vec<_>>()))
        .set("samples", json!(res.stats.samples))
        .set("known_findings_reobserved", json!(known))
        .set("exhaustive", true);
    ev.write();
    if pairs < 100 {
        machinery_error("vacuous: fewer than 100 (P,Q) pairs");
    }
    println!("comp_mc C17: {} base programs, {} (P, Q, mode) cases, {} new violation signature(s), known {:?}", res.stats.accepted, pairs, n_new, known);
    code
}

//! C10 — readers only read data that the entrypoint fetches and normalizes.
//!
//! For every accepted program of the progx families and every entrypoint artifact it produces (the
//! declared entrypoints, and the entrypoints the compiler generates for `@loadable` fields, which are
//! read from the record their `node(id:)` root field returns): the operation text is parsed, conforming
//! responses are enumerated from the universe schema (resp.rs: base world + every set of <= d
//! deviations: null where nullable, list lengths 0/1/2, null element, the same entity twice, every
//! other concrete type, the other scalar value, two positions sharing one entity: up to 3 other entities of the same concrete type per field), each nullable
//! variable omitted in turn. The REAL TypeScript runtime (libs/isograph-react/src/core/*.ts, type-blanked
//! by tsrun.rs) and the program's REAL generated artifacts (type-blanked too) run under node: a fresh
//! environment, `writeData` (= `normalizeData` with the entrypoint's normalization AST), then
//! `readButDoNotEvaluate` on the entrypoint's fragment and on the fragment of every `@component` client
//! field the read hands to `componentFunction` (what rendering does), transitively. Eager client fields,
//! client pointers and their argument / variable substitution are followed by the runtime itself;
//! loadable and imperatively loaded fields are not fetched (their loaders are not called).
//! Violation: a read ends in `MissingData` (readButDoNotEvaluate suspends) or throws, or normalization throws.
use crate::driver::{self, Compiled};
use crate::gql::Schema;
use crate::progx::{Menu, SCHEMA};
use crate::resp;
use crate::sweep::{self, Ctx, Family, ShardStats};
use crate::tsrun;
use crate::tsx;
use mc_core::*;
use serde_json::{Map, Value as J, json};
use std::cell::RefCell;
use std::collections::{BTreeMap, BTreeSet};
use std::path::{Path, PathBuf};
use std::time::Duration;

pub const DRIVER_JS: &str = include_str!("rt_driver.mjs");

/// `pointer T.name(...) to <type>` declarations found in iso literals: field name -> target is a list
pub fn pointer_plurality(sources: &[String]) -> BTreeMap<String, bool> {
    let mut out = BTreeMap::new();
    for s in sources {
        let b = s.as_bytes();
        let mut i = 0;
        while let Some(p) = s[i..].find("pointer") {
            let at = i + p;
            i = at + 7;
            if at > 0 && (b[at - 1].is_ascii_alphanumeric() || b[at - 1] == b'_') {
                continue;
            }
            let rest = &s[i..];
            let t = rest.trim_start();
            if t.len() == rest.len() {
                continue;
            }
            // T.name
            let head: String = t.chars().take_while(|c| c.is_ascii_alphanumeric() || *c == '_' || *c == '.' || c.is_whitespace()).collect();
            let Some((_, name_part)) = head.split_once('.') else { continue };
            let name: String = name_part.trim_start().chars().take_while(|c| c.is_ascii_alphanumeric() || *c == '_').collect();
            if name.is_empty() {
                continue;
            }
            // skip an optional (...) group, then `to`
            let after = &t[t.find(&name).unwrap() + name.len()..];
            let after = after.trim_start();
            let after = if after.starts_with('(') { after.find(')').map(|e| &after[e + 1..]).unwrap_or(after) } else { after };
            let after = after.trim_start();
            let Some(ty) = after.strip_prefix("to") else { continue };
            let ty = ty.trim_start();
            out.insert(name, ty.starts_with('['));
        }
    }
    out
}

/// One entrypoint artifact prepared for node.
pub struct Prepared {
    pub entrypoint: String,
    pub file: PathBuf,
    pub text: String,
    pub op: resp::Operation,
    /// response path of the record a loadable field's entrypoint is read from
    pub root: Option<Vec<String>>,
}

pub fn query_text_of(arts: &[(String, String)], entrypoint: &str) -> Result<String, String> {
    let qt = entrypoint.replace("/entrypoint.ts", "/query_text.ts");
    let Some((_, src)) = arts.iter().find(|(p, _)| *p == qt) else { return Err(format!("{entrypoint} has no companion query_text.ts")) };
    match tsx::load(src).map_err(|e| format!("{qt}: {e}"))?.default_export {
        Some(tsx::Val::Str(s)) => Ok(s),
        other => Err(format!("{qt}: default export is not a string: {other:?}")),
    }
}

/// Blank the artifacts of one compiled project into `out` and describe its entrypoints.
pub fn prepare(arts: &[(String, String)], out: &Path, runtime: &Path, root_types: &[&str], skipped: &mut Vec<String>) -> Result<Vec<Prepared>, String> {
    let entrypoints: Vec<String> = arts.iter().map(|(p, _)| p.clone()).filter(|p| p.ends_with("/entrypoint.ts")).collect();
    if entrypoints.is_empty() {
        return Ok(vec![]);
    }
    let modules = tsrun::write_artifacts(arts, &entrypoints, out, runtime)?;
    let mut res = vec![];
    for e in entrypoints {
        let text = query_text_of(arts, &e)?;
        let op = match resp::parse_operation(&text) {
            Ok(op) => op,
            Err(_) => {
                // not GraphQL (C09's finding, e.g. the alias `l_-1`): no server can answer it, nothing to read
                skipped.push(e.clone());
                continue;
            }
        };
        let type_dir = e.split('/').next().unwrap_or("").to_string();
        let root = if root_types.contains(&type_dir.as_str()) {
            None
        } else {
            // generated for a loadable field on a non-root type: `query F($id: ID!) { node(id: $id) { ... on T { ... } } }`
            match op.op().selections.items.as_slice() {
                [graphql_syntax::Selection::LinkedField(f)] => Some(vec![f.alias.as_ref().map(|a| a.alias.value.to_string()).unwrap_or(f.name.value.to_string())]),
                _ => return Err(format!("{e}: entrypoint on {type_dir} whose operation is not a single root field")),
            }
        };
        res.push(Prepared { file: modules.written[&e].clone(), entrypoint: e, text, op, root });
    }
    Ok(res)
}

/// Write the runtime, the driver and a job; run node; return the parsed output.
pub fn run_job(dir: &Path, runtime: &Path, job: &J, timeout: Duration) -> Result<J, String> {
    let driver = dir.join("rt_driver.mjs");
    std::fs::write(&driver, DRIVER_JS).map_err(|e| e.to_string())?;
    let job_file = dir.join("job.json");
    let out_file = dir.join("out.json");
    let mut job = job.clone();
    job["runtime"] = json!(runtime.display().to_string());
    std::fs::write(&job_file, serde_json::to_string(&job).unwrap()).map_err(|e| e.to_string())?;
    let _ = std::fs::remove_file(&out_file);
    tsrun::run_node(&driver, &[job_file.display().to_string(), out_file.display().to_string()], timeout)?;
    let s = std::fs::read_to_string(&out_file).map_err(|e| format!("node wrote no output: {e}"))?;
    serde_json::from_str(&s).map_err(|e| format!("node output does not parse: {e}"))
}

struct Case {
    index: usize,
    entrypoint: String,
    file: PathBuf,
    root: Option<Vec<String>>,
    variables: Map<String, J>,
    responses: Vec<resp::Response>,
    case_head: J,
}

struct Shard {
    scratch: Scratch,
    runtime: PathBuf,
    cases: Vec<Case>,
    pointers: BTreeMap<String, bool>,
    pending_responses: usize,
}

thread_local! {
    static SHARD: RefCell<Option<Shard>> = const { RefCell::new(None) };
    static SCHEMA_MODEL: Schema = Schema::parse(SCHEMA).unwrap_or_else(|e| machinery_error(&format!("universe schema does not parse: {e}")));
}

fn with_shard<R>(f: impl FnOnce(&mut Shard) -> R) -> R {
    SHARD.with(|s| {
        let mut s = s.borrow_mut();
        if s.is_none() {
            let scratch = Scratch::new("c10");
            // the parent blanks the runtime once for all shards; a lone worker (replay of a shard) does it itself
            let runtime = match std::env::var("VERIF_TSRUN_RUNTIME") {
                Ok(p) if Path::new(&p).join("index.mjs").is_file() => PathBuf::from(p),
                _ => {
                    let r = scratch.path().join("rt");
                    tsrun::write_runtime(&r).unwrap_or_else(|e| machinery_error(&e));
                    r
                }
            };
            *s = Some(Shard { scratch, runtime, cases: vec![], pointers: BTreeMap::new(), pending_responses: 0 });
        }
        f(s.as_mut().unwrap())
    })
}

thread_local! {
    static TIER: std::cell::Cell<Tier> = const { std::cell::Cell::new(Tier::Quick) };
}

fn tier_of() -> Tier {
    TIER.with(|t| t.get())
}

/// deviation budget and response cap per (entrypoint, variable assignment)
fn bounds(tier: Tier) -> (usize, usize) {
    (tier.pick(2, 3), tier.pick(120, 1500))
}


fn oracle(ctx: &Ctx<'_>, stats: &mut ShardStats) -> Vec<(String, String)> {
    let Compiled::Ok(arts) = ctx.result else { return vec![] };
    let tier = tier_of();
    let (max_dev, cap) = bounds(tier);
    let lits: Vec<String> = ctx.program.literals().iter().map(|l| l.1.clone()).collect();
    let fails = vec![];
    with_shard(|sh| {
        let out = sh.scratch.path().join(format!("p{}", ctx.index));
        let mut skipped = vec![];
        let prepared = match prepare(&arts, &out, &sh.runtime, &["Query", "Mutation", "Subscription"], &mut skipped) {
            Ok(p) => p,
            Err(e) => machinery_error(&format!("program #{}: {e}", ctx.index)),
        };
        *stats.extra.entry("entrypoints_skipped_operation_not_graphql".into()).or_default() += skipped.len() as u64;
        for (k, v) in pointer_plurality(&lits) {
            if sh.pointers.insert(k.clone(), v).is_some_and(|old| old != v) {
                machinery_error(&format!("two client pointers named {k} with different plurality in one shard"));
            }
        }
        for p in prepared {
            *stats.extra.entry("entrypoints".into()).or_default() += 1;
            if p.root.is_some() {
                *stats.extra.entry("loadable_entrypoints".into()).or_default() += 1;
            }
            SCHEMA_MODEL.with(|schema| {
                for vars in resp::variable_assignments(schema, &p.op) {
                    // the largest deviation budget <= max_dev whose worlds fit under the cap is explored completely
                    let mut d = max_dev;
                    let (responses, capped) = loop {
                        match resp::enumerate(schema, &p.op, &vars, d, cap) {
                            Ok((_, true)) if d > 1 => d -= 1,
                            Ok(r) => break r,
                            Err(e) => machinery_error(&format!("program #{} {}: cannot answer the operation: {e}", ctx.index, p.entrypoint)),
                        }
                    };
                    *stats.extra.entry(format!("explored_with_{d}_deviations")).or_default() += 1;
                    if capped {
                        *stats.extra.entry("capped".into()).or_default() += 1;
                    }
                    sh.pending_responses += responses.len();
                    sh.cases.push(Case {
                        index: ctx.index,
                        entrypoint: p.entrypoint.clone(),
                        file: p.file.clone(),
                        root: p.root.clone(),
                        variables: vars,
                        responses,
                        case_head: json!({"family": null, "index": ctx.index, "literals": lits}),
                    });
                }
            });
        }
    });
    let flush_now = with_shard(|sh| sh.pending_responses > 40_000);
    if flush_now {
        flush(stats);
    }
    fails
}

/// classes of the innermost reason the runtime gives
fn reason_class(reasons: &[String]) -> &'static str {
    let last = reasons.last().map(|s| s.as_str()).unwrap_or("");
    if (last.starts_with("No value for") || last.starts_with("No link for")) && last.split(" on root ").next().unwrap_or("").contains(":\"null\"") {
        // the reader looks under a store key in which an unset variable inside an object argument became the string "null"
        "store-key-of-unset-variable-inside-object-argument"
    } else if last.starts_with("No value for") {
        "no-value-for-scalar"
    } else if last.starts_with("No link for") {
        "no-link-for-linked-field"
    } else if last.starts_with("No record for root") {
        "no-record"
    } else {
        "other"
    }
}

/// error messages with the variable parts (quoted names, keys) removed
fn message_class(m: &str) -> String {
    let m: String = m.chars().take_while(|c| *c != ':' && *c != '.' && *c != '\'' && *c != '"').collect();
    m.trim().to_lowercase().replace(' ', "-")
}

fn dev_classes(world: &resp::World) -> String {
    let mut c: Vec<&str> = world.values().map(|d| d.class()).collect();
    c.sort();
    c.dedup();
    if c.is_empty() { "default-response".into() } else { c.join("+") }
}

/// one node run for everything collected so far
fn flush(stats: &mut ShardStats) {
    let taken = with_shard(|sh| {
        sh.pending_responses = 0;
        (std::mem::take(&mut sh.cases), sh.pointers.clone(), sh.scratch.path().to_path_buf(), sh.runtime.clone())
    });
    let (cases, pointers, dir, runtime) = taken;
    if cases.is_empty() {
        return;
    }
    let job = json!({
        "mode": "read",
        "maxDepth": 0,
        "pointers": pointers.iter().map(|(k, v)| (k.clone(), json!({"list": v}))).collect::<Map<String, J>>(),
        "cases": cases.iter().enumerate().map(|(i, c)| json!({
            "id": i,
            "entrypoint": c.file.display().to_string(),
            "variables": c.variables,
            "root": c.root,
            "responses": c.responses.iter().map(|r| r.data.clone()).collect::<Vec<_>>(),
        })).collect::<Vec<_>>(),
    });
    let out = run_job(&dir, &runtime, &job, Duration::from_secs(3600)).unwrap_or_else(|e| machinery_error(&format!("node run failed: {e}")));
    let results = out["results"].as_array().cloned().unwrap_or_default();
    if results.len() != cases.len() {
        machinery_error("node returned a different number of cases");
    }
    for (k, v) in out["counts"].as_object().into_iter().flatten() {
        *stats.extra.entry(format!("js_{k}")).or_default() += v.as_u64().unwrap_or(0);
    }
    let mut sampled = !stats.samples.is_empty() && stats.samples[0].get("response").is_some();
    for (c, r) in cases.iter().zip(&results) {
        if let Some(e) = r.get("error").and_then(|e| e.as_str()) {
            machinery_error(&format!("program #{} {}: driver error: {e}", c.index, c.entrypoint));
        }
        let rs = r["results"].as_array().cloned().unwrap_or_default();
        if rs.len() != c.responses.len() {
            machinery_error("node returned a different number of responses");
        }
        // responses come simplest first (the base world first): when the base response already fails the
        // cause is not in the response, and the other responses of this entrypoint are not reported again
        let mut reported: BTreeSet<String> = BTreeSet::new();
        let mut base_failed: BTreeSet<String> = BTreeSet::new();
        let mut minimal: Vec<(String, resp::World)> = vec![];
        for (resp, o) in c.responses.iter().zip(&rs) {
            let outcome = o["o"].as_str().unwrap_or("?");
            if outcome == "skip" {
                *stats.extra.entry("skipped_no_root_record".into()).or_default() += 1;
                continue;
            }
            *stats.extra.entry("responses_read".into()).or_default() += 1;
            *stats.extra.entry("fragments_read".into()).or_default() += o["reads"].as_u64().unwrap_or(0);
            if !resp.world.is_empty() {
                *stats.extra.entry("deviating_responses".into()).or_default() += 1;
            }
            let (class, what) = match outcome {
                "ok" => {
                    stats.outcomes.insert(sweep::fnv(&format!("ok {}", o["h"])));
                    if !sampled && resp.world.len() >= 2 {
                        sampled = true;
                        stats.samples.insert(0, json!({"program": c.case_head["literals"], "entrypoint": c.entrypoint, "variables": c.variables, "deviations": resp.world.iter().map(|(k, d)| format!("{k}: {d:?}")).collect::<Vec<_>>(), "response": resp.data, "fragments_read": o["reads"], "outcome": "every read found its data"}));
                    }
                    continue;
                }
                "missing" => {
                    let reasons: Vec<String> = o["reasons"].as_array().map(|a| a.iter().filter_map(|x| x.as_str().map(String::from)).collect()).unwrap_or_default();
                    (format!("missing-data:{}", reason_class(&reasons)), format!("{}: reading fragment {} reports missing data: {}", c.entrypoint, o["fragment"], reasons.join(" <- ")))
                }
                "read-throws" => (format!("read-throws:{}", message_class(o["m"].as_str().unwrap_or(""))), format!("{}: reading fragment {} throws: {}", c.entrypoint, o["fragment"], o["m"])),
                "normalize-throws" => (format!("normalize-throws:{}", message_class(o["m"].as_str().unwrap_or(""))), format!("{}: normalizing a conforming response throws: {}", c.entrypoint, o["m"])),
                other => machinery_error(&format!("unknown outcome {other}")),
            };
            *stats.extra.entry("responses_failed".into()).or_default() += 1;
            if base_failed.contains(&class) {
                continue;
            }
            // a world that contains the deviations of a smaller failing world fails for the same reason
            if minimal.iter().any(|(c0, w0): &(String, resp::World)| *c0 == class && w0.iter().all(|(k, d)| resp.world.get(k) == Some(d))) {
                continue;
            }
            minimal.push((class.clone(), resp.world.clone()));
            let sig = if resp.world.is_empty() {
                base_failed.insert(class.clone());
                format!("{class}:every-response")
            } else {
                format!("{class}:{}", dev_classes(&resp.world))
            };
            stats.outcomes.insert(sweep::fnv(&sig));
            if !reported.insert(sig.clone()) {
                continue;
            }
            if stats.failures.len() < 200 {
                let mut case = c.case_head.clone();
                case["entrypoint"] = json!(c.entrypoint);
                case["variables"] = J::Object(c.variables.clone());
                case["response"] = resp.data.clone();
                case["deviations"] = json!(resp.world.iter().map(|(k, d)| json!({"at": k, "deviation": format!("{d:?}")})).collect::<Vec<_>>());
                stats.failures.push((c.index, sig, what, case));
            }
        }
    }
    // the blanked artifacts of the programs just read are no longer needed
    if let Ok(rd) = std::fs::read_dir(&dir) {
        for e in rd.flatten() {
            if e.file_name().to_string_lossy().starts_with('p') && e.path().is_dir() {
                let _ = std::fs::remove_dir_all(e.path());
            }
        }
    }
}

fn finish(stats: &mut ShardStats) {
    flush(stats);
    SHARD.with(|s| *s.borrow_mut() = None);
}

/// shard failures carry `family: null` (the oracle does not know the family): filled in here
fn fix_family(stats: &mut ShardStats, shard: &str) {
    let sh: sweep::Shard = serde_json::from_str(shard).unwrap_or_else(|e| machinery_error(&format!("bad shard {e}")));
    for f in &mut stats.failures {
        if f.3.get("family").is_some_and(|x| x.is_null()) {
            f.3["family"] = serde_json::to_value(&sh.family).unwrap();
        }
    }
}

thread_local! {
    static SHARD_TEXT: RefCell<String> = const { RefCell::new(String::new()) };
}

fn finish_with_family(stats: &mut ShardStats) {
    finish(stats);
    let shard = SHARD_TEXT.with(|s| s.borrow().clone());
    fix_family(stats, &shard);
}

pub fn families(tier: Tier) -> Vec<Family> {
    vec![
        Family { menu: Menu::General, k: tier.pick(3, 4) },
        Family { menu: Menu::Abstract, k: tier.pick(3, 4) },
        Family { menu: Menu::Args, k: tier.pick(2, 3) },
        Family { menu: Menu::ClientArgs, k: tier.pick(3, 4) },
        Family { menu: Menu::Pointers, k: tier.pick(2, 3) },
        Family { menu: Menu::Overlap, k: tier.pick(2, 3) },
        Family { menu: Menu::Cycles, k: tier.pick(1, 2) },
        Family { menu: Menu::Decls, k: 1 },
        Family { menu: Menu::Reuse, k: tier.pick(2, 3) },
    ]
}

/// Replay one recorded (program, entrypoint, variables, response): compile, blank, normalize + read, twice.
fn replay(args: &Args) -> i32 {
    let path = args.replay.as_ref().unwrap();
    let v = read_replay(path);
    let case = &v["case"];
    if case.get("entrypoint").is_none() {
        // a crash of the compiler process: replayed by the generic sweep replay
        return sweep::replay(args);
    }
    let family: Family = serde_json::from_value(case["family"].clone()).unwrap_or_else(|e| machinery_error(&format!("bad replay {e}")));
    let index = case["index"].as_u64().unwrap_or(0) as usize;
    let progs = sweep::family_programs(&family);
    let Some(p) = progs.get(index) else { machinery_error("replay: program index out of range") };
    let scratch = Scratch::new("c10-replay");
    let dir = scratch.path().join("p");
    p.project().write_to(&dir);
    let Compiled::Ok(arts) = driver::compile_dir(&dir) else {
        println!("REPLAY: the program no longer compiles");
        return 0;
    };
    let runtime = scratch.path().join("rt");
    tsrun::write_runtime(&runtime).unwrap_or_else(|e| machinery_error(&e));
    let lits: Vec<String> = p.literals().iter().map(|l| l.1.clone()).collect();
    let mut observations = vec![];
    for round in 0..2 {
        let out = scratch.path().join(format!("a{round}"));
        let prepared = prepare(&arts, &out, &runtime, &["Query", "Mutation", "Subscription"], &mut vec![]).unwrap_or_else(|e| machinery_error(&e));
        let Some(pe) = prepared.iter().find(|x| Some(x.entrypoint.as_str()) == case["entrypoint"].as_str()) else {
            println!("REPLAY: entrypoint {} is no longer generated", case["entrypoint"]);
            return 0;
        };
        let job = json!({
            "mode": "read", "maxDepth": 0,
            "pointers": pointer_plurality(&lits).iter().map(|(k, v)| (k.clone(), json!({"list": v}))).collect::<Map<String, J>>(),
            "cases": [{"id": 0, "entrypoint": pe.file.display().to_string(), "variables": case["variables"], "root": pe.root, "responses": [case["response"]]}],
        });
        let o = run_job(scratch.path(), &runtime, &job, Duration::from_secs(300)).unwrap_or_else(|e| machinery_error(&e));
        observations.push(o["results"][0].clone());
    }
    if observations[0] != observations[1] {
        machinery_error("replay: two runs of the same case gave different observations");
    }
    let o = &observations[0]["results"][0];
    println!("REPLAY: {}", o);
    if o["o"] == "ok" || o["o"] == "skip" {
        println!("REPLAY: no failure");
        0
    } else {
        println!("VIOLATION property=C10 replay={}", path.display());
        1
    }
}

pub fn main(args: &Args) -> i32 {
    if let Some(sh) = &args.worker {
        SHARD_TEXT.with(|s| *s.borrow_mut() = sh.clone());
        TIER.with(|t| t.set(args.tier));
        sweep::worker_with_finish(sh, oracle, finish_with_family);
        return 0;
    }
    if args.replay.is_some() {
        return replay(args);
    }
    if args.rest.first().map(|s| s.as_str()) == Some("--blank-runtime") {
        // debugging aid: write the blanked runtime to a directory
        let n = tsrun::write_runtime(Path::new(&args.rest[1])).unwrap_or_else(|e| machinery_error(&e));
        println!("{n} runtime files blanked into {}", args.rest[1]);
        return 0;
    }
    if args.rest.first().map(|s| s.as_str()) == Some("--responses") {
        // debugging aid: --responses <family json> <index>: print the enumerated responses of one program
        let family: Family = serde_json::from_str(&args.rest[1]).unwrap_or_else(|e| machinery_error(&format!("bad family {e}")));
        let index: usize = args.rest[2].parse().unwrap_or(0);
        let progs = sweep::family_programs(&family);
        let scratch = Scratch::new("c10-dbg");
        let dir = scratch.path().join("p");
        progs[index].project().write_to(&dir);
        let Compiled::Ok(arts) = driver::compile_dir(&dir) else { machinery_error("does not compile") };
        let (max_dev, cap) = bounds(args.tier);
        for (p, _) in arts.iter().filter(|(p, _)| p.ends_with("/entrypoint.ts")) {
            let text = query_text_of(&arts, p).unwrap_or_else(|e| machinery_error(&e));
            println!("=== {p}\n{text}");
            let op = resp::parse_operation(&text).unwrap_or_else(|e| machinery_error(&e));
            SCHEMA_MODEL.with(|schema| {
                for vars in resp::variable_assignments(schema, &op) {
                    let (rs, capped) = resp::enumerate(schema, &op, &vars, max_dev, cap).unwrap_or_else(|e| machinery_error(&e));
                    println!("--- variables {} : {} responses (capped {capped})", J::Object(vars.clone()), rs.len());
                    for r in rs {
                        println!("{:?}\n    {}", r.world, r.data);
                    }
                }
            });
        }
        return 0;
    }
    let mut ev = Evidence::new(args, "exploration");
    let (max_dev, cap) = bounds(args.tier);
    // the runtime is blanked once here; the workers find it through the environment
    let rt_scratch = Scratch::new("c10-rt");
    let n_rt = tsrun::write_runtime(rt_scratch.path()).unwrap_or_else(|e| machinery_error(&e));
    // SAFETY: single-threaded at this point
    unsafe { std::env::set_var("VERIF_TSRUN_RUNTIME", rt_scratch.path()) };
    let res = sweep::run_with(args, families(args.tier), args.jobs * 2);
    let mut verdict = Verdict::new("C10");
    for v in res.violations {
        if v.signature == "machinery" {
            machinery_error(&v.what);
        }
        verdict.add(v);
    }
    verdict.violations.sort_by_key(|v| (v.case["deviations"].as_array().map(|a| a.len()).unwrap_or(0), v.case["response"].to_string().len(), v.what.len()));
    let (code, n_new, known) = verdict.conclude("comp_mc/c10");
    ev.violations = n_new as i64;
    let x = |k: &str| res.stats.extra.get(k).copied().unwrap_or(0);
    let capped = x("capped");
    ev.set("evaluations", x("responses_read"))
        .set("states", res.stats.programs)
        .set("distinct_nontrivial", x("deviating_responses"))
        .set("outcomes", res.stats.outcomes.len())
        .set("traces_validated_against_impl", x("responses_read"))
        .set(
            "rule",
            "every accepted program of the stated families compiled by the real compiler; for every entrypoint artifact (declared, and generated for @loadable fields) and every variable assignment (all set; each nullable variable omitted) every response of a world with at most d deviations from the base world (d = the largest budget <= `max_deviations` whose responses number at most `response_cap_per_entrypoint`, at least 1) is normalized with writeData and read with readButDoNotEvaluate (entrypoint fragment and every @component fragment handed to componentFunction) by the real type-blanked TypeScript runtime under node, on the real type-blanked artifacts; evaluations = responses read; non-trivial = responses of worlds with >= 1 deviation; outcomes = distinct read results (hash of the data read) and failure classes",
        )
        .set("families", json!(res.families.iter().map(|(f, n)| json!({"menu": format!("{:?}", f.menu), "k": f.k, "programs": n})).collect::<Vec<_>>()))
        .set("programs", res.stats.programs)
        .set("programs_accepted", res.stats.accepted)
        .set("entrypoints", x("entrypoints"))
        .set("loadable_entrypoints", x("loadable_entrypoints"))
        .set("fragments_read", x("fragments_read"))
        .set("runtime_files_blanked", n_rt)
        .set("client_field_resolver_calls", x("js_clientFieldResolverCalls"))
        .set("client_pointer_resolver_calls", x("js_pointerResolverCalls"))
        .set("client_pointer_links_followed", x("js_pointerLinksReturned"))
        .set("component_fragments_read", x("js_componentFragments"))
        .set("responses_failed", x("responses_failed"))
        .set("entrypoints_skipped_operation_not_graphql", x("entrypoints_skipped_operation_not_graphql"))
        .set("responses_skipped_no_root_record", x("skipped_no_root_record"))
        .set("max_deviations", max_dev)
        .set("entrypoint_variable_assignments_by_deviation_budget", json!({"1": x("explored_with_1_deviations"), "2": x("explored_with_2_deviations"), "3": x("explored_with_3_deviations")}))
        .set("response_cap_per_entrypoint", cap)
        .set("entrypoints_where_cap_hit", capped)
        .set("samples", json!(res.stats.samples))
        .set("known_findings_reobserved", json!(known))
        .set("exhaustive", capped == 0);
    ev.assume("a response is conforming when it is the execution of the operation against a consistent world (resp.rs): same entity and same field+arguments give the same answer at every position; the `id` of an entity is its path from the root");
    ev.assume("user code is replaced by stand-ins: a client field resolver returns its data, a client pointer resolver returns the first link (or all links, for a list target) found in the data it read, or null");
    ev.assume("type-only syntax of the runtime and of the artifacts is erased by the span blanker (tsrun.rs); imports never used as values are dropped as TypeScript does; @isograph/react-disposable-state is replaced by a stub ParentCache");
    ev.write();
    if x("responses_read") < 1000 || x("deviating_responses") < 500 || res.stats.outcomes.len() < 5 || x("js_pointerLinksReturned") < 50 || x("js_componentFragments") < 50 || x("js_clientFieldResolverCalls") < 500 {
        machinery_error("vacuous: fewer than 1000 responses read, 500 deviating responses, 5 distinct outcomes, 50 client pointer links followed, 50 component fragments or 500 client field reads");
    }
    println!(
        "comp_mc C10: {} programs ({} accepted), {} entrypoints ({} generated for loadable fields), {} responses normalized and read ({} fragments), {} distinct outcomes, {} new violation signature(s), known {:?}",
        res.stats.programs,
        res.stats.accepted,
        x("entrypoints"),
        x("loadable_entrypoints"),
        x("responses_read"),
        x("fragments_read"),
        res.stats.outcomes.len(),
        n_new,
        known
    );
    code
}

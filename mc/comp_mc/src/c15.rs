//! C15 — merged operations are independent of how selections are arranged.
//!
//! Metamorphic, exhaustive per base program: every permutation of every selection set, every
//! duplication of one selection under a fresh reader alias, and every extraction of a contiguous
//! run of a selection set into a new client field selected at the same place. The operation text
//! and normalization AST (and refetch pairs) of the entrypoint must be byte-identical.
use crate::driver::{self, Compiled};
use crate::progx::{Decl, Menu, Program, Sel, Ty, menu};
use crate::sweep::{self, Ctx, Family, ShardStats};
use mc_core::*;
use serde_json::json;

fn operation_artifacts(arts: &[(String, String)]) -> Vec<(String, String)> {
    arts.iter()
        .filter(|(p, _)| {
            let f = p.rsplit('/').next().unwrap_or("");
            p.starts_with("Query/Root/") && (f == "query_text.ts" || f == "normalization_ast.ts" || f.starts_with("__refetch__"))
        })
        .cloned()
        .collect()
}

fn permutations<T: Clone>(v: &[T]) -> Vec<Vec<T>> {
    if v.len() <= 1 {
        return vec![v.to_vec()];
    }
    let mut out = vec![];
    for i in 0..v.len() {
        let mut rest = v.to_vec();
        let x = rest.remove(i);
        for mut p in permutations(&rest) {
            p.insert(0, x.clone());
            out.push(p);
        }
    }
    out
}

/// all ways to rewrite ONE selection set somewhere in `set` with `f`; `ty` is the set's type
fn rewrite_each(set: &[Sel], ty: Ty, m: Menu, f: &dyn Fn(&[Sel], Ty) -> Vec<(Vec<Sel>, Option<Decl>)>) -> Vec<(Vec<Sel>, Option<Decl>)> {
    let mut out = f(set, ty);
    let atoms = menu(ty, m);
    for (i, s) in set.iter().enumerate() {
        if let (Some(ch), Some(cty)) = (&s.child, atoms[s.atom].child) {
            for (new_child, decl) in rewrite_each(ch, cty, m, f) {
                let mut copy = set.to_vec();
                copy[i].child = Some(new_child);
                out.push((copy, decl));
            }
        }
    }
    out
}

pub fn variants(p: &Program) -> Vec<(String, Program)> {
    let mut out = vec![];
    for (di, d) in p.decls.iter().enumerate() {
        let Decl::Field { ty, name, set, component } = d else { continue };
        let m = p.menu;
        let mk = |kind: &str, new_set: Vec<Sel>, extra: Option<Decl>| {
            let mut decls = p.decls.clone();
            decls[di] = Decl::Field { ty: *ty, name: name.clone(), set: new_set, component: *component };
            if let Some(e) = extra {
                decls.insert(0, e);
            }
            (kind.to_string(), Program { menu: m, decls })
        };
        // (a) permutations of one selection set
        for (s, _) in rewrite_each(set, *ty, m, &|s, _| permutations(s).into_iter().skip(1).map(|p| (p, None)).collect()) {
            out.push(mk("permute", s, None));
        }
        // (b) duplicate one selection under a fresh alias
        for (s, _) in rewrite_each(set, *ty, m, &|s, t| {
            let atoms = menu(t, m);
            (0..s.len())
                // directives such as @loadable / @updatable change what a selection means; client field refs and
                // special fields are not plain server selections
                .filter(|i| !atoms[s[*i].atom].text.contains('@') && atoms[s[*i].atom].needs.is_none() && !atoms[s[*i].atom].text.starts_with("__") && atoms[s[*i].atom].text != "set_name")
                .map(|i| {
                    let mut copy = s.to_vec();
                    let mut dup = s[i].clone();
                    dup.alias = Some(format!("dup{i}"));
                    copy.push(dup);
                    (copy, None)
                })
                .collect()
        }) {
            out.push(mk("duplicate", s, None));
        }
        // (c) extract a contiguous run into a new client field on the same type
        for (s, decl) in rewrite_each(set, *ty, m, &|s, t| {
            if t == Ty::Node {
                return vec![];
            }
            let atoms = menu(t, m);
            let mut v = vec![];
            for lo in 0..s.len() {
                for hi in lo + 1..=s.len() {
                    // variables would have to be threaded through as arguments; keep runs that use none
                    fn uses_vars(s: &[Sel], t: Ty, m: Menu) -> bool {
                        let atoms = menu(t, m);
                        s.iter().any(|x| !atoms[x.atom].vars.is_empty() || x.child.as_ref().is_some_and(|c| uses_vars(c, atoms[x.atom].child.unwrap(), m)))
                    }
                    let run = &s[lo..hi];
                    if uses_vars(run, t, m) || run.iter().any(|x| atoms[x.atom].text.contains('@') || atoms[x.atom].text.starts_with("__")) {
                        continue;
                    }
                    let mut copy = s[..lo].to_vec();
                    copy.push(Sel { atom: run[0].atom, child: None, alias: None, raw: Some("Extracted".to_string()) });
                    copy.extend_from_slice(&s[hi..]);
                    v.push((copy, Some(Decl::Field { ty: t, name: "Extracted".into(), set: run.to_vec(), component: false })));
                }
            }
            v
        }) {
            out.push(mk("extract", s, decl));
        }
    }
    out
}

fn oracle(ctx: &Ctx<'_>, stats: &mut ShardStats) -> Vec<(String, String)> {
    let Compiled::Ok(base) = ctx.result else { return vec![] };
    let base_ops = operation_artifacts(base);
    let mut fails = vec![];
    let vdir = ctx.dir.with_file_name("variant");
    for (kind, v) in variants(ctx.program) {
        v.project().write_to(&vdir);
        *stats.extra.entry(format!("variants_{kind}")).or_default() += 1;
        match driver::compile_dir(&vdir) {
            Compiled::Ok(arts) => {
                let ops = operation_artifacts(&arts);
                if ops != base_ops {
                    let which = base_ops.iter().zip(ops.iter()).find(|(a, b)| a != b).map(|(a, _)| a.0.clone()).unwrap_or_else(|| "artifact set".into());
                    fails.push((format!("operation-changed:{kind}"), format!("{kind} variant changes {which}: {}  ==>  {}", ctx.program.literals().iter().map(|l| l.1.replace('\n', " ")).collect::<Vec<_>>().join(" || "), v.literals().iter().map(|l| l.1.replace('\n', " ")).collect::<Vec<_>>().join(" || "))));
                }
            }
            Compiled::Diagnostics(d) => {
                // a rearrangement of a valid program must stay valid
                fails.push((format!("variant-rejected:{kind}"), format!("{kind} variant is rejected: {} :: {}", d[0].lines().next().unwrap_or(""), v.literals().iter().map(|l| l.1.replace('\n', " ")).collect::<Vec<_>>().join(" || "))));
            }
            Compiled::Panic(m) => fails.push((format!("variant-panic:{kind}"), m)),
        }
        if fails.len() > 3 {
            break;
        }
    }
    fails
}

pub fn main(args: &Args) -> i32 {
    if let Some(sh) = &args.worker {
        sweep::worker(sh, oracle);
        return 0;
    }
    if args.replay.is_some() {
        return sweep::replay(args);
    }
    let mut ev = Evidence::new(args, "exploration");
    let families = vec![Family { menu: Menu::General, k: args.tier.pick(3, 4) }, Family { menu: Menu::Args, k: args.tier.pick(2, 3) }, Family { menu: Menu::Abstract, k: args.tier.pick(3, 5) }, Family { menu: Menu::Overlap, k: args.tier.pick(3, 4) }, Family { menu: Menu::Pointers, k: args.tier.pick(3, 4) }];
    let res = sweep::run(args, families);
    let mut verdict = Verdict::new("C15");
    for v in res.violations {
        verdict.add(v);
    }
    verdict.violations.sort_by_key(|v| v.what.len());
    let (code, n_new, known) = verdict.conclude("comp_mc/c15");
    ev.violations = n_new as i64;
    let nv: u64 = res.stats.extra.iter().filter(|(k, _)| k.starts_with("variants_")).map(|(_, v)| *v).sum();
    ev.set("evaluations", nv)
        .set("distinct_nontrivial", nv)
        .set("rule", "for every accepted base program of the stated families: every permutation of every selection set, every duplication of one plain server selection under a fresh alias, every extraction of a contiguous variable-free run into a new client field; each variant compiled and its entrypoint operation artifacts compared byte for byte with the base; every variant differs textually from its base")
        .set("base_programs", res.stats.accepted)
        .set("variants", json!(res.stats.extra))
        .set("families", json!(res.families.iter().map(|(f, n)| json!({"menu": format!("{:?}", f.menu), "k": f.k, "programs": n})).collect::<Vec<_>>()))
        .set("samples", json!(res.stats.samples))
        .set("known_findings_reobserved", json!(known))
        .set("exhaustive", true);
    ev.write();
    if nv < 100 {
        machinery_error("vacuous: fewer than 100 variants");
    }
    println!("comp_mc C15: {} base programs, {} variants {:?}, {} new violation signature(s), known {:?}", res.stats.accepted, nv, res.stats.extra, n_new, known);
    code
}

//! C09 — every generated operation is valid GraphQL for the schema.
use crate::driver::Compiled;
use crate::gql::{self, Schema};
use crate::progx::{Menu, SCHEMA};
use crate::sweep::{self, Ctx, Family, ShardStats};
use crate::tsx;
use mc_core::*;
use serde_json::json;

/// the string value the runtime reads from a query text artifact
pub fn operation_texts(arts: &[(String, String)]) -> Vec<(String, Result<String, String>)> {
    arts.iter()
        .filter(|(p, _)| p.ends_with("query_text.ts") || p.rsplit('/').next().unwrap_or("").starts_with("__refetch__query_text__"))
        .map(|(p, c)| {
            let r = tsx::load(c).map_err(|e| format!("artifact does not parse: {e}")).and_then(|f| match f.default_export {
                Some(tsx::Val::Str(s)) => Ok(s),
                other => Err(format!("default export is not a string: {other:?}")),
            });
            (p.clone(), r)
        })
        .collect()
}

/// the literal with its first field argument given twice (`f(x: v)` -> `f(x: v, x: v)`), if it has one
pub fn duplicate_first_argument(lit: &str) -> Option<String> {
    let body = lit.find('{')?;
    let open = body + lit[body..].find('(')?;
    let b = lit.as_bytes();
    let (mut depth, mut in_str, mut i) = (0i32, false, open + 1);
    while i < b.len() {
        match b[i] {
            b'\\' if in_str => i += 1,
            b'"' => in_str = !in_str,
            b'{' | b'[' | b'(' if !in_str => depth += 1,
            b'}' | b']' if !in_str => depth -= 1,
            b')' | b',' if !in_str && depth == 0 => break,
            b')' if !in_str => depth -= 1,
            _ => {}
        }
        i += 1;
    }
    if i >= b.len() {
        return None;
    }
    let arg = lit[open + 1..i].trim();
    if !arg.contains(':') {
        return None;
    }
    Some(format!("{}, {}{}", &lit[..i], arg, &lit[i..]))
}

pub fn check(arts: &[(String, String)], schema: &Schema, literals: &str) -> Vec<(String, String)> {
    let mut fails = vec![];
    for (path, text) in operation_texts(arts) {
        match text {
            Err(e) => fails.push(("unreadable-artifact".to_string(), format!("{path}: {e}"))),
            Ok(t) => {
                for (class, msg) in gql::validate(&t, schema) {
                    // narrow signatures for input classes with recorded findings
                    let detail = if class == "syntax" && literals.contains(": -") {
                        ":negative-integer-argument-in-response-key"
                    } else if class == "fields-conflict" && {
                        // "... is used for f(args) and f(args)": equal once non-word characters are collapsed?
                        let tail = msg.split(" is used for ").nth(1).unwrap_or("");
                        let norm = |s: &str| s.chars().map(|c| if c.is_ascii_alphanumeric() || c == '_' { c } else { '_' }).collect::<String>();
                        match tail.split_once(" and ") {
                            Some((a, b)) => a != b && norm(a) == norm(b),
                            None => false,
                        }
                    } {
                        ":string-arguments-differing-only-in-non-word-characters"
                    } else if class == "undeclared-variable" && msg.contains('.') {
                        ":variable-inside-object-argument"
                    } else {
                        ""
                    };
                    fails.push((format!("{class}{detail}"), format!("{path}: {msg} :: {}", t.replace('\n', " "))));
                }
            }
        }
    }
    fails
}

fn oracle(ctx: &Ctx<'_>, stats: &mut ShardStats) -> Vec<(String, String)> {
    thread_local! {
        static SCHEMA_MODEL: Schema = Schema::parse(SCHEMA).unwrap_or_else(|e| machinery_error(&format!("universe schema does not parse: {e}")));
    }
    match ctx.result {
        Compiled::Ok(arts) => {
            let lits = ctx.program.literals().iter().map(|l| l.1.clone()).collect::<Vec<_>>().join("\n");
            let n = operation_texts(arts).len() as u64;
            *stats.extra.entry("operations_validated".into()).or_default() += n;
            let mut fails = SCHEMA_MODEL.with(|s| check(arts, s, &lits));
            // the same program with the first argument of each literal given twice: if the compiler accepts it,
            // it is an accepted program like any other and its operations must be valid GraphQL
            let all = ctx.program.literals();
            for (i, (_, lit)) in all.iter().enumerate() {
                let Some(dup) = duplicate_first_argument(lit) else { continue };
                let mut variant = all.clone();
                variant[i].1 = dup;
                let refs: Vec<(Option<&str>, String)> = variant.iter().map(|(e, l)| (e.as_deref(), l.clone())).collect();
                let mut p = ctx.program.project();
                p.files = vec![("a.ts".to_string(), crate::project::source_file(&refs))];
                let vdir = ctx.dir.with_file_name("dup-arg-variant");
                p.write_to(&vdir);
                *stats.extra.entry("duplicate_argument_variants".into()).or_default() += 1;
                if let Compiled::Ok(varts) = crate::driver::compile_dir(&vdir) {
                    *stats.extra.entry("duplicate_argument_variants_accepted".into()).or_default() += 1;
                    let vl = variant.iter().map(|l| l.1.clone()).collect::<Vec<_>>().join("\n");
                    for (sig, what) in SCHEMA_MODEL.with(|s| check(&varts, s, &vl)) {
                        if sig.starts_with("duplicate-argument") {
                            fails.push((sig, format!("[variant with an argument given twice, accepted by the compiler] {what}")));
                        }
                    }
                }
                let _ = std::fs::remove_dir_all(&vdir);
                break; // one variant per program
            }
            // the same program with its first integer literal argument replaced by one outside the 32-bit range
            if let Some((i, lit)) = all.iter().enumerate().find(|(_, (_, l))| l.contains("first: 1") || l.contains("first: 2") || l.contains("n: 1")) {
                let lit = &lit.1;
                let big = lit.replacen("first: 1", "first: 3000000000", 1);
                let big = if big == *lit { lit.replacen("first: 2", "first: 3000000000", 1) } else { big };
                let big = if big == *lit { lit.replacen("n: 1", "n: 3000000000", 1) } else { big };
                let mut variant = all.clone();
                variant[i].1 = big;
                let refs: Vec<(Option<&str>, String)> = variant.iter().map(|(e, l)| (e.as_deref(), l.clone())).collect();
                let mut p = ctx.program.project();
                p.files = vec![("a.ts".to_string(), crate::project::source_file(&refs))];
                let vdir = ctx.dir.with_file_name("int-range-variant");
                p.write_to(&vdir);
                *stats.extra.entry("int_range_variants".into()).or_default() += 1;
                if let Compiled::Ok(varts) = crate::driver::compile_dir(&vdir) {
                    let vl = variant.iter().map(|l| l.1.clone()).collect::<Vec<_>>().join("\n");
                    for (sig, what) in SCHEMA_MODEL.with(|s| check(&varts, s, &vl)) {
                        if sig.starts_with("int-range") {
                            fails.push((sig, format!("[variant with an integer literal outside the 32-bit range, accepted by the compiler] {what}")));
                        }
                    }
                }
                let _ = std::fs::remove_dir_all(&vdir);
            }
            // the same program with a default value of the wrong type on its first variable (and null on a non-null one)
            if let Some((_, root)) = all.first()
                && let Some(a) = root.find("($")
                && let Some(colon) = root[a..].find(": ")
            {
                let ty_start = a + colon + 2;
                let ty_end = ty_start + root[ty_start..].find([',', ')']).unwrap_or(0);
                let ty = root[ty_start..ty_end].trim().to_string();
                let defaults: Vec<&str> = if ty.ends_with('!') { vec!["null", "{a: 1}"] } else if ty.starts_with("Int") { vec!["\"x\"", "true"] } else { vec!["{a: 1}", "true"] };
                for d in defaults {
                    if root[ty_start..ty_end].contains('=') {
                        break;
                    }
                    let mut variant = all.clone();
                    variant[0].1 = format!("{} = {d}{}", &root[..ty_end], &root[ty_end..]);
                    let refs: Vec<(Option<&str>, String)> = variant.iter().map(|(e, l)| (e.as_deref(), l.clone())).collect();
                    let mut p = ctx.program.project();
                    p.files = vec![("a.ts".to_string(), crate::project::source_file(&refs))];
                    let vdir = ctx.dir.with_file_name("default-variant");
                    p.write_to(&vdir);
                    *stats.extra.entry("default_value_variants".into()).or_default() += 1;
                    if let Compiled::Ok(varts) = crate::driver::compile_dir(&vdir) {
                        *stats.extra.entry("default_value_variants_accepted".into()).or_default() += 1;
                        let vl = variant.iter().map(|l| l.1.clone()).collect::<Vec<_>>().join("\n");
                        for (sig, what) in SCHEMA_MODEL.with(|s| check(&varts, s, &vl)) {
                            if sig.starts_with("default-") {
                                fails.push((format!("{sig}:{}", if d == "null" { "null-for-non-null" } else { "wrong-type" }), format!("[variant with the default value {d} for a variable of type {ty}, accepted by the compiler] {what}")));
                            }
                        }
                    }
                    let _ = std::fs::remove_dir_all(&vdir);
                }
            }
            fails
        }
        _ => vec![],
    }
}

pub fn main(args: &Args) -> i32 {
    if let Some(sh) = &args.worker {
        sweep::worker(sh, oracle);
        return 0;
    }
    let demo_check = |d: &crate::demos::Demo| check(&d.arts, &d.schema, "");
    if let Some(code) = crate::demos::replay_if_demo(args, &demo_check) {
        return code;
    }
    if args.replay.is_some() {
        return sweep::replay(args);
    }
    let mut ev = Evidence::new(args, "exploration");
    let families = vec![
        Family { menu: Menu::General, k: args.tier.pick(4, 6) },
        Family { menu: Menu::Args, k: args.tier.pick(3, 5) },
        Family { menu: Menu::Abstract, k: args.tier.pick(4, 6) },
        Family { menu: Menu::ClientArgs, k: args.tier.pick(3, 5) },
        Family { menu: Menu::Pointers, k: args.tier.pick(3, 5) },
        Family { menu: Menu::Overlap, k: args.tier.pick(2, 3) },
        Family { menu: Menu::Lists, k: args.tier.pick(3, 4) },
    ];
    let res = sweep::run(args, families);
    let mut verdict = Verdict::new("C09");
    for v in res.violations {
        verdict.add(v);
    }
    let (demo_violations, demo_artifacts) = crate::demos::violations(&demo_check);
    for v in demo_violations {
        verdict.add(v);
    }
    verdict.violations.sort_by_key(|v| v.what.len());
    let (code, n_new, known) = verdict.conclude("comp_mc/c09");
    ev.violations = n_new as i64;
    let ops = res.stats.extra.get("operations_validated").copied().unwrap_or(0);
    ev.set("demo_projects", json!(crate::demos::DEMOS)).set("demo_artifacts", demo_artifacts);
    ev.set("evaluations", res.stats.programs)
        .set("distinct_nontrivial", res.stats.accepted)
        .set("rule", "every program of the stated families compiled by the real compiler; every query_text / __refetch__query_text artifact evaluated to the string the runtime reads (swc, cooked) and parsed with the relay graphql-syntax parser, then validated against the universe schema (fields, leaf/composite shape, arguments defined/required/coercible, variables declared/used/compatible incl. inside object values, fragment conditions, mergeable response names); non-trivial = accepted programs")
        .set("families", json!(res.families.iter().map(|(f, n)| json!({"menu": format!("{:?}", f.menu), "k": f.k, "programs": n})).collect::<Vec<_>>()))
        .set("operations_validated", ops)
        .set("samples", json!(res.stats.samples))
        .set("known_findings_reobserved", json!(known))
        .set("exhaustive", true);
    ev.assume("the validator mc/comp_mc/src/gql.rs (June 2018 rules named by the property) and the repository's own relay graphql-syntax parser are the trusted base; no independent GraphQL implementation exists in the sandbox");
    ev.write();
    if ops < 100 {
        machinery_error("vacuous: fewer than 100 operations validated");
    }
    println!("comp_mc C09: {} programs ({} accepted), {} operations validated, {} new violation signature(s), known {:?}", res.stats.programs, res.stats.accepted, ops, n_new, known);
    code
}

mod driver;
mod demos;
mod demomut;
mod schemagen;
mod c08;
mod c09;
mod c11;
mod c12;
mod gql;
mod c13;
mod c14;
mod c15;
mod c16;
mod c17;
mod c26;
mod c27;
mod tsx;
mod progx;
mod sweep;
mod project;
mod c10;
mod c25;
mod tsrun;
mod resp;
use mc_core::*;

fn main() {
    let args = Args::parse();
    match args.property.as_str() {
        "dump" => {
            // dump <dir-with-isograph.config.json>
            let dir = std::path::PathBuf::from(&args.rest[0]);
            match driver::compile_dir(&dir) {
                driver::Compiled::Ok(arts) => {
                    for (p, c) in &arts {
                        println!("=== {p}\n{c}");
                    }
                }
                driver::Compiled::Diagnostics(d) => println!("DIAGNOSTICS:\n{}", d.join("\n---\n")),
                driver::Compiled::Panic(m) => println!("PANIC: {m}"),
            }
        }
        "C08" => std::process::exit(c08::main(&args)),
        "C13" => std::process::exit(c13::main(&args)),
        "C09" => std::process::exit(c09::main(&args)),
        "C11" => std::process::exit(c11::main(&args)),
        "C12" => std::process::exit(c12::main(&args)),
        "C14" => std::process::exit(c14::main(&args)),
        "C15" => std::process::exit(c15::main(&args)),
        "C16" => std::process::exit(c16::main(&args)),
        "C17" => std::process::exit(c17::main(&args)),
        "C26" => std::process::exit(c26::main(&args)),
        "C27" => std::process::exit(c27::main(&args)),
        "C10" => std::process::exit(c10::main(&args)),
        "C25" => std::process::exit(c25::main(&args)),
        "show" => {
            // show <menu> <k> <index|all>
            let m = match args.rest[0].as_str() { "args" => progx::Menu::Args, "abstract" => progx::Menu::Abstract, "cycles" => progx::Menu::Cycles, "clientargs" => progx::Menu::ClientArgs, "overlap" => progx::Menu::Overlap, "decls" => progx::Menu::Decls, "dups" => progx::Menu::Dups, "demomut" => progx::Menu::DemoMutations, "schemas" => progx::Menu::Schemas, "lists" => progx::Menu::Lists, "pointers" => progx::Menu::Pointers, _ => progx::Menu::General };
            let k: usize = args.rest[1].parse().unwrap();
            let progs = progx::programs(m, k);
            println!("{} programs", progs.len());
            let scratch = Scratch::new("show");
            let mut ok = 0;
            let mut classes: std::collections::BTreeMap<String, (usize, String)> = Default::default();
            for (i, p) in progs.iter().enumerate() {
                if args.rest[2] != "all" && args.rest[2].parse::<usize>().ok() != Some(i) {
                    continue;
                }
                let dir = scratch.path().join("p");
                p.project().write_to(&dir);
                match driver::compile_dir(&dir) {
                    driver::Compiled::Ok(arts) => {
                        ok += 1;
                        if args.rest[2] != "all" {
                            for (l, _) in p.literals().iter().map(|(e, l)| (l.clone(), e.clone())) { println!("{l}\n"); }
                            for (p, c) in &arts { println!("=== {p}\n{c}"); }
                        }
                    }
                    driver::Compiled::Diagnostics(d) => {
                        let key: String = d[0].lines().next().unwrap_or("").chars().take(100).collect();
                        let e = classes.entry(key).or_insert((0, p.literals().iter().map(|l| l.1.clone()).collect::<Vec<_>>().join(" || ")));
                        e.0 += 1;
                        if args.rest[2] != "all" { println!("DIAG: {}", d.join("\n---\n")); }
                    }
                    driver::Compiled::Panic(msg) => {
                        let e = classes.entry(format!("PANIC {}", msg.chars().take(100).collect::<String>())).or_insert((0, p.literals().iter().map(|l| l.1.clone()).collect::<Vec<_>>().join(" || ")));
                        e.0 += 1;
                    }
                }
            }
            println!("ok: {ok}");
            for (k, (n, ex)) in classes { println!("{n:6} {k}\n        e.g. {}", ex.replace('\n', " ")); }
        }
        _ => machinery_error("comp_mc: unknown property"),
    }
}

//! C16 — invalid selections are rejected and valid ones accepted.
//!
//! The generated programs are well-typed by construction (every menu atom is type-correct for
//! the universe schema and used variables are declared with the right types), so each must
//! compile without diagnostics. Every **single-fault mutant** of every program — one rule of the
//! property broken at one place — must be rejected with at least one diagnostic.
use crate::driver::{self, Compiled};
use crate::progx::{Decl, Menu, Program, Sel, Ty, menu};
use crate::project::{Project, source_file};
use crate::sweep::{self, Ctx, Family, ShardStats};
use mc_core::*;
use serde_json::json;

/// (rule broken, human description, mutated program literals)
type Mutant = (String, String, Vec<(Option<String>, String)>);

/// apply `f` at every selection position of the Root field; f returns replacement selections for that position
fn each_position(set: &[Sel], ty: Ty, m: Menu, f: &dyn Fn(&Sel, Ty) -> Vec<(String, Option<Sel>, Option<Sel>)>, out: &mut Vec<(String, Vec<Sel>)>, rebuild: &dyn Fn(Vec<Sel>) -> Vec<Sel>) {
    let atoms = menu(ty, m);
    for (i, s) in set.iter().enumerate() {
        for (kind, replacement, extra) in f(s, ty) {
            let mut copy = set.to_vec();
            match replacement {
                Some(r) => copy[i] = r,
                None => {}
            }
            if let Some(e) = extra {
                copy.push(e);
            }
            out.push((kind, rebuild(copy)));
        }
        if let (Some(ch), Some(cty)) = (&s.child, atoms[s.atom].child) {
            let set2 = set.to_vec();
            each_position(ch, cty, m, f, out, &|new_child| {
                let mut c = set2.clone();
                c[i].child = Some(new_child);
                rebuild(c)
            });
        }
    }
}

pub fn mutants(p: &Program) -> Vec<Mutant> {
    let m = p.menu;
    let Some(Decl::Field { ty, name, set, component }) = p.decls.first().cloned() else { return vec![] };
    let mut sets: Vec<(String, Vec<Sel>)> = vec![];
    let raw = |s: &Sel, text: String, keep_child: bool| Sel { atom: s.atom, child: if keep_child { s.child.clone() } else { None }, alias: None, raw: Some(text) };
    let f = |s: &Sel, t: Ty| -> Vec<(String, Option<Sel>, Option<Sel>)> {
        let at = menu(t, m)[s.atom];
        let text = at.text;
        let mut v = vec![];
        if s.raw.is_some() || s.alias.is_some() {
            return v;
        }
        // undefined field, next to this selection
        v.push(("undefined-field".to_string(), None, Some(raw(s, "doesNotExist".into(), false))));
        if at.child.is_some() {
            // object field without a selection set
            v.push(("object-without-selection-set".to_string(), Some(raw(s, text.to_string(), false)), None));
        } else if at.needs.is_none() && !text.starts_with("__") && text != "set_name" {
            // scalar field with a selection set
            v.push(("scalar-with-selection-set".to_string(), Some(raw(s, format!("{text} {{\n id\n }}"), false)), None));
        }
        if at.needs.is_none() && !text.contains('@') && !text.starts_with("__") && text != "set_name" {
            // undefined argument
            let with_bogus = match text.find('(') {
                Some(i) => format!("{}(bogus: 1, {}", &text[..i], &text[i + 1..]),
                None => format!("{text}(bogus: 1)"),
            };
            v.push(("undefined-argument".to_string(), Some(raw(s, with_bogus, true)), None));
            // duplicate response name
            v.push(("duplicate-response-name".to_string(), None, Some(s.clone())));
        }
        // omitted required argument / incompatible values: targeted rewrites of the atom text
        let rewrites: [(&str, &str, &str); 21] = [
            ("user(id: $id)", "user", "missing-required-argument"),
            ("n1: node(id: $id)", "n1: node", "missing-required-argument"),
            ("node(id: $id)", "node", "missing-required-argument"),
            ("pet(id: $id, input:", "pet(input:", "missing-required-argument"),
            ("first: 2", "first: \"two\"", "incompatible-value:string-for-int"),
            ("first: 1", "first: true", "incompatible-value:boolean-for-int"),
            ("name: \"a b\"", "name: 1", "incompatible-value:int-for-string"),
            ("id: \"1\"", "id: {a: 1}", "incompatible-value:object-for-id"),
            ("{name: \"x\", n: 1}", "{name: \"x\", n: \"one\"}", "incompatible-value:string-for-int-in-input-object"),
            ("{name: \"x\", n: 1}", "{name: \"x\", bogus: 1}", "undefined-input-field"),
            ("{nested: {a: $n}}", "{nested: {a: \"x\"}}", "incompatible-value:string-for-int-in-nested-input-object"),
            ("first: null", "first: RED", "incompatible-value:enum-for-int"),
            // null for a non-null argument
            ("user(id: $id)", "user(id: null)", "incompatible-value:null-for-non-null"),
            // arguments of client fields
            ("Friends(n: 1)", "Friends(n: \"one\")", "incompatible-value:string-for-int:client-field-argument"),
            ("Friends(n: 1)", "Friends(n: true)", "incompatible-value:boolean-for-int:client-field-argument"),
            ("Friends(n: 1)", "Friends(n: 1, bogus: 2)", "undefined-argument:client-field"),
            ("Friends(n: 1)", "Friends(bogus: 2)", "undefined-argument:client-field"),
            ("PetQ(x: 3)", "PetQ(x: RED)", "incompatible-value:enum-for-int:client-field-argument"),
            ("PetQ(x: 3)", "PetQ(x: {a: 1})", "incompatible-value:object-for-int:client-field-argument"),
            ("WithInput(x: 2)", "WithInput(x: \"2\")", "incompatible-value:string-for-int:client-field-argument"),
            ("NodeArg(m: 3)", "NodeArg(m: \"3\")", "incompatible-value:string-for-int:client-field-argument"),
        ];
        for (from, to, kind) in rewrites {
            if text.contains(from) {
                v.push((kind.to_string(), Some(raw(s, text.replacen(from, to, 1), true)), None));
            }
        }
        v
    };
    each_position(&set, ty, m, &f, &mut sets, &|x| x);
    let mut out: Vec<Mutant> = vec![];
    for (kind, new_set) in sets {
        let mut q = p.clone();
        q.decls[0] = Decl::Field { ty, name: name.clone(), set: new_set, component };
        out.push((kind.clone(), format!("{kind} mutant"), q.literals()));
    }
    // variable-level faults on the rendered Root literal
    let lits = p.literals();
    let root = &lits[0].1;
    let with_root = |new_root: String| -> Vec<(Option<String>, String)> {
        let mut l = lits.clone();
        l[0].1 = new_root;
        l
    };
    if let (Some(a), Some(b)) = (root.find('('), root.find(") ")) {
        let head = &root[..a];
        let vars = &root[a + 1..b];
        let tail = &root[b + 1..];
        if vars.starts_with('$') && a < root.find('{').unwrap_or(0) {
            out.push(("unused-variable".into(), "extra variable declared".into(), with_root(format!("{head}({vars}, $unused: Int){tail}"))));
            // split at top-level commas only (default values may be objects)
            let list: Vec<&str> = {
                let (mut out, mut depth, mut in_str, mut start) = (vec![], 0i32, false, 0usize);
                let b = vars.as_bytes();
                let mut i = 0;
                while i < b.len() {
                    match b[i] {
                        b'\\' if in_str => i += 1,
                        b'"' => in_str = !in_str,
                        b'{' | b'[' if !in_str => depth += 1,
                        b'}' | b']' if !in_str => depth -= 1,
                        b',' if !in_str && depth == 0 => {
                            out.push(vars[start..i].trim());
                            start = i + 1;
                        }
                        _ => {}
                    }
                    i += 1;
                }
                out.push(vars[start..].trim());
                out
            };
            for (i, v) in list.iter().enumerate() {
                let rest: Vec<&str> = list.iter().enumerate().filter(|(j, _)| *j != i).map(|(_, x)| *x).collect();
                let decl = if rest.is_empty() { String::new() } else { format!("({})", rest.join(", ")) };
                out.push(("undeclared-variable".into(), format!("declaration of {v} removed"), with_root(format!("{head}{decl}{tail}"))));
                let (vn, vt) = v.split_once(": ").unwrap_or((v, ""));
                let wrong = match vt {
                    "ID!" => vec![("Int", "variable-type:int-for-id"), ("ID", "variable-type:nullable-for-non-null")],
                    "Int" => vec![("String", "variable-type:string-for-int"), ("[Int]", "variable-type:list-for-int")],
                    "PetInput" => vec![("NestedInput", "variable-type:other-input-object")],
                    "[ID!]!" => vec![("[ID!]", "variable-type:nullable-list-for-non-null-list"), ("[ID]!", "variable-type:nullable-items-for-non-null-items"), ("ID!", "variable-type:scalar-for-list"), ("[Int!]!", "variable-type:int-items-for-id-items"), ("[[ID!]!]!", "variable-type:nested-list-for-list")],
                    "[String]" => vec![("[Int]", "variable-type:int-items-for-string-items"), ("String", "variable-type:scalar-for-list"), ("[[String]]", "variable-type:nested-list-for-list")],
                    _ => vec![],
                };
                for (w, kind) in wrong {
                    let mut l2 = list.clone();
                    let s = format!("{vn}: {w}");
                    l2[i] = &s;
                    out.push((kind.into(), format!("{v} retyped as {w}"), with_root(format!("{head}({}){tail}", l2.join(", ")))));
                }
            }
        }
    } else if root.contains("{\n") {
        let i = root.find(" {").unwrap_or(0);
        let j = root.find(" @component").filter(|j| *j < i).unwrap_or(i);
        out.push(("unused-variable".into(), "variable declared, never used".into(), with_root(format!("{}($unused: Int){}", &root[..j], &root[j..]))));
    }
    out
}

fn project_of(lits: &[(Option<String>, String)], base: &Project) -> Project {
    let refs: Vec<(Option<&str>, String)> = lits.iter().map(|(e, l)| (e.as_deref(), l.clone())).collect();
    let mut p = base.clone();
    p.files = vec![("a.ts".to_string(), source_file(&refs))];
    p
}

fn oracle(ctx: &Ctx<'_>, stats: &mut ShardStats) -> Vec<(String, String)> {
    let mut fails = vec![];
    match ctx.result {
        Compiled::Ok(_) => {}
        Compiled::Diagnostics(d) => {
            return vec![("valid-program-rejected".to_string(), format!("a well-typed program is rejected: {} :: {}", d[0].lines().next().unwrap_or(""), ctx.program.literals().iter().map(|l| l.1.replace('\n', " ")).collect::<Vec<_>>().join(" || ")))];
        }
        Compiled::Panic(_) => return vec![],
    }
    let base = ctx.program.project();
    let vdir = ctx.dir.with_file_name("variant");
    for (kind, desc, lits) in mutants(ctx.program) {
        project_of(&lits, &base).write_to(&vdir);
        *stats.extra.entry(format!("mutants_{}", kind.split(':').next().unwrap_or(""))).or_default() += 1;
        match driver::compile_dir(&vdir) {
            Compiled::Diagnostics(_) => {}
            Compiled::Ok(_) => fails.push((format!("invalid-accepted:{kind}"), format!("{desc}: compiles without any diagnostic :: {}", lits.iter().map(|l| l.1.replace('\n', " ")).collect::<Vec<_>>().join(" || ")))),
            Compiled::Panic(m) => fails.push((format!("panic:{kind}"), m)),
        }
    }
    fails.sort();
    fails.dedup_by(|a, b| a.0 == b.0);
    fails
}

pub fn main(args: &Args) -> i32 {
    if let Some(sh) = &args.worker {
        sweep::worker(sh, oracle);
        return 0;
    }
    if args.replay.is_some() {
        return sweep::replay(args);
    }
    let mut ev = Evidence::new(args, "exploration");
    let families = vec![Family { menu: Menu::General, k: args.tier.pick(3, 5) }, Family { menu: Menu::Args, k: args.tier.pick(2, 4) }, Family { menu: Menu::Abstract, k: args.tier.pick(3, 5) }, Family { menu: Menu::ClientArgs, k: args.tier.pick(2, 4) }];
    let res = sweep::run(args, families);
    let mut verdict = Verdict::new("C16");
    for v in res.violations {
        verdict.add(v);
    }
    verdict.violations.sort_by_key(|v| v.what.len());
    let (code, n_new, known) = verdict.conclude("comp_mc/c16");
    ev.violations = n_new as i64;
    let nm: u64 = res.stats.extra.iter().filter(|(k, _)| k.starts_with("mutants_")).map(|(_, v)| *v).sum();
    ev.set("evaluations", res.stats.programs + nm)
        .set("distinct_nontrivial", nm)
        .set("rule", "every well-typed program of the stated families must compile; every single-fault mutant (one rule broken at one selection position or one variable: undefined field, object without / scalar with selection set, undefined argument, missing required argument, incompatible literal / variable type incl. input-object fields and nullability, undeclared / unused variable, duplicate response name) must be rejected; non-trivial = mutants")
        .set("valid_programs", res.stats.programs)
        .set("mutants_by_rule", json!(res.stats.extra))
        .set("families", json!(res.families.iter().map(|(f, n)| json!({"menu": format!("{:?}", f.menu), "k": f.k, "programs": n})).collect::<Vec<_>>()))
        .set("samples", json!(res.stats.samples))
        .set("known_findings_reobserved", json!(known))
        .set("exhaustive", true);
    ev.assume("the menu atoms are type-correct for the universe schema (checked by the validator of C09 on the generated operations); mutants break exactly the stated rule by construction");
    ev.write();
    if nm < 100 {
        machinery_error("vacuous: fewer than 100 mutants");
    }
    println!("comp_mc C16: {} valid programs, {} mutants, {} new violation signature(s), known {:?}", res.stats.programs, nm, n_new, known);
    code
}

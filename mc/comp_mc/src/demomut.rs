//! Raw single-token mutations of the checked-in demo projects (C08: "plus raw mutations of the
//! demo projects"): every token of every iso literal, and every token of the schema and its
//! extensions, is deleted / duplicated / replaced by each token of a small alphabet, one at a time.
//! A mutated project is materialised from /repo/demos/<demo> on demand, so a case is just
//! (demo, target, token index, mutation).
use crate::project::Project;
use serde_json::Value as J;
use std::path::{Path, PathBuf};

pub const DEMOS: [&str; 3] = ["pet-demo", "vite-demo", "github-demo"];

pub struct DemoSrc {
    pub options: J,
    pub schema: String,
    pub extension: Option<String>,
    /// (path relative to the project root, content)
    pub files: Vec<(String, String)>,
}

fn walk(dir: &Path, base: &Path, out: &mut Vec<(String, String)>) {
    let Ok(rd) = std::fs::read_dir(dir) else { return };
    let mut entries: Vec<PathBuf> = rd.flatten().map(|e| e.path()).collect();
    entries.sort();
    for p in entries {
        let name = p.file_name().unwrap_or_default().to_string_lossy().to_string();
        if p.is_dir() {
            if name != "node_modules" && name != "__isograph" {
                walk(&p, base, out);
            }
        } else if ["ts", "tsx", "js", "jsx"].contains(&p.extension().and_then(|x| x.to_str()).unwrap_or("")) {
            if let Ok(t) = std::fs::read_to_string(&p) {
                out.push((p.strip_prefix(base).unwrap().to_string_lossy().to_string(), t));
            }
        }
    }
}

pub fn load(demo: &str) -> DemoSrc {
    let root = Path::new("/repo/demos").join(demo);
    let cfg: J = serde_json::from_str(&std::fs::read_to_string(root.join("isograph.config.json")).unwrap_or_else(|e| mc_core::machinery_error(&format!("demo {demo}: {e}")))).unwrap_or_else(|e| mc_core::machinery_error(&format!("demo {demo}: config: {e}")));
    let schema = std::fs::read_to_string(root.join(cfg["schema"].as_str().unwrap_or("schema.graphql"))).unwrap_or_else(|e| mc_core::machinery_error(&format!("demo {demo}: schema: {e}")));
    let mut extension = String::new();
    for x in cfg["schema_extensions"].as_array().into_iter().flatten() {
        extension.push_str(&std::fs::read_to_string(root.join(x.as_str().unwrap_or(""))).unwrap_or_default());
        extension.push('\n');
    }
    let pr = root.join(cfg["project_root"].as_str().unwrap_or("src"));
    let mut files = vec![];
    walk(&pr, &pr, &mut files);
    let mut options = cfg["options"].clone();
    if options.is_null() {
        options = serde_json::json!({});
    }
    DemoSrc { options, schema, extension: if extension.trim().is_empty() { None } else { Some(extension) }, files }
}

/// byte spans of the tokens of a GraphQL-ish / iso text (strings, block strings, names, numbers, punctuators)
pub fn tokens(s: &str) -> Vec<(usize, usize)> {
    let b = s.as_bytes();
    let mut out = vec![];
    let mut i = 0;
    while i < b.len() {
        let c = b[i];
        if c == b'#' {
            while i < b.len() && b[i] != b'\n' {
                i += 1;
            }
        } else if s[i..].starts_with("\"\"\"") {
            let end = s[i + 3..].find("\"\"\"").map(|e| i + 3 + e + 3).unwrap_or(b.len());
            out.push((i, end));
            i = end;
        } else if c == b'"' {
            let mut j = i + 1;
            while j < b.len() && b[j] != b'"' && b[j] != b'\n' {
                j += if b[j] == b'\\' { 2 } else { 1 };
            }
            let end = (j + 1).min(b.len());
            out.push((i, end));
            i = end;
        } else if c.is_ascii_alphabetic() || c == b'_' {
            let mut j = i;
            while j < b.len() && (b[j].is_ascii_alphanumeric() || b[j] == b'_') {
                j += 1;
            }
            out.push((i, j));
            i = j;
        } else if c.is_ascii_digit() || (c == b'-' && i + 1 < b.len() && b[i + 1].is_ascii_digit()) {
            let mut j = i + 1;
            while j < b.len() && (b[j].is_ascii_digit() || b[j] == b'.') {
                j += 1;
            }
            out.push((i, j));
            i = j;
        } else if b"{}()[]:$@!.,=|&".contains(&c) {
            out.push((i, i + 1));
            i += 1;
        } else {
            // white space, and anything else byte-wise (multi-byte characters stay untouched)
            i += 1;
        }
    }
    out.into_iter().filter(|(a, z)| s.is_char_boundary(*a) && s.is_char_boundary(*z)).collect()
}

/// spans of the iso literal texts inside a source file (`iso(` + backtick ... backtick)
pub fn literal_spans(src: &str) -> Vec<(usize, usize)> {
    let mut out = vec![];
    let mut from = 0;
    while let Some(p) = src[from..].find("iso(`") {
        let start = from + p + 5;
        let Some(e) = src[start..].find('`') else { break };
        out.push((start, start + e));
        from = start + e + 1;
    }
    out
}

/// the replacement alphabet; mutation 0 = delete, 1 = duplicate, 2.. = replace by ALPHABET[m - 2]
pub const ALPHABET: [&str; 14] = ["x", "@", "{", "}", "(", ")", ":", "$", ".", "1", "\"s\"", "Query", "field", "!"];

/// the mutations of a level: 1 = delete; 2 = delete, replace by `x`, replace by `@`; 3 = all
pub fn mutation_list(level: usize) -> Vec<usize> {
    match level {
        0 | 1 => vec![0],
        2 => vec![0, 2, 3],
        _ => (0..2 + ALPHABET.len()).collect(),
    }
}

fn mutate(text: &str, span: (usize, usize), m: usize) -> String {
    let tok = &text[span.0..span.1];
    let new = match m {
        0 => String::new(),
        1 => format!("{tok} {tok}"),
        k => ALPHABET[k - 2].to_string(),
    };
    format!("{}{}{}", &text[..span.0], new, &text[span.1..])
}

/// number of tokens of a target: all iso literals ("literal") or the schema + extension ("schema")
pub fn token_count(d: &DemoSrc, target: &str) -> usize {
    if target == "schema" {
        tokens(&d.schema).len() + d.extension.as_deref().map(|e| tokens(e).len()).unwrap_or(0)
    } else {
        d.files.iter().map(|(_, t)| literal_spans(t).iter().map(|(a, z)| tokens(&t[*a..*z]).len()).sum::<usize>()).sum()
    }
}

/// the project with token `index` of `target` mutated by `m`, and a description of what was done
pub fn apply(demo: &str, target: &str, index: usize, m: usize) -> (Project, String) {
    let d = load(demo);
    let mut p = Project { schema: d.schema.clone(), extension: d.extension.clone(), files: d.files.clone(), options: d.options.clone() };
    let what = |file: &str, text: &str, span: (usize, usize)| format!("{demo}: {file}: token #{index} `{}` {}", &text[span.0..span.1].chars().take(30).collect::<String>(), match m { 0 => "deleted".to_string(), 1 => "duplicated".to_string(), k => format!("replaced by `{}`", ALPHABET[k - 2]) });
    if target == "schema" {
        let st = tokens(&d.schema);
        if index < st.len() {
            p.schema = mutate(&d.schema, st[index], m);
            return (p, what("schema", &d.schema, st[index]));
        }
        let e = d.extension.clone().unwrap_or_default();
        let et = tokens(&e);
        let span = et[index - st.len()];
        p.extension = Some(mutate(&e, span, m));
        return (p, what("schema extension", &e, span));
    }
    let mut seen = 0;
    for (fi, (name, text)) in d.files.iter().enumerate() {
        for (a, z) in literal_spans(text) {
            let lt = tokens(&text[a..z]);
            if index < seen + lt.len() {
                let (ta, tz) = lt[index - seen];
                p.files[fi].1 = mutate(text, (a + ta, a + tz), m);
                return (p, what(name, text, (a + ta, a + tz)));
            }
            seen += lt.len();
        }
    }
    mc_core::machinery_error(&format!("demo {demo}: token index {index} out of range"))
}

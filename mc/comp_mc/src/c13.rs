//! C13 — all generated artifacts are syntactically valid and import-closed.
use crate::driver::Compiled;
use crate::progx::Menu;
use crate::sweep::{self, Ctx, Family, ShardStats};
use crate::tsx;
use mc_core::*;
use serde_json::json;
use std::collections::BTreeSet;

/// resolve `spec` (relative import) against the artifact path `from` (relative to the artifact dir)
fn resolve(from: &str, spec: &str) -> Option<String> {
    let mut parts: Vec<&str> = from.split('/').collect();
    parts.pop();
    for seg in spec.split('/') {
        match seg {
            "." | "" => {}
            ".." => {
                parts.pop()?;
            }
            s => parts.push(s),
        }
    }
    Some(parts.join("/"))
}

pub fn check_artifacts(arts: &[(String, String)], ext_in_imports: bool) -> Vec<(String, String)> {
    let mut fails = vec![];
    let names: BTreeSet<&str> = arts.iter().map(|(p, _)| p.as_str()).collect();
    for (path, content) in arts {
        if path.ends_with(".json") {
            if let Err(e) = serde_json::from_str::<serde_json::Value>(content) {
                fails.push(("json-syntax".to_string(), format!("{path} is not valid JSON: {e}")));
            }
            continue;
        }
        if !path.ends_with(".ts") {
            continue;
        }
        let file = match tsx::load(content) {
            Ok(f) => f,
            Err(e) => {
                let kind = path.rsplit('/').next().unwrap_or(path).trim_end_matches(".ts").trim_start_matches("__refetch__").trim_end_matches(char::is_numeric).to_string();
                fails.push((format!("ts-syntax:{kind}"), format!("{path} does not parse as a TypeScript module: {e}")));
                continue;
            }
        };
        for (_, spec, _) in &file.imports {
            if !spec.starts_with('.') {
                continue; // package import
            }
            let Some(target) = resolve(path, spec) else {
                // climbs out of the artifact directory: a project source file
                continue;
            };
            let candidates = [target.clone(), format!("{target}.ts"), format!("{target}.tsx")];
            // imports that leave the artifact directory (../../../Component) resolve to project sources
            let depth_up = spec.split('/').filter(|s| *s == "..").count();
            let depth_of_file = path.split('/').count() - 1;
            if depth_up > depth_of_file {
                continue;
            }
            if !candidates.iter().any(|c| names.contains(c.as_str())) {
                fails.push(("dangling-import".to_string(), format!("{path} imports '{spec}', which is not a generated artifact")));
            } else if ext_in_imports != spec.ends_with(".ts") {
                fails.push(("import-extension".to_string(), format!("{path} imports '{spec}': file extension option not honoured")));
            }
        }
    }
    fails
}

fn oracle(ctx: &Ctx<'_>, stats: &mut ShardStats) -> Vec<(String, String)> {
    match ctx.result {
        Compiled::Ok(arts) => {
            *stats.extra.entry("ts_files_parsed".into()).or_default() += arts.iter().filter(|a| a.0.ends_with(".ts")).count() as u64;
            let mut fails = check_artifacts(arts, false);
            // narrow the signature of the recorded finding: a negative integer argument yields a
            // response key containing '-', which is not an identifier
            let negative_int = ctx.program.literals().iter().any(|l| l.1.contains(": -"));
            for f in fails.iter_mut() {
                if negative_int && f.0 == "ts-syntax:raw_response_type" {
                    f.0 = "ts-syntax:raw_response_type:negative-integer-argument-in-response-key".to_string();
                }
            }
            fails
        }
        _ => vec![],
    }
}

pub fn main(args: &Args) -> i32 {
    if let Some(sh) = &args.worker {
        sweep::worker(sh, oracle);
        return 0;
    }
    if args.replay.is_some() {
        return sweep::replay(args);
    }
    let mut ev = Evidence::new(args, "exploration");
    let families = vec![
        Family { menu: Menu::General, k: args.tier.pick(4, 5) },
        Family { menu: Menu::Args, k: args.tier.pick(3, 4) },
        Family { menu: Menu::Abstract, k: args.tier.pick(4, 6) },
        Family { menu: Menu::ClientArgs, k: args.tier.pick(3, 4) },
        Family { menu: Menu::Pointers, k: args.tier.pick(3, 4) },
        Family { menu: Menu::Overlap, k: args.tier.pick(2, 3) },
    ];
    let res = sweep::run(args, families);
    let mut verdict = Verdict::new("C13");
    for v in res.violations {
        verdict.add(v);
    }
    verdict.violations.sort_by_key(|v| v.what.len());
    let (code, n_new, known) = verdict.conclude("comp_mc/c13");
    ev.violations = n_new as i64;
    ev.set("evaluations", res.stats.programs)
        .set("distinct_nontrivial", res.stats.accepted)
        .set("rule", "every program of the stated families compiled by the real compiler; every .ts artifact parsed as a TypeScript module with swc_ecma_parser, every .json with serde_json, every relative import resolved against the artifact set; non-trivial = accepted programs")
        .set("families", json!(res.families.iter().map(|(f, n)| json!({"menu": format!("{:?}", f.menu), "k": f.k, "programs": n})).collect::<Vec<_>>()))
        .set("ts_files_parsed", res.stats.extra.get("ts_files_parsed").copied().unwrap_or(0))
        .set("samples", json!(res.stats.samples))
        .set("known_findings_reobserved", json!(known))
        .set("exhaustive", true);
    ev.assume("swc_ecma_parser 3.0.1 in TypeScript mode is the syntax oracle (no tsc in the sandbox); imports that climb out of the artifact directory are project sources and are not checked");
    ev.write();
    println!("comp_mc C13: {} programs ({} accepted), {} .ts files parsed, {} new violation signature(s), known {:?}", res.stats.programs, res.stats.accepted, res.stats.extra.get("ts_files_parsed").copied().unwrap_or(0), n_new, known);
    code
}

//! C13 — all generated artifacts are syntactically valid and import-closed.
use crate::driver::Compiled;
use crate::progx::{Menu, SCHEMA};
use crate::sweep::{self, Ctx, Family, ShardStats};
use crate::tsx;
use mc_core::*;
use serde_json::json;
use std::collections::BTreeSet;

/// resolve `spec` (relative import) against the artifact path `from` (relative to the artifact dir)
fn resolve(from: &str, spec: &str) -> Option<String> {
    let mut parts: Vec<&str> = from.split('/').collect();
    parts.pop();
    for seg in spec.split('/') {
        match seg {
            "." | "" => {}
            ".." => {
                parts.pop()?;
            }
            s => parts.push(s),
        }
    }
    Some(parts.join("/"))
}

pub fn check_artifacts(arts: &[(String, String)], ext_in_imports: bool) -> Vec<(String, String)> {
    let mut fails = vec![];
    let names: BTreeSet<&str> = arts.iter().map(|(p, _)| p.as_str()).collect();
    for (path, content) in arts {
        if path.ends_with(".json") {
            if let Err(e) = serde_json::from_str::<serde_json::Value>(content) {
                fails.push(("json-syntax".to_string(), format!("{path} is not valid JSON: {e}")));
            }
            continue;
        }
        if !path.ends_with(".ts") {
            continue;
        }
        let file = match tsx::load(content) {
            Ok(f) => f,
            Err(e) => {
                let kind = path.rsplit('/').next().unwrap_or(path).trim_end_matches(".ts").trim_start_matches("__refetch__").trim_end_matches(char::is_numeric).to_string();
                fails.push((format!("ts-syntax:{kind}"), format!("{path} does not parse as a TypeScript module: {e}")));
                continue;
            }
        };
        for (_, spec, _) in &file.imports {
            if !spec.starts_with('.') {
                continue; // package import
            }
            let Some(target) = resolve(path, spec) else {
                // climbs out of the artifact directory: a project source file
                continue;
            };
            let candidates = [target.clone(), format!("{target}.ts"), format!("{target}.tsx")];
            // imports that leave the artifact directory (../../../Component) resolve to project sources
            let depth_up = spec.split('/').filter(|s| *s == "..").count();
            let depth_of_file = path.split('/').count() - 1;
            if depth_up > depth_of_file {
                continue;
            }
            if !candidates.iter().any(|c| names.contains(c.as_str())) {
                fails.push(("dangling-import".to_string(), format!("{path} imports '{spec}', which is not a generated artifact")));
            } else if ext_in_imports != spec.ends_with(".ts") {
                fails.push(("import-extension".to_string(), format!("{path} imports '{spec}': file extension option not honoured")));
            }
        }
    }
    fails
}

/// option sets under which every program is compiled again: (name, options, file extensions in imports)
fn configurations(small: bool) -> Vec<(&'static str, serde_json::Value, bool)> {
    let persisted = json!({"file": "./persisted.json", "algorithm": "md5", "include_extra_info": true});
    let mut out = vec![("all-options", json!({"module": "commonjs", "include_file_extensions_in_import_statements": true, "no_babel_transform": true, "generated_file_header": "generated file", "persisted_documents": persisted}), true)];
    if small {
        out.extend([
            ("module-commonjs", json!({"module": "commonjs"}), false),
            ("file-extensions", json!({"include_file_extensions_in_import_statements": true}), true),
            ("no-babel-transform", json!({"no_babel_transform": true}), false),
            ("header", json!({"generated_file_header": "generated file"}), false),
            ("header-with-comment-terminator", json!({"generated_file_header": "a */ b /* c"}), false),
            ("header-with-quotes", json!({"generated_file_header": "it's \"quoted\" \\ `x` ${y}"}), false),
            ("persisted-documents", json!({"persisted_documents": persisted}), false),
            ("persisted-documents+file-extensions+commonjs", json!({"persisted_documents": persisted, "include_file_extensions_in_import_statements": true, "module": "commonjs"}), true),
            ("no-babel-transform+file-extensions", json!({"no_babel_transform": true, "include_file_extensions_in_import_statements": true}), true),
        ]);
    }
    out
}

/// the universe schema with a description containing comment terminators, quotes, backslashes, template
/// syntax and line terminators in front of every type, field, argument and enum value that takes one
pub fn hostile_schema() -> String {
    let desc = "\"\"\"\nends */ a comment, /* opens one, 'single' \\\"double\\\" `tick` ${template} \\n backslash-n // line\n\"\"\"\n";
    let mut out = String::new();
    let mut in_block = false;
    for line in SCHEMA.lines() {
        let t = line.trim_start();
        // drop the schema's own descriptions
        if t.starts_with("\"\"\"") {
            in_block = !in_block || t.len() > 3 && t.ends_with("\"\"\"");
            if t.len() > 3 && t.ends_with("\"\"\"") {
                in_block = false;
            }
            continue;
        }
        if in_block || t.starts_with('"') {
            continue;
        }
        let indent = &line[..line.len() - t.len()];
        let is_def = ["type ", "interface ", "union ", "enum ", "input ", "scalar "].iter().any(|k| t.starts_with(k));
        let is_member = !indent.is_empty() && t.chars().next().is_some_and(|c| c.is_ascii_alphabetic() || c == '_');
        if (is_def || is_member) && !t.starts_with("query:") && !t.starts_with("mutation:") {
            for d in desc.lines() {
                out.push_str(indent);
                out.push_str(d);
                out.push('\n');
            }
        }
        out.push_str(line);
        out.push('\n');
    }
    out
}

fn oracle(ctx: &Ctx<'_>, stats: &mut ShardStats) -> Vec<(String, String)> {
    match ctx.result {
        Compiled::Ok(arts) => {
            *stats.extra.entry("ts_files_parsed".into()).or_default() += arts.iter().filter(|a| a.0.ends_with(".ts")).count() as u64;
            let mut fails = check_artifacts(arts, false);
            // the same program under other option sets and over the schema with hostile descriptions
            let small = ctx.program.literals().iter().map(|l| l.1.lines().count()).sum::<usize>() <= 8;
            let vdir = ctx.dir.with_file_name("config-variant");
            let mut variants: Vec<(String, crate::project::Project, bool)> = configurations(small).into_iter().map(|(n, o, e)| { let mut p = ctx.program.project(); p.options = o; (format!("options:{n}"), p, e) }).collect();
            let mut p = ctx.program.project();
            p.schema = hostile_schema();
            variants.push(("schema-descriptions".to_string(), p, false));
            for (name, p, ext) in variants {
                p.write_to(&vdir);
                *stats.extra.entry("configurations".into()).or_default() += 1;
                match crate::driver::compile_dir(&vdir) {
                    Compiled::Ok(varts) => {
                        *stats.extra.entry("ts_files_parsed".into()).or_default() += varts.iter().filter(|a| a.0.ends_with(".ts")).count() as u64;
                        let negative_int = ctx.program.literals().iter().any(|l| l.1.contains(": -"));
                        for (sig, what) in check_artifacts(&varts, ext) {
                            if negative_int && sig == "ts-syntax:raw_response_type" {
                                // the recorded response-key finding, reported for the base compile
                                continue;
                            }
                            fails.push((format!("{sig}:{name}"), format!("[{name}] {what}")));
                        }
                    }
                    Compiled::Diagnostics(d) => fails.push((format!("variant-rejected:{name}"), format!("accepted program is rejected under {name}: {}", d.first().cloned().unwrap_or_default().lines().next().unwrap_or("")))),
                    Compiled::Panic(m) => fails.push((format!("variant-panic:{name}"), m)),
                }
            }
            let _ = std::fs::remove_dir_all(&vdir);
            // narrow the signature of the recorded finding: a negative integer argument yields a
            // response key containing '-', which is not an identifier
            let negative_int = ctx.program.literals().iter().any(|l| l.1.contains(": -"));
            for f in fails.iter_mut() {
                if negative_int && f.0 == "ts-syntax:raw_response_type" {
                    f.0 = "ts-syntax:raw_response_type:negative-integer-argument-in-response-key".to_string();
                }
            }
            fails
        }
        _ => vec![],
    }
}

pub fn main(args: &Args) -> i32 {
    if let Some(sh) = &args.worker {
        sweep::worker(sh, oracle);
        return 0;
    }
    let demo_check = |d: &crate::demos::Demo| check_artifacts(&d.arts, d.config["options"]["include_file_extensions_in_import_statements"].as_bool().unwrap_or(false));
    if let Some(code) = crate::demos::replay_if_demo(args, &demo_check) {
        return code;
    }
    if args.replay.is_some() {
        return sweep::replay(args);
    }
    let mut ev = Evidence::new(args, "exploration");
    let families = vec![
        Family { menu: Menu::General, k: args.tier.pick(4, 6) },
        Family { menu: Menu::Args, k: args.tier.pick(3, 5) },
        Family { menu: Menu::Abstract, k: args.tier.pick(4, 6) },
        Family { menu: Menu::ClientArgs, k: args.tier.pick(3, 5) },
        Family { menu: Menu::Pointers, k: args.tier.pick(3, 5) },
        Family { menu: Menu::Overlap, k: args.tier.pick(2, 3) },
        Family { menu: Menu::Lists, k: args.tier.pick(3, 4) },
    ];
    let res = sweep::run(args, families);
    let mut verdict = Verdict::new("C13");
    for v in res.violations {
        verdict.add(v);
    }
    let (demo_violations, demo_artifacts) = crate::demos::violations(&demo_check);
    for v in demo_violations {
        verdict.add(v);
    }
    verdict.violations.sort_by_key(|v| v.what.len());
    let (code, n_new, known) = verdict.conclude("comp_mc/c13");
    ev.violations = n_new as i64;
    ev.set("demo_projects", json!(crate::demos::DEMOS)).set("demo_artifacts", demo_artifacts);
    ev.set("evaluations", res.stats.programs)
        .set("distinct_nontrivial", res.stats.accepted)
        .set("rule", "every program of the stated families compiled by the real compiler; every .ts artifact parsed as a TypeScript module with swc_ecma_parser, every .json with serde_json, every relative import resolved against the artifact set; every accepted program again under the all-options configuration and over the schema with hostile descriptions (comment terminators, quotes, backslashes, template syntax), small programs (<= 8 literal lines) under every listed option set; non-trivial = accepted programs")
        .set("families", json!(res.families.iter().map(|(f, n)| json!({"menu": format!("{:?}", f.menu), "k": f.k, "programs": n})).collect::<Vec<_>>()))
        .set("ts_files_parsed", res.stats.extra.get("ts_files_parsed").copied().unwrap_or(0))
        .set("configurations_compiled", res.stats.extra.get("configurations").copied().unwrap_or(0))
        .set("configurations", json!(configurations(true).iter().map(|c| c.0).chain(["schema-descriptions"]).collect::<Vec<_>>()))
        .set("samples", json!(res.stats.samples))
        .set("known_findings_reobserved", json!(known))
        .set("exhaustive", true);
    ev.assume("swc_ecma_parser 3.0.1 in TypeScript mode is the syntax oracle (no tsc in the sandbox); imports that climb out of the artifact directory are project sources and are not checked");
    ev.write();
    println!("comp_mc C13: {} programs ({} accepted), {} .ts files parsed, {} new violation signature(s), known {:?}", res.stats.programs, res.stats.accepted, res.stats.extra.get("ts_files_parsed").copied().unwrap_or(0), n_new, known);
    code
}

//! Generated GraphQL schemas (C08: "for every schema"): a product of small structural dimensions
//! (root type names, the shape of `id`, Node interface, unions / interfaces, @exposeField forms,
//! nested lists, recursive input objects) with a program that adapts to what the schema offers.
//! A program need not be valid: C08 demands no crash and, if rejected, a diagnostic.
use crate::project::{Project, source_file};

pub const DIMS: [usize; 8] = [2, 4, 2, 4, 7, 2, 2, 3];

pub fn count() -> usize {
    DIMS.iter().product()
}

pub fn decode(mut code: usize) -> [usize; 8] {
    let mut v = [0; 8];
    for (i, d) in DIMS.iter().enumerate() {
        v[i] = code % d;
        code /= d;
    }
    v
}

pub fn build(code: usize) -> (Project, String) {
    let [root, id, node, abs, expose, lists, input, shape] = decode(code);
    let (q, m) = if root == 1 { ("RootQ", "RootM") } else { ("Query", "Mutation") };
    let id_field = match id {
        0 => "  id: ID!\n",
        1 => "  id: ID\n",
        2 => "  id: String!\n",
        _ => "",
    };
    let has_node = node == 0;
    let mut implements: Vec<&str> = vec![];
    if has_node && id != 3 {
        implements.push("Node");
    }
    if abs == 2 {
        implements.push("Named");
    }
    let imp = if implements.is_empty() { String::new() } else { format!(" implements {}", implements.join(" & ")) };
    let mut s = String::new();
    if root == 1 {
        s.push_str("schema {\n  query: RootQ\n  mutation: RootM\n}\n\n");
    }
    s.push_str(&format!("type {q} {{\n  me: User!\n  user(id: ID!): User\n  count: Int\n"));
    if has_node {
        s.push_str("  node(id: ID!): Node\n");
    }
    match abs {
        1 => s.push_str("  search(text: String!): [SearchResult]\n"),
        2 => s.push_str("  named(name: String): Named\n"),
        3 => s.push_str("  lonely: Lonely\n"),
        _ => {}
    }
    if lists == 1 {
        s.push_str("  matrix: [[Int!]]!\n");
    }
    if input == 1 {
        s.push_str("  filtered(filter: Filter, filters: [Filter!]): [User!]!\n");
    }
    s.push_str("}\n\n");
    if has_node {
        s.push_str("interface Node {\n  id: ID!\n}\n\n");
    }
    s.push_str(&format!("\"\"\"\nA user\n\"\"\"\ntype User{imp} {{\n{id_field}  name: String!\n  bestFriend: User\n  pets: [Pet!]!\n"));
    if lists == 1 {
        s.push_str("  tags: [String]\n  grid: [[User]]\n");
    }
    s.push_str("}\n\n");
    s.push_str(&format!("type Pet{imp} {{\n{id_field}  name: String!\n  owner: User\n}}\n\n"));
    match abs {
        1 => s.push_str("union SearchResult = User | Pet\n\n"),
        2 => s.push_str("interface Named {\n  name: String!\n}\n\n"),
        3 => s.push_str("interface Lonely {\n  name: String\n}\n\n"),
        _ => {}
    }
    if input == 1 {
        s.push_str("input Filter {\n  and: [Filter!]\n  not: Filter\n  eq: Int\n  name: String = \"x\"\n}\n\n");
    }
    s.push_str(&format!("type {m} {{\n  set_name(id: ID!, name: String!): SetNameResponse!\n  find(id: ID!): FindResponse\n}}\n\ntype SetNameResponse {{\n  user: User!\n  ok: Boolean\n}}\n\ntype FindResponse {{\n  user: User\n{}}}\n", if has_node { "  node: Node\n" } else { "" }));
    let extension = match expose {
        0 => None,
        1 => Some(format!("extend type {m}\n  @exposeField(field: \"set_name.user\", fieldMap: [{{ from: \"id\", to: \"id\" }}])\n")),
        2 => Some(format!("extend type {m}\n  @exposeField(field: \"set_name.user\")\n")),
        3 => Some(format!("extend type {m}\n  @exposeField(field: \"set_name.user\", as: \"rename\", fieldMap: [{{ from: \"id\", to: \"id\" }}])\n")),
        4 => Some(format!("extend type {m}\n  @exposeField(field: \"find.node.asUser\", fieldMap: [{{ from: \"id\", to: \"id\" }}])\n")),
        5 => Some(format!("extend type {m}\n  @exposeField(field: \"set_name.ok\")\n")),
        _ => Some(format!("extend type {m}\n  @exposeField(field: \"set_name.user\", fieldMap: [{{ from: \"id\", to: \"id\" }}])\n  @exposeField(field: \"find.user\", as: \"found\", fieldMap: [{{ from: \"id\", to: \"id\" }}])\n")),
    };
    // ---- the program
    let exposed_name = match expose {
        1 | 2 | 6 => Some("set_name"),
        3 => Some("rename"),
        4 if has_node => Some("find"),
        _ => None,
    };
    let idsel = if id != 3 { "    id\n" } else { "" };
    let mut user_sel = format!("{idsel}    name\n");
    if lists == 1 {
        user_sel.push_str("    tags\n    grid {\n      name\n    }\n");
    }
    let mut root_sel = String::new();
    match abs {
        1 => root_sel.push_str("  search(text: \"t\") {\n    __typename\n    asUser {\n      name\n    }\n  }\n"),
        2 => root_sel.push_str("  named(name: \"n\") {\n    name\n    asPet {\n      name\n    }\n  }\n"),
        3 => root_sel.push_str("  lonely {\n    name\n  }\n"),
        _ => {}
    }
    if lists == 1 {
        root_sel.push_str("  matrix\n");
    }
    if input == 1 {
        root_sel.push_str("  filtered(filter: {not: {eq: $n, not: {eq: 1}}, and: $fs, name: \"y\"}, filters: $fs) {\n    name\n  }\n");
    }
    if has_node {
        root_sel.push_str("  node(id: \"1\") {\n    id\n    asUser {\n      name\n    }\n  }\n");
    }
    let vars = if input == 1 { "($n: Int, $fs: [Filter!])" } else { "" };
    let mut lits: Vec<(Option<&str>, String)> = vec![];
    match shape {
        0 => lits.push((Some("Root"), format!("field {q}.Root{vars} {{\n  me {{\n{user_sel}  }}\n  count\n{root_sel}}}"))),
        1 => {
            let mut child = String::from("  name\n");
            if id != 3 {
                child.push_str("  __refetch\n");
            }
            if let Some(e) = exposed_name {
                child.push_str(&format!("  {e}\n"));
            }
            child.push_str("  bestFriend {\n    Inner @loadable\n  }\n  pets {\n    name\n  }\n");
            lits.push((Some("Root"), format!("field {q}.Root{vars} @component {{\n  me {{\n    Child\n  }}\n  user(id: \"2\") {{\n    Child\n{idsel}  }}\n{root_sel}}}")));
            lits.push((Some("Child"), format!("field User.Child {{\n{child}}}")));
            lits.push((Some("Inner"), format!("field User.Inner @component {{\n{}  name\n}}", if id != 3 { "  id\n" } else { "" })));
        }
        _ => {
            lits.push((Some("Root"), format!("field {q}.Root{vars} {{\n  best {{\n    name\n    bestPet {{\n      name\n    }}\n  }}\n{root_sel}}}")));
            lits.push((Some("best"), format!("pointer {q}.best to User {{\n  me {{\n    __link\n  }}\n}}")));
            lits.push((Some("bestPet"), "pointer User.bestPet to Pet {\n  pets {\n    __link\n    name\n  }\n}".to_string()));
        }
    }
    lits.push((None, format!("entrypoint {q}.Root")));
    let desc = format!("schema variant root={root} id={id} node={node} abstract={abs} expose={expose} lists={lists} input={input} shape={shape}");
    (Project { schema: s, extension, files: vec![("a.ts".to_string(), source_file(&lits))], options: serde_json::json!({}) }, desc)
}

//! C11 — normalization ASTs describe exactly the operation they accompany.
//!
//! Both artifacts are projected to one canonical selection tree (field name, ordered argument
//! list with canonical values, inline fragment type, children) and compared; `concreteType` must
//! be a string exactly when the schema type of the field is an object type.
use crate::c09::operation_texts;
use crate::driver::Compiled;
use crate::gql::{Kind, Schema};
use crate::progx::{Menu, SCHEMA};
use crate::sweep::{self, Ctx, Family, ShardStats};
use crate::tsx::{self, Val};
use common::SourceLocationKey;
use graphql_syntax::*;
use mc_core::*;
use serde_json::json;

fn value_from_gql(v: &Value) -> String {
    match v {
        Value::Variable(x) => format!("${}", x.name),
        Value::Constant(c) => const_from_gql(c),
        Value::List(l) => format!("[{}]", l.items.iter().map(value_from_gql).collect::<Vec<_>>().join(",")),
        Value::Object(o) => format!("{{{}}}", o.items.iter().map(|a| format!("{}:{}", a.name.value, value_from_gql(&a.value))).collect::<Vec<_>>().join(",")),
    }
}
fn const_from_gql(c: &ConstantValue) -> String {
    match c {
        ConstantValue::Int(i) => i.value.to_string(),
        ConstantValue::Float(f) => f.source_value.to_string(),
        ConstantValue::String(s) => format!("{:?}", unescape(&s.value.to_string())),
        ConstantValue::Boolean(b) => b.value.to_string(),
        ConstantValue::Null(_) => "null".into(),
        ConstantValue::Enum(e) => format!("enum:{}", e.value),
        ConstantValue::List(l) => format!("[{}]", l.items.iter().map(const_from_gql).collect::<Vec<_>>().join(",")),
        ConstantValue::Object(o) => format!("{{{}}}", o.items.iter().map(|a| format!("{}:{}", a.name.value, const_from_gql(&a.value))).collect::<Vec<_>>().join(",")),
    }
}

/// GraphQL string escapes (the relay lexer keeps the source text of the string)
fn unescape(s: &str) -> String {
    let mut out = String::new();
    let mut it = s.chars();
    while let Some(c) = it.next() {
        if c != '\\' {
            out.push(c);
            continue;
        }
        match it.next() {
            Some('n') => out.push('\n'),
            Some('t') => out.push('\t'),
            Some('r') => out.push('\r'),
            Some('b') => out.push('\u{8}'),
            Some('f') => out.push('\u{c}'),
            Some('u') => {
                let hex: String = it.by_ref().take(4).collect();
                out.push(u32::from_str_radix(&hex, 16).ok().and_then(char::from_u32).unwrap_or('?'));
            }
            Some(other) => out.push(other),
            None => {}
        }
    }
    out
}

fn value_from_ast(v: &Val) -> String {
    let kind = v.get("kind").and_then(|k| k.str()).unwrap_or("?");
    match kind {
        "Variable" => format!("${}", v.get("name").and_then(|n| n.str()).unwrap_or("?")),
        "Literal" => match v.get("value") {
            Some(Val::Num(n)) => {
                if n.fract() == 0.0 { format!("{}", *n as i64) } else { n.to_string() }
            }
            Some(Val::Bool(b)) => b.to_string(),
            Some(Val::Null) => "null".into(),
            other => format!("?{other:?}"),
        },
        "String" => format!("{:?}", v.get("value").and_then(|s| s.str()).unwrap_or("?")),
        "Enum" => format!("enum:{}", v.get("value").and_then(|s| s.str()).unwrap_or("?")),
        "Object" => format!(
            "{{{}}}",
            v.get("value").and_then(|a| a.arr()).unwrap_or(&[]).iter().map(|pair| { let p = pair.arr().unwrap_or(&[]); format!("{}:{}", p.first().and_then(|n| n.str()).unwrap_or("?"), p.get(1).map(value_from_ast).unwrap_or_default()) }).collect::<Vec<_>>().join(",")
        ),
        other => format!("?kind {other}"),
    }
}

/// canonical tree of an operation's selections; also returns (path, field type name) for concreteType checks
fn tree_from_gql(sels: &[Selection], indent: usize, out: &mut Vec<String>) {
    for s in sels {
        let pad = " ".repeat(indent);
        match s {
            Selection::ScalarField(f) => out.push(format!("{pad}{}({})", f.name.value, f.arguments.iter().flat_map(|l| l.items.iter()).map(|a| format!("{}:{}", a.name.value, value_from_gql(&a.value))).collect::<Vec<_>>().join(","))),
            Selection::LinkedField(f) => {
                out.push(format!("{pad}{}({}) {{", f.name.value, f.arguments.iter().flat_map(|l| l.items.iter()).map(|a| format!("{}:{}", a.name.value, value_from_gql(&a.value))).collect::<Vec<_>>().join(",")));
                tree_from_gql(&f.selections.items, indent + 1, out);
            }
            Selection::InlineFragment(fr) => {
                out.push(format!("{pad}... on {} {{", fr.type_condition.as_ref().map(|t| t.type_.value.to_string()).unwrap_or_default()));
                tree_from_gql(&fr.selections.items, indent + 1, out);
            }
            Selection::FragmentSpread(sp) => out.push(format!("{pad}...{}", sp.name.value)),
        }
    }
}

fn args_from_ast(n: &Val) -> String {
    match n.get("arguments") {
        Some(Val::Arr(a)) => a.iter().map(|pair| { let p = pair.arr().unwrap_or(&[]); format!("{}:{}", p.first().and_then(|n| n.str()).unwrap_or("?"), p.get(1).map(value_from_ast).unwrap_or_default()) }).collect::<Vec<_>>().join(","),
        _ => String::new(),
    }
}

fn tree_from_ast(sels: &[Val], indent: usize, out: &mut Vec<String>, parent: &str, schema: &Schema, problems: &mut Vec<(String, String)>) {
    for n in sels {
        let pad = " ".repeat(indent);
        let kind = n.get("kind").and_then(|k| k.str()).unwrap_or("?");
        match kind {
            "Scalar" => out.push(format!("{pad}{}({})", n.get("fieldName").and_then(|f| f.str()).unwrap_or("?"), args_from_ast(n))),
            "Linked" => {
                let name = n.get("fieldName").and_then(|f| f.str()).unwrap_or("?");
                out.push(format!("{pad}{}({}) {{", name, args_from_ast(n)));
                let ty = schema.field(parent, name).map(|f| f.ty.named().to_string());
                if let Some(ty) = &ty {
                    let is_object = schema.types.get(ty).is_some_and(|t| t.kind == Kind::Object);
                    match (n.get("concreteType"), is_object) {
                        (Some(Val::Str(c)), true) if c == ty => {}
                        (Some(Val::Null), false) => {}
                        (other, _) => problems.push(("concrete-type".into(), format!("field {parent}.{name} has schema type {ty} ({}) but concreteType is {other:?}", if is_object { "object" } else { "abstract" }))),
                    }
                }
                tree_from_ast(n.get("selections").and_then(|s| s.arr()).unwrap_or(&[]), indent + 1, out, ty.as_deref().unwrap_or("?"), schema, problems);
            }
            "InlineFragment" => {
                let ty = n.get("type").and_then(|f| f.str()).unwrap_or("?");
                out.push(format!("{pad}... on {ty} {{"));
                tree_from_ast(n.get("selections").and_then(|s| s.arr()).unwrap_or(&[]), indent + 1, out, ty, schema, problems);
            }
            other => out.push(format!("{pad}?{other}")),
        }
    }
}

/// remove every `... on T {` line whose T is an interface or union, de-indenting its children
fn strip_abstract_type_conditions(a: &[String], schema: &Schema) -> Vec<String> {
    let mut out: Vec<String> = vec![];
    // indents of the removed wrappers still open
    let mut open: Vec<usize> = vec![];
    for l in a {
        let indent = l.len() - l.trim_start().len();
        while open.last().is_some_and(|o| indent <= *o) {
            open.pop();
        }
        let t = l.trim();
        if let Some(ty) = t.strip_prefix("... on ").and_then(|r| r.strip_suffix(" {"))
            && schema.types.get(ty).is_some_and(|t| matches!(t.kind, Kind::Interface | Kind::Union))
        {
            open.push(indent);
            continue;
        }
        out.push(format!("{}{}", " ".repeat(indent - open.len()), t));
    }
    out
}

pub fn check(arts: &[(String, String)], schema: &Schema) -> (u64, Vec<(String, String)>) {
    let mut fails = vec![];
    let mut pairs = 0;
    for (path, text) in operation_texts(arts) {
        let Ok(text) = text else { continue };
        // the companion normalization ast: query_text.ts <-> normalization_ast.ts ; __refetch__query_text__N.ts <-> __refetch__N.ts
        let ast_path = if path.ends_with("/query_text.ts") { path.replace("/query_text.ts", "/normalization_ast.ts") } else { path.replace("__refetch__query_text__", "__refetch__") };
        let Some((_, ast_src)) = arts.iter().find(|(p, _)| *p == ast_path) else {
            fails.push(("missing-normalization-ast".to_string(), format!("{path} has no companion {ast_path}")));
            continue;
        };
        let Ok(doc) = parse_executable(&text, SourceLocationKey::Generated) else { continue }; // C09's business
        let Some(ExecutableDefinition::Operation(op)) = doc.definitions.first() else { continue };
        let root = match op.operation_kind() {
            OperationKind::Query => "Query",
            OperationKind::Mutation => "Mutation",
            OperationKind::Subscription => "Subscription",
        };
        let file = match tsx::load(ast_src) {
            Ok(f) => f,
            Err(_) => continue, // C13's business
        };
        // the AST is the default export (entrypoints) or nested in the refetch artifact
        let ast = file.consts.get("normalizationAst").cloned().or(file.default_export.clone()).unwrap_or(Val::Null);
        let ast = if ast.get("selections").is_some() { ast } else { ast.get("networkRequestInfo").and_then(|n| n.get("normalizationAst")).cloned().unwrap_or(ast) };
        let Some(sels) = ast.get("selections").and_then(|s| s.arr()) else {
            fails.push(("unreadable-normalization-ast".to_string(), format!("{ast_path}: no selections found")));
            continue;
        };
        pairs += 1;
        let mut a = vec![];
        tree_from_gql(&op.selections.items, 0, &mut a);
        let mut b = vec![];
        let mut problems = vec![];
        tree_from_ast(sels, 0, &mut b, root, schema, &mut problems);
        if a != b {
            let first = a.iter().zip(b.iter()).position(|(x, y)| x != y).unwrap_or(a.len().min(b.len()));
            // the refetch query of a client pointer whose target is an abstract type wraps its selections in
            // `... on <Abstract>` in the text only: the runtime's InlineFragment normalization compares
            // __typename with the type condition for equality, which an abstract condition never satisfies
            let stripped = strip_abstract_type_conditions(&a, schema);
            if stripped != a && stripped == b && path.contains("__refetch__") {
                fails.push(("abstract-type-condition-omitted-in-refetch-normalization-ast".to_string(), format!("{path} vs {ast_path}: the operation refines to an abstract type ({}), the normalization AST has no InlineFragment node there; otherwise equal", a.iter().find(|l| l.trim_start().starts_with("... on ")).map(|l| l.trim()).unwrap_or(""))));
                continue;
            }
            let class = if a.get(first).is_some_and(|l| l.trim_start().starts_with("__typename")) || b.get(first).is_some_and(|l| l.trim_start().starts_with("__typename")) { "tree-differs:__typename" } else { "tree-differs" };
            fails.push((class.to_string(), format!("{path} vs {ast_path}: operation has {:?}, normalization AST has {:?} at line {first}", a.get(first), b.get(first))));
        }
        for (c, m) in problems {
            fails.push((c, format!("{ast_path}: {m}")));
        }
    }
    (pairs, fails)
}

fn oracle(ctx: &Ctx<'_>, stats: &mut ShardStats) -> Vec<(String, String)> {
    thread_local! {
        static SCHEMA_MODEL: Schema = Schema::parse(SCHEMA).unwrap_or_else(|e| machinery_error(&format!("universe schema does not parse: {e}")));
    }
    match ctx.result {
        Compiled::Ok(arts) => {
            let (pairs, fails) = SCHEMA_MODEL.with(|s| check(arts, s));
            *stats.extra.entry("pairs_compared".into()).or_default() += pairs;
            fails
        }
        _ => vec![],
    }
}

pub fn main(args: &Args) -> i32 {
    if let Some(sh) = &args.worker {
        sweep::worker(sh, oracle);
        return 0;
    }
    let demo_check = |d: &crate::demos::Demo| check(&d.arts, &d.schema).1;
    if let Some(code) = crate::demos::replay_if_demo(args, &demo_check) {
        return code;
    }
    if args.replay.is_some() {
        return sweep::replay(args);
    }
    let mut ev = Evidence::new(args, "exploration");
    let families = vec![
        Family { menu: Menu::General, k: args.tier.pick(4, 6) },
        Family { menu: Menu::Args, k: args.tier.pick(3, 5) },
        Family { menu: Menu::Abstract, k: args.tier.pick(4, 6) },
        Family { menu: Menu::ClientArgs, k: args.tier.pick(3, 5) },
        Family { menu: Menu::Pointers, k: args.tier.pick(3, 5) },
        Family { menu: Menu::Overlap, k: args.tier.pick(2, 3) },
        Family { menu: Menu::Lists, k: args.tier.pick(3, 4) },
    ];
    let res = sweep::run(args, families);
    let mut verdict = Verdict::new("C11");
    let (demo_violations, demo_artifacts) = crate::demos::violations(&demo_check);
    for v in res.violations.into_iter().chain(demo_violations) {
        verdict.add(v);
    }
    verdict.violations.sort_by_key(|v| v.what.len());
    let (code, n_new, known) = verdict.conclude("comp_mc/c11");
    ev.violations = n_new as i64;
    let pairs = res.stats.extra.get("pairs_compared").copied().unwrap_or(0);
    ev.set("demo_projects", json!(crate::demos::DEMOS)).set("demo_artifacts", demo_artifacts);
    ev.set("evaluations", res.stats.programs)
        .set("distinct_nontrivial", res.stats.accepted)
        .set("rule", "every accepted program of the stated families; each (operation text, normalization AST) pair of entrypoints and refetch queries projected to a canonical selection tree and compared; concreteType checked against the schema")
        .set("families", json!(res.families.iter().map(|(f, n)| json!({"menu": format!("{:?}", f.menu), "k": f.k, "programs": n})).collect::<Vec<_>>()))
        .set("pairs_compared", pairs)
        .set("samples", json!(res.stats.samples))
        .set("known_findings_reobserved", json!(known))
        .set("exhaustive", true);
    ev.write();
    if pairs < 100 {
        machinery_error("vacuous: fewer than 100 operation/AST pairs compared");
    }
    println!("comp_mc C11: {} programs ({} accepted), {} operation/AST pairs compared, {} new violation signature(s), known {:?}", res.stats.programs, res.stats.accepted, pairs, n_new, known);
    code
}

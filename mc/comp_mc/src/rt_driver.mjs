// Driver for the blanked isograph-react runtime (C10, C25). Usage: node rt_driver.mjs <job.json>
// job = { runtime: <dir with index.mjs>, mode: 'read' | 'refetch', pointers: {<fieldName>: {list: bool}},
//         cases: [...] }   -> one JSON document on stdout: { results: [...] }
import fs from 'node:fs';

const job = JSON.parse(fs.readFileSync(process.argv[2], 'utf8'));

// ---- stand-ins for user code ---------------------------------------------------------------------
function isLink(x) {
  return x != null && typeof x === 'object' && typeof x.__link === 'string' && typeof x.__typename === 'string' && Object.keys(x).length === 2;
}
function collectLinks(x, out) {
  if (x == null || typeof x !== 'object') return;
  if (isLink(x)) { out.push(x); return; }
  if (Array.isArray(x)) { for (const y of x) collectLinks(y, out); return; }
  for (const k of Object.keys(x)) collectLinks(x[k], out);
}
// A client field resolver returns its data; a client pointer resolver returns link(s) it read.
const counts = { clientFieldResolverCalls: 0, pointerResolverCalls: 0, pointerLinksReturned: 0, componentFragments: 0 };
globalThis.__verifResolver = (module, name) => {
  const f = function verifResolver(p) {
    if (f.__pointer == null) { counts.clientFieldResolverCalls++; return p.data; }
    counts.pointerResolverCalls++;
    const links = [];
    collectLinks(p.data, links);
    counts.pointerLinksReturned += f.__pointer.list ? links.length : Math.min(1, links.length);
    if (f.__pointer.list) return links;
    return links.length > 0 ? links[0] : null;
  };
  f.__module = module;
  f.__name = name;
  f.__pointer = null;
  return f;
};

const rt = await import('file://' + job.runtime + '/index.mjs');
for (const name of ['createIsographEnvironmentCore', 'createIsographStore', 'writeData', 'readButDoNotEvaluate', 'ROOT_ID', 'getOrLoadReaderWithRefetchQueries', 'wrapResolvedValue', 'readPromise']) {
  if (rt[name] === undefined) {
    console.error('MACHINERY: runtime export missing: ' + name);
    process.exit(3);
  }
}

const NETWORK_OPTIONS = { suspendIfInFlight: false, throwOnNetworkError: true };

// ---- walking reader ASTs (marks pointer resolvers; used by both modes) -------------------------------
const marked = new Set();
function markPointers(readerAst) {
  if (readerAst == null || marked.has(readerAst)) return;
  marked.add(readerAst);
  for (const node of readerAst) {
    switch (node.kind) {
      case 'Linked': {
        if (node.condition != null) {
          const art = node.condition();
          const p = job.pointers[art.fieldName];
          if (typeof art.resolver === 'function' && '__pointer' in art.resolver) {
            art.resolver.__pointer = { list: p != null ? p.list : false };
          }
          markPointers(art.readerAst);
        }
        markPointers(node.selections);
        break;
      }
      case 'Resolver':
        markPointers(node.readerArtifact().readerAst);
        break;
      case 'ImperativelyLoadedField':
        markPointers(node.refetchReaderArtifact.readerAst);
        break;
      case 'LoadablySelectedField':
        markPointers(node.refetchReaderAst);
        if (node.entrypoint.kind === 'Entrypoint') markEntrypoint(node.entrypoint);
        break;
    }
  }
}
const markedEntrypoints = new Set();
function markEntrypoint(ep) {
  if (markedEntrypoints.has(ep)) return;
  markedEntrypoints.add(ep);
  const r = ep.readerWithRefetchQueries;
  if (r.kind === 'ReaderWithRefetchQueries') markPointers(r.readerArtifact().readerAst);
}

function fnv(s) {
  let h = 0x811c9dc5;
  for (let i = 0; i < s.length; i++) { h ^= s.charCodeAt(i); h = Math.imul(h, 0x01000193) >>> 0; }
  return h.toString(16);
}
function shapeOf(x) {
  return JSON.stringify(x, (k, v) => (typeof v === 'function' ? '<fn>' : v));
}
function reasons(r) {
  const out = [];
  while (r != null && r.kind === 'MissingData') { out.push(r.reason); r = r.nestedReason; }
  return out;
}

const entrypointCache = new Map();
async function loadEntrypoint(file) {
  if (!entrypointCache.has(file)) {
    const mod = await import('file://' + file);
    let ep = mod.default;
    if (ep == null || ep.kind !== 'Entrypoint') throw new Error('not an entrypoint artifact: ' + file);
    // lazily loaded parts are loaded here, as the runtime would on first use
    if (ep.networkRequestInfo.normalizationAst.kind === 'NormalizationAstLoader') {
      const ast = await ep.networkRequestInfo.normalizationAst.loader();
      ep = { ...ep, networkRequestInfo: { ...ep.networkRequestInfo, normalizationAst: ast } };
    }
    if (ep.readerWithRefetchQueries.kind === 'ReaderWithRefetchQueriesLoader') {
      const r = await ep.readerWithRefetchQueries.loader();
      ep = { ...ep, readerWithRefetchQueries: r };
    }
    markEntrypoint(ep);
    entrypointCache.set(file, ep);
  }
  return entrypointCache.get(file);
}

function makeEnvironment(networkFunction) {
  const state = { lastDone: null, components: [] };
  const componentFunction = (environment, fragmentReference, networkRequestOptions, startUpdate) => {
    // the real componentFunction (react/useReadAndSubscribe.ts) reads the fragment when the component renders
    state.components.push(fragmentReference);
    counts.componentFragments++;
    const Component = () => null;
    Component.__fragmentReference = fragmentReference;
    return Component;
  };
  const log = (m) => { if (m.kind === 'DoneReading') state.lastDone = m; };
  const env = rt.createIsographEnvironmentCore(rt.createIsographStore(), networkFunction, componentFunction, null, log);
  return [env, state];
}

/// read one fragment the way a render does; returns {ok, item} | {missing: [...]} | {throws: msg}
function readFragment(env, state, fragmentReference) {
  state.lastDone = null;
  try {
    const r = rt.readButDoNotEvaluate(env, fragmentReference, NETWORK_OPTIONS);
    return { ok: true, item: r.item };
  } catch (e) {
    const done = state.lastDone;
    if (done != null && done.response != null && done.response.kind === 'MissingData') {
      return { missing: reasons(done.response), field: done.fieldName, root: done.root };
    }
    if (e instanceof Promise) return { missing: ['<suspended without a DoneReading log>'] };
    return { throws: String(e && e.message != null ? e.message : e) };
  }
}

function rootFor(ep, c, response) {
  if (c.root == null) return { __link: rt.ROOT_ID, __typename: ep.concreteType };
  // an entrypoint generated for a loadable field: read from the record the operation's root field returns
  let o = response;
  for (const k of c.root) o = o == null ? o : o[k];
  if (o == null || o.id == null || o.__typename == null) return null;
  return { __link: o.id, __typename: o.__typename };
}

// ---- mode 'read' (C10) ---------------------------------------------------------------------------------
async function runRead(c) {
  const ep = await loadEntrypoint(c.entrypoint);
  const results = [];
  for (let i = 0; i < c.responses.length; i++) {
    const response = c.responses[i];
    const [env, state] = makeEnvironment(() => Promise.reject(new Error('no network in mode read')));
    const variables = { ...c.variables };
    const root = rootFor(ep, c, response);
    if (root == null) { results.push({ o: 'skip' }); continue; }
    if (c.root != null) variables.id = root.__link;
    let frag;
    try {
      [frag] = rt.writeData(env, ep, response, variables);
    } catch (e) {
      results.push({ o: 'normalize-throws', m: String(e && e.message != null ? e.message : e) });
      continue;
    }
    if (c.root != null) frag = { ...frag, root };
    const queue = [frag];
    let reads = 0;
    let bad = null;
    const shapes = [];
    while (queue.length > 0 && bad == null) {
      const fr = queue.shift();
      state.components.length = 0;
      const r = readFragment(env, state, fr);
      reads++;
      if (r.ok) {
        shapes.push(shapeOf(r.item));
        queue.push(...state.components);
      } else {
        bad = { ...r, fragment: fr.fieldName, fragmentRoot: fr.root };
      }
    }
    if (bad == null) results.push({ o: 'ok', reads, h: fnv(shapes.join('|')) });
    else if (bad.missing) results.push({ o: 'missing', reads, reasons: bad.missing, fragment: bad.fragment, fragmentRoot: bad.fragmentRoot });
    else results.push({ o: 'read-throws', reads, m: bad.throws, fragment: bad.fragment });
  }
  return results;
}

// ---- mode 'refetch' (C25) ------------------------------------------------------------------------------
// Model half of the oracle: the server selections a reader AST needs (what a refetch query for it must select).
function substitute(value, args) {
  // value: ArgumentValue of the child; args: Map name -> ArgumentValue given by the parent (or undefined)
  if (value.kind === 'Variable') {
    const v = args.get(value.name);
    return v === undefined ? { kind: 'Literal', value: null, missingVariable: value.name } : v;
  }
  if (value.kind === 'Object') return { kind: 'Object', value: value.value.map(([n, v]) => [n, substitute(v, args)]) };
  return value;
}
function printValue(v) {
  switch (v.kind) {
    case 'Variable': return '$' + v.name;
    case 'Literal': return String(v.value);
    case 'String': return JSON.stringify(v.value);
    case 'Enum': return 'enum:' + v.value;
    case 'Object': return '{' + v.value.map(([n, x]) => n + ':' + printValue(x)).join(',') + '}';
  }
  return '?';
}
function printArgs(args, subst) {
  if (args == null) return '';
  return args.map(([n, v]) => n + ':' + printValue(subst == null ? v : substitute(v, subst))).sort().join(',');
}
/// tree: Map key -> {children: tree | null}; keys are `name(args)` or `... on T`
function needed(readerAst, subst, tree) {
  for (const node of readerAst) {
    switch (node.kind) {
      case 'Scalar': {
        const key = node.fieldName + '(' + printArgs(node.arguments, subst) + ')';
        if (!tree.has(key)) tree.set(key, { children: null });
        break;
      }
      case 'Link': break;
      case 'Linked': {
        if (node.condition != null) {
          // the condition's own reader runs on the parent record
          const art = node.condition();
          needed(art.readerAst, new Map(), tree);
          if (node.refetchQueryIndex == null) {
            // `asT` refinement: the selections are read from the same record when it is a T
            const key = '... on ' + String(art.fieldName).replace(/^as/, '');
            if (!tree.has(key)) tree.set(key, { children: new Map() });
            needed(node.selections, subst, tree.get(key).children);
          }
          // a client pointer's selections are fetched by its own refetch query
          break;
        }
        const key = node.fieldName + '(' + printArgs(node.arguments, subst) + ')';
        if (!tree.has(key)) tree.set(key, { children: new Map() });
        const e = tree.get(key);
        if (e.children == null) e.children = new Map();
        needed(node.selections, subst, e.children);
        break;
      }
      case 'Resolver': {
        const child = new Map();
        if (node.arguments != null) for (const [n, v] of node.arguments) child.set(n, subst == null ? v : substitute(v, subst));
        needed(node.readerArtifact().readerAst, child, tree);
        break;
      }
      case 'ImperativelyLoadedField': needed(node.refetchReaderArtifact.readerAst, subst, tree); break;
      case 'LoadablySelectedField': needed(node.refetchReaderAst, subst, tree); break;
    }
  }
  return tree;
}
function treeToJson(tree) {
  const out = {};
  for (const key of [...tree.keys()].sort()) {
    const e = tree.get(key);
    out[key] = e.children == null ? null : treeToJson(e.children);
  }
  return out;
}

async function runRefetch(c) {
  const ep = await loadEntrypoint(c.entrypoint);
  const records = [];
  const problems = [];
  let pending = [];
  let lastRequest = null;
  let currentRootTypename = null;
  let lastAnswerType = null;
  const networkFunction = (operation, variables) => {
    lastRequest = { operation, variables: JSON.parse(JSON.stringify(variables ?? {})) };
    const text = operation.kind === 'Operation' ? operation.text : null;
    const answers = c.answers ?? job.answerSets[c.answerSet];
    const a = text != null ? answers[text] : undefined;
    if (a === undefined) return Promise.reject(new Error('no answer prepared for the operation'));
    // the refetched object is the entity asked for: ids are entity paths, so everything below it keeps the
    // ids it has in the response the record came from
    const asked = variables != null && variables.id != null ? String(variables.id) : '@@R@@';
    // ... and of the type of the record the request is made for
    const ty = a.byType[currentRootTypename] !== undefined ? currentRootTypename : a.defaultType;
    lastAnswerType = ty;
    const data = JSON.parse(JSON.stringify(a.byType[ty]), (k, v) => (typeof v === 'string' && v.includes('@@R@@') ? v.split('@@R@@').join(asked) : v));
    return Promise.resolve({ data });
  };
  const [env, state] = makeEnvironment(networkFunction);
  const variables = { ...c.variables };
  let frag;
  try {
    [frag] = rt.writeData(env, ep, c.response, variables);
  } catch (e) {
    return { records, problems: [{ kind: 'normalize-throws', m: String(e.message ?? e) }], reads: 0 };
  }
  const root0 = rootFor(ep, c, c.response);
  if (root0 == null) return { records, problems: [{ kind: 'machinery', m: 'no root object in the default response' }], reads: 0 };
  if (c.root != null) { variables.id = root0.__link; frag = { ...frag, root: root0, variables }; }
  let reads = 0;
  const visitedFragments = new Set();

  async function walkFragment(fr, path, depth, ctx) {
    const rq = rt.readPromise(fr.readerWithRefetchQueries);
    const id = path.join('/') + '@' + fr.root.__typename + ':' + fr.root.__link;
    if (visitedFragments.has(id)) return;
    visitedFragments.add(id);
    state.components.length = 0;
    const r = readFragment(env, state, fr);
    reads++;
    if (!r.ok) {
      if (r.throws != null && /indicative of a bug in Isograph/.test(r.throws)) problems.push({ kind: 'index-out-of-range', path, m: r.throws });
      else problems.push({ kind: 'unreadable', path, m: r.throws ?? (r.missing ?? []).join(' <- ') });
      return;
    }
    await walkData(rq.readerArtifact.readerAst, r.item, path, ctx, depth);
  }

  async function fetchAndRecord(kind, node, loader, args, path, ctx, depth, selections, subst, expectedVariables) {
    lastRequest = null;
    let pair;
    try {
      pair = loader(args, { shouldFetch: 'Yes' });
    } catch (e) {
      problems.push({ kind: 'loader-throws', path, m: String(e.message ?? e) });
      return;
    }
    const [stableId, fetcher] = pair;
    currentRootTypename = String(stableId).split(':')[0];
    lastAnswerType = null;
    let result;
    try {
      result = fetcher();
    } catch (e) {
      problems.push({ kind: 'fetcher-throws', path, m: String(e.message ?? e) });
      return;
    }
    const rec = { kind, name: node.name ?? node.fieldName, alias: node.alias ?? node.fieldName, path, ctx, stableId, index: node.refetchQueryIndex ?? null, depth };
    if (lastRequest == null) {
      rec.request = null;
    } else {
      rec.request = { text: lastRequest.operation.kind === 'Operation' ? lastRequest.operation.text : null, operation: lastRequest.operation.kind === 'Operation' ? null : lastRequest.operation, variables: lastRequest.variables };
    }
    if (selections != null) rec.needed = treeToJson(needed(selections, subst, new Map()));
    if (expectedVariables != null) rec.expectedVariables = expectedVariables;
    records.push(rec);
    // a fragment reference comes back for pointers and loadable fields: after the answer is normalized, look inside
    if (Array.isArray(result) && result[0] != null && result[0].kind === 'FragmentReference' && depth < job.maxDepth) {
      const inner = result[0];
      try { await inner.networkRequest.promise; } catch (e) { problems.push({ kind: 'request-failed', path, m: String(e.message ?? e) }); return; }
      try { await inner.readerWithRefetchQueries.promise; } catch (e) { problems.push({ kind: 'reader-load-failed', path, m: String(e.message ?? e) }); return; }
      await walkFragment(inner, path.concat(['<' + kind + '>']), depth + 1, { text: rec.request != null ? rec.request.text : null, patchedId: rec.request != null ? rec.request.variables.id ?? null : null, answerType: lastAnswerType });
    } else {
      // let the answer be normalized before the next read
      await new Promise((r) => setImmediate(r));
    }
  }

  async function walkData(readerAst, data, path, ctx, depth) {
    if (data == null) return;
    for (const node of readerAst) {
      switch (node.kind) {
        case 'Scalar': case 'Link': break;
        case 'Linked': {
          const key = node.alias ?? node.fieldName;
          const value = data[key];
          if (node.refetchQueryIndex != null) {
            // client pointer: the value is a loader (or a list of loaders)
            const loaders = Array.isArray(value) ? value : [value];
            for (let i = 0; i < loaders.length; i++) {
              if (typeof loaders[i] !== 'function') continue;
              await fetchAndRecord('pointer', node, loaders[i], {}, path.concat([key + (Array.isArray(value) ? '[' + i + ']' : '')]), ctx, depth, node.selections, null);
            }
            break;
          }
          if (Array.isArray(value)) {
            for (let i = 0; i < value.length; i++) await walkData(node.selections, value[i], path.concat([key + '[' + i + ']']), ctx, depth);
          } else {
            await walkData(node.selections, value, path.concat([key]), ctx, depth);
          }
          break;
        }
        case 'Resolver': {
          const value = data[node.alias];
          const art = node.readerArtifact();
          if (art.kind === 'ComponentReaderArtifact') {
            if (typeof value === 'function' && value.__fragmentReference != null) await walkFragment(value.__fragmentReference, path.concat([node.alias]), depth, ctx);
          } else {
            await walkData(art.readerAst, value, path.concat([node.alias]), ctx, depth);
          }
          break;
        }
        case 'ImperativelyLoadedField': {
          const value = data[node.alias];
          if (typeof value !== 'function') break;
          await fetchAndRecord('imperative', node, (args) => value(args), { name: 'n', input: {} }, path.concat([node.alias]), ctx, depth, null, null);
          break;
        }
        case 'LoadablySelectedField': {
          const value = data[node.alias];
          if (typeof value !== 'function') break;
          let target = null;
          if (node.entrypoint.kind === 'Entrypoint') target = node.entrypoint;
          else {
            try { target = await node.entrypoint.loader(); markEntrypoint(target); env.entrypointArtifactCache.set(node.entrypoint.typeAndField, rt.wrapResolvedValue(target)); } catch (e) { problems.push({ kind: 'entrypoint-load-failed', path, m: String(e.message ?? e) }); break; }
          }
          const r = target.readerWithRefetchQueries;
          let sel = null;
          if (r.kind === 'ReaderWithRefetchQueries') sel = r.readerArtifact().readerAst;
          else { try { sel = (await r.loader()).readerArtifact().readerAst; markPointers(sel); } catch (e) { sel = null; } }
          // the field's own entrypoint keeps its variables; literal arguments of the selection travel as variable values
          const expected = {};
          if (node.queryArguments != null) for (const [n, v] of node.queryArguments) if (v.kind === 'Literal' || v.kind === 'String' || v.kind === 'Enum') expected[n] = v.value;
          await fetchAndRecord('loadable', node, value, {}, path.concat([node.alias]), ctx, depth, sel, null, expected);
          break;
        }
      }
    }
  }

  await walkFragment(frag, [], 0, { text: c.text, patchedId: c.root != null ? root0.__link : null });
  return { records, problems, reads };
}

const out = [];
for (const c of job.cases) {
  try {
    if (job.mode === 'read') out.push({ id: c.id, results: await runRead(c) });
    else out.push({ id: c.id, ...(await runRefetch(c)) });
  } catch (e) {
    out.push({ id: c.id, error: String(e && e.stack != null ? e.stack : e) });
  }
}
fs.writeFileSync(process.argv[3], JSON.stringify({ results: out, counts }));

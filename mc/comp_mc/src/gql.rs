//! A boring GraphQL (June 2018) operation validator over the relay `graphql-syntax` parser:
//! schema model + the validation rules C09 names. Trusted base (kept small and spec-ordered).

use common::SourceLocationKey;
use graphql_syntax::*;
use std::collections::{BTreeMap, BTreeSet};

#[derive(Debug, Clone, PartialEq, Eq)]
pub enum TypeRef {
    Named(String),
    List(Box<TypeRef>),
    NonNull(Box<TypeRef>),
}

impl TypeRef {
    pub fn from_ast(t: &TypeAnnotation) -> TypeRef {
        match t {
            TypeAnnotation::Named(n) => TypeRef::Named(n.name.value.to_string()),
            TypeAnnotation::List(l) => TypeRef::List(Box::new(TypeRef::from_ast(&l.type_))),
            TypeAnnotation::NonNull(n) => TypeRef::NonNull(Box::new(TypeRef::from_ast(&n.type_))),
        }
    }
    pub fn named(&self) -> &str {
        match self {
            TypeRef::Named(n) => n,
            TypeRef::List(t) | TypeRef::NonNull(t) => t.named(),
        }
    }
    pub fn is_non_null(&self) -> bool {
        matches!(self, TypeRef::NonNull(_))
    }
    pub fn is_list(&self) -> bool {
        match self {
            TypeRef::List(_) => true,
            TypeRef::NonNull(t) => t.is_list(),
            TypeRef::Named(_) => false,
        }
    }
    pub fn nullable(&self) -> &TypeRef {
        match self {
            TypeRef::NonNull(t) => t,
            t => t,
        }
    }
}

impl std::fmt::Display for TypeRef {
    fn fmt(&self, f: &mut std::fmt::Formatter<'_>) -> std::fmt::Result {
        match self {
            TypeRef::Named(n) => write!(f, "{n}"),
            TypeRef::List(t) => write!(f, "[{t}]"),
            TypeRef::NonNull(t) => write!(f, "{t}!"),
        }
    }
}

#[derive(Debug, Clone, PartialEq, Eq)]
pub enum Kind {
    Object,
    Interface,
    Union,
    Enum,
    Input,
    Scalar,
}

#[derive(Debug, Clone)]
pub struct FieldDef {
    pub ty: TypeRef,
    /// name -> (type, has default)
    pub args: BTreeMap<String, (TypeRef, bool)>,
}

#[derive(Debug, Clone)]
pub struct TypeDef {
    pub kind: Kind,
    pub fields: BTreeMap<String, FieldDef>,
    pub interfaces: Vec<String>,
    pub members: Vec<String>,
    pub enum_values: Vec<String>,
}

#[derive(Debug, Clone, Default)]
pub struct Schema {
    pub types: BTreeMap<String, TypeDef>,
}

fn field_defs(fields: &Option<List<FieldDefinition>>) -> BTreeMap<String, FieldDef> {
    let mut out = BTreeMap::new();
    for f in fields.iter().flat_map(|l| l.items.iter()) {
        let args = f.arguments.iter().flat_map(|l| l.items.iter()).map(|a| (a.name.value.to_string(), (TypeRef::from_ast(&a.type_), a.default_value.is_some()))).collect();
        out.insert(f.name.value.to_string(), FieldDef { ty: TypeRef::from_ast(&f.type_), args });
    }
    out
}

impl Schema {
    pub fn parse(sdl: &str) -> Result<Schema, String> {
        let doc = parse_schema_document(sdl, SourceLocationKey::Generated).map_err(|e| format!("{e:?}"))?;
        let mut s = Schema::default();
        for b in ["Int", "Float", "String", "Boolean", "ID"] {
            s.types.insert(b.to_string(), TypeDef { kind: Kind::Scalar, fields: BTreeMap::new(), interfaces: vec![], members: vec![], enum_values: vec![] });
        }
        for d in &doc.definitions {
            match d {
                TypeSystemDefinition::ObjectTypeDefinition(o) => {
                    s.types.insert(o.name.value.to_string(), TypeDef { kind: Kind::Object, fields: field_defs(&o.fields), interfaces: o.interfaces.iter().map(|i| i.value.to_string()).collect(), members: vec![], enum_values: vec![] });
                }
                TypeSystemDefinition::ObjectTypeExtension(o) => {
                    if let Some(t) = s.types.get_mut(&o.name.value.to_string()) {
                        t.fields.extend(field_defs(&o.fields));
                        t.interfaces.extend(o.interfaces.iter().map(|i| i.value.to_string()));
                    }
                }
                TypeSystemDefinition::InterfaceTypeDefinition(o) => {
                    s.types.insert(o.name.value.to_string(), TypeDef { kind: Kind::Interface, fields: field_defs(&o.fields), interfaces: o.interfaces.iter().map(|i| i.value.to_string()).collect(), members: vec![], enum_values: vec![] });
                }
                TypeSystemDefinition::UnionTypeDefinition(u) => {
                    s.types.insert(u.name.value.to_string(), TypeDef { kind: Kind::Union, fields: BTreeMap::new(), interfaces: vec![], members: u.members.iter().map(|i| i.value.to_string()).collect(), enum_values: vec![] });
                }
                TypeSystemDefinition::EnumTypeDefinition(e) => {
                    s.types.insert(e.name.value.to_string(), TypeDef { kind: Kind::Enum, fields: BTreeMap::new(), interfaces: vec![], members: vec![], enum_values: e.values.iter().flat_map(|l| l.items.iter()).map(|v| v.name.value.to_string()).collect() });
                }
                TypeSystemDefinition::InputObjectTypeDefinition(i) => {
                    let fields = i.fields.iter().flat_map(|l| l.items.iter()).map(|a| (a.name.value.to_string(), FieldDef { ty: TypeRef::from_ast(&a.type_), args: [("__default".to_string(), (TypeRef::Named("Boolean".into()), a.default_value.is_some()))].into_iter().collect() })).collect();
                    s.types.insert(i.name.value.to_string(), TypeDef { kind: Kind::Input, fields, interfaces: vec![], members: vec![], enum_values: vec![] });
                }
                TypeSystemDefinition::ScalarTypeDefinition(sc) => {
                    s.types.insert(sc.name.value.to_string(), TypeDef { kind: Kind::Scalar, fields: BTreeMap::new(), interfaces: vec![], members: vec![], enum_values: vec![] });
                }
                _ => {}
            }
        }
        Ok(s)
    }

    pub fn is_composite(&self, name: &str) -> bool {
        self.types.get(name).is_some_and(|t| matches!(t.kind, Kind::Object | Kind::Interface | Kind::Union))
    }

    pub fn is_abstract(&self, name: &str) -> bool {
        self.types.get(name).is_some_and(|t| matches!(t.kind, Kind::Interface | Kind::Union))
    }

    pub fn possible_types(&self, name: &str) -> BTreeSet<String> {
        match self.types.get(name).map(|t| &t.kind) {
            Some(Kind::Object) => [name.to_string()].into_iter().collect(),
            Some(Kind::Union) => self.types[name].members.iter().cloned().collect(),
            Some(Kind::Interface) => self.types.iter().filter(|(_, t)| t.kind == Kind::Object && t.interfaces.iter().any(|i| i == name)).map(|(n, _)| n.clone()).collect(),
            _ => BTreeSet::new(),
        }
    }

    pub fn field(&self, parent: &str, name: &str) -> Option<FieldDef> {
        if name == "__typename" && self.is_composite(parent) {
            return Some(FieldDef { ty: TypeRef::NonNull(Box::new(TypeRef::Named("String".into()))), args: BTreeMap::new() });
        }
        self.types.get(parent)?.fields.get(name).cloned()
    }
}

pub type Problems = Vec<(String, String)>;

struct V<'a> {
    schema: &'a Schema,
    declared: BTreeMap<String, TypeRef>,
    used: BTreeSet<String>,
    problems: Problems,
}

impl<'a> V<'a> {
    fn p(&mut self, class: &str, msg: String) {
        self.problems.push((class.to_string(), msg));
    }

    /// IsVariableUsageAllowed (spec 5.8.5), ignoring defaults on the location
    fn var_allowed(var: &TypeRef, loc: &TypeRef, loc_has_default: bool) -> bool {
        fn compatible(v: &TypeRef, l: &TypeRef) -> bool {
            match (v, l) {
                (TypeRef::NonNull(v), TypeRef::NonNull(l)) => compatible(v, l),
                (TypeRef::NonNull(v), l) => compatible(v, l),
                (_, TypeRef::NonNull(_)) => false,
                (TypeRef::List(v), TypeRef::List(l)) => compatible(v, l),
                (TypeRef::List(_), _) | (_, TypeRef::List(_)) => false,
                (TypeRef::Named(a), TypeRef::Named(b)) => a == b,
            }
        }
        if loc.is_non_null() && !var.is_non_null() {
            return loc_has_default && compatible(var, loc.nullable());
        }
        compatible(var, loc)
    }

    fn value(&mut self, v: &Value, ty: &TypeRef, has_default: bool, ctx: &str) {
        match v {
            Value::Variable(var) => {
                let name = var.name.to_string();
                self.used.insert(name.clone());
                match self.declared.get(&name).cloned() {
                    None => self.p("undeclared-variable", format!("{ctx}: variable ${name} is not declared")),
                    Some(vt) => {
                        if !Self::var_allowed(&vt, ty, has_default) {
                            self.p("variable-type", format!("{ctx}: variable ${name} of type {vt} used where {ty} is expected"));
                        }
                    }
                }
            }
            Value::Constant(c) => self.constant(c, ty, ctx),
            Value::List(l) => match ty.nullable() {
                TypeRef::List(inner) => {
                    let inner = (**inner).clone();
                    for item in &l.items {
                        self.value(item, &inner, false, ctx);
                    }
                }
                _ => self.p("value-type", format!("{ctx}: list value where {ty} is expected")),
            },
            Value::Object(o) => self.object(o.items.iter().map(|a| (a.name.value.to_string(), ObjVal::V(&a.value))).collect(), ty, ctx),
        }
    }

    fn object(&mut self, entries: Vec<(String, ObjVal<'_>)>, ty: &TypeRef, ctx: &str) {
        let tname = match ty.nullable() {
            TypeRef::Named(n) => n.clone(),
            TypeRef::List(inner) => {
                // single value coerced to a list
                let inner = (**inner).clone();
                return self.object(entries, &inner, ctx);
            }
            _ => unreachable!(),
        };
        let Some(td) = self.schema.types.get(&tname).cloned() else {
            return self.p("unknown-type", format!("{ctx}: unknown type {tname}"));
        };
        match td.kind {
            Kind::Scalar if !["Int", "Float", "String", "Boolean", "ID"].contains(&tname.as_str()) => {}
            Kind::Input => {
                let mut seen = BTreeSet::new();
                for (k, v) in &entries {
                    seen.insert(k.clone());
                    match td.fields.get(k) {
                        None => self.p("unknown-input-field", format!("{ctx}: input type {tname} has no field {k}")),
                        Some(fd) => {
                            let has_default = fd.args.get("__default").is_some_and(|d| d.1);
                            match v {
                                ObjVal::V(v) => self.value(v, &fd.ty, has_default, &format!("{ctx}.{k}")),
                                ObjVal::C(c) => self.constant(c, &fd.ty, &format!("{ctx}.{k}")),
                            }
                        }
                    }
                }
                for (k, fd) in &td.fields {
                    if fd.ty.is_non_null() && !fd.args.get("__default").is_some_and(|d| d.1) && !seen.contains(k) {
                        self.p("missing-input-field", format!("{ctx}: required input field {tname}.{k} is missing"));
                    }
                }
            }
            _ => self.p("value-type", format!("{ctx}: object value where {ty} is expected")),
        }
    }

    fn constant(&mut self, c: &ConstantValue, ty: &TypeRef, ctx: &str) {
        if let ConstantValue::Null(_) = c {
            if ty.is_non_null() {
                self.p("value-type", format!("{ctx}: null where {ty} is expected"));
            }
            return;
        }
        let t = ty.nullable();
        if let TypeRef::List(inner) = t {
            let inner = (**inner).clone();
            return match c {
                ConstantValue::List(l) => {
                    for item in &l.items {
                        self.constant(item, &inner, ctx);
                    }
                }
                other => self.constant(other, &inner, ctx),
            };
        }
        let tname = t.named().to_string();
        let Some(td) = self.schema.types.get(&tname).cloned() else {
            return self.p("unknown-type", format!("{ctx}: unknown type {tname}"));
        };
        let ok = match (c, &td.kind, tname.as_str()) {
            (ConstantValue::Object(o), _, _) => {
                return self.object(o.items.iter().map(|a| (a.name.value.to_string(), ObjVal::C(&a.value))).collect(), ty, ctx);
            }
            (ConstantValue::List(_), _, _) => false,
            // Int is a signed 32-bit integer (June 2018, 3.5.1); ID and Float accept any integer literal
            (ConstantValue::Int(i), Kind::Scalar, "Int") => {
                if i32::try_from(i.value).is_err() {
                    self.p("int-range", format!("{ctx}: {} does not fit the 32-bit Int type", i.value));
                }
                true
            }
            (ConstantValue::Int(_), Kind::Scalar, "Float" | "ID") => true,
            (ConstantValue::Float(_), Kind::Scalar, "Float") => true,
            (ConstantValue::String(_), Kind::Scalar, "String" | "ID") => true,
            (ConstantValue::Boolean(_), Kind::Scalar, "Boolean") => true,
            (ConstantValue::Enum(e), Kind::Enum, _) => td.enum_values.contains(&e.value.to_string()),
            (_, Kind::Scalar, n) if !["Int", "Float", "String", "Boolean", "ID"].contains(&n) => true,
            _ => false,
        };
        if !ok {
            self.p("value-type", format!("{ctx}: value {c} is not coercible to {ty}"));
        }
    }

    fn arguments(&mut self, args: &Option<List<Argument>>, fd: &FieldDef, ctx: &str) {
        let mut seen = BTreeSet::new();
        for a in args.iter().flat_map(|l| l.items.iter()) {
            let name = a.name.value.to_string();
            if !seen.insert(name.clone()) {
                self.p("duplicate-argument", format!("{ctx}: argument {name} given twice"));
            }
            match fd.args.get(&name) {
                None => self.p("unknown-argument", format!("{ctx}: argument {name} is not defined")),
                Some((ty, has_default)) => {
                    let ty = ty.clone();
                    self.value(&a.value, &ty, *has_default, &format!("{ctx}({name}:)"));
                }
            }
        }
        for (name, (ty, has_default)) in &fd.args {
            if ty.is_non_null() && !has_default && !seen.contains(name) {
                self.p("missing-argument", format!("{ctx}: required argument {name} is missing"));
            }
        }
    }

    /// flattens a selection set into (response name, parent type, field name, printed args, type)
    fn selection_set(&mut self, sels: &[Selection], parent: &str, ctx: &str, out: &mut Vec<(String, String, String, String, TypeRef)>) {
        for s in sels {
            match s {
                Selection::ScalarField(f) => {
                    let name = f.name.value.to_string();
                    let rn = f.alias.as_ref().map(|a| a.alias.value.to_string()).unwrap_or(name.clone());
                    let c = format!("{ctx}.{rn}");
                    match self.schema.field(parent, &name) {
                        None => self.p("unknown-field", format!("{c}: type {parent} has no field {name}")),
                        Some(fd) => {
                            if self.schema.is_composite(fd.ty.named()) {
                                self.p("leaf-selection", format!("{c}: field {name} of composite type {} selected without a selection set", fd.ty));
                            }
                            self.arguments(&f.arguments, &fd, &c);
                            out.push((rn, parent.to_string(), name, print_args(&f.arguments), fd.ty.clone()));
                        }
                    }
                }
                Selection::LinkedField(f) => {
                    let name = f.name.value.to_string();
                    let rn = f.alias.as_ref().map(|a| a.alias.value.to_string()).unwrap_or(name.clone());
                    let c = format!("{ctx}.{rn}");
                    match self.schema.field(parent, &name) {
                        None => self.p("unknown-field", format!("{c}: type {parent} has no field {name}")),
                        Some(fd) => {
                            if !self.schema.is_composite(fd.ty.named()) {
                                self.p("leaf-selection", format!("{c}: field {name} of leaf type {} has a selection set", fd.ty));
                            } else {
                                if f.selections.items.is_empty() {
                                    self.p("empty-selection-set", format!("{c}: empty selection set"));
                                }
                                let mut inner = vec![];
                                self.selection_set(&f.selections.items, fd.ty.named(), &c, &mut inner);
                                self.mergeable(&inner, &c);
                            }
                            self.arguments(&f.arguments, &fd, &c);
                            out.push((rn, parent.to_string(), name, print_args(&f.arguments), fd.ty.clone()));
                        }
                    }
                }
                Selection::InlineFragment(fr) => {
                    let on = fr.type_condition.as_ref().map(|t| t.type_.value.to_string()).unwrap_or(parent.to_string());
                    let c = format!("{ctx}...on {on}");
                    if !self.schema.is_composite(&on) {
                        self.p("fragment-type", format!("{c}: type condition {on} is not a composite type of the schema"));
                        continue;
                    }
                    if self.schema.possible_types(&on).is_disjoint(&self.schema.possible_types(parent)) {
                        self.p("fragment-type", format!("{c}: fragment on {on} can never apply inside {parent}"));
                    }
                    if fr.selections.items.is_empty() {
                        self.p("empty-selection-set", format!("{c}: empty selection set"));
                    }
                    self.selection_set(&fr.selections.items, &on, &c, out);
                }
                Selection::FragmentSpread(sp) => self.p("fragment-spread", format!("{ctx}: spread of undefined fragment {}", sp.name.value)),
            }
        }
    }

    /// FieldsInSetCanMerge, one level (sub-selections are checked where they are visited)
    fn mergeable(&mut self, fields: &[(String, String, String, String, TypeRef)], ctx: &str) {
        for (i, a) in fields.iter().enumerate() {
            for b in &fields[i + 1..] {
                if a.0 != b.0 {
                    continue;
                }
                let same_parent_possible = a.1 == b.1 || self.schema.is_abstract(&a.1) || self.schema.is_abstract(&b.1);
                if same_parent_possible && (a.2 != b.2 || a.3 != b.3) {
                    self.p("fields-conflict", format!("{ctx}: response name {} is used for {}{} and {}{}", a.0, a.2, a.3, b.2, b.3));
                }
                if a.4 != b.4 {
                    self.p("fields-conflict", format!("{ctx}: response name {} has types {} and {}", a.0, a.4, b.4));
                }
            }
        }
    }
}

enum ObjVal<'a> {
    V(&'a Value),
    C(&'a ConstantValue),
}

fn print_args(args: &Option<List<Argument>>) -> String {
    let mut v: Vec<String> = args.iter().flat_map(|l| l.items.iter()).map(|a| format!("{}: {}", a.name.value, a.value)).collect();
    v.sort();
    format!("({})", v.join(", "))
}

/// Parse + validate one operation document.
pub fn validate(text: &str, schema: &Schema) -> Problems {
    let doc = match parse_executable(text, SourceLocationKey::Generated) {
        Ok(d) => d,
        Err(e) => {
            let msg = e.iter().map(|d| d.message().to_string()).collect::<Vec<_>>().join("; ");
            return vec![("syntax".to_string(), format!("does not parse as GraphQL: {msg}"))];
        }
    };
    let mut problems = vec![];
    if doc.definitions.len() != 1 {
        problems.push(("document".to_string(), format!("{} definitions in one operation document", doc.definitions.len())));
    }
    for d in &doc.definitions {
        match d {
            ExecutableDefinition::Fragment(f) => problems.push(("document".to_string(), format!("unexpected fragment definition {}", f.name.value))),
            ExecutableDefinition::Operation(op) => {
                let root = match op.operation_kind() {
                    OperationKind::Query => "Query",
                    OperationKind::Mutation => "Mutation",
                    OperationKind::Subscription => "Subscription",
                };
                let mut v = V { schema, declared: BTreeMap::new(), used: BTreeSet::new(), problems: vec![] };
                if !schema.types.contains_key(root) {
                    v.p("root-type", format!("schema has no {root} type"));
                    problems.extend(v.problems);
                    continue;
                }
                for vd in op.variable_definitions.iter().flat_map(|l| l.items.iter()) {
                    let name = vd.name.name.to_string();
                    let ty = TypeRef::from_ast(&vd.type_);
                    match schema.types.get(ty.named()).map(|t| &t.kind) {
                        Some(Kind::Scalar | Kind::Enum | Kind::Input) => {}
                        _ => v.p("variable-type", format!("variable ${name}: {} is not an input type", ty)),
                    }
                    // Values of Correct Type also holds for default values (June 2018, 5.6.1)
                    if let Some(dv) = &vd.default_value {
                        let before = v.problems.len();
                        v.constant(&dv.value, &ty, &format!("default value of ${name}"));
                        for p in v.problems[before..].iter_mut() {
                            p.0 = format!("default-{}", p.0);
                        }
                    }
                    if v.declared.insert(name.clone(), ty).is_some() {
                        v.p("duplicate-variable", format!("variable ${name} declared twice"));
                    }
                }
                let mut fields = vec![];
                if op.selections.items.is_empty() {
                    v.p("empty-selection-set", "operation has an empty selection set".to_string());
                }
                v.selection_set(&op.selections.items, root, root, &mut fields);
                v.mergeable(&fields, root);
                let unused: Vec<String> = v.declared.keys().filter(|k| !v.used.contains(*k)).cloned().collect();
                for u in unused {
                    v.p("unused-variable", format!("variable ${u} is declared but never used"));
                }
                problems.extend(v.problems);
            }
        }
    }
    problems
}

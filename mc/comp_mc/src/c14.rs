//! C14 — compilation output is deterministic.
//!
//! Enumerable part, exhaustively per base program: every way of splitting the literals over 1..3
//! source files and every assignment of file names (so that discovery/sort order changes), plus
//! repeated compiles in fresh compiler states (every std HashMap/HashSet gets a different random
//! seed per instance, and every worker is a separate process). Artifacts must be byte-identical
//! modulo the source file path that is part of the output; diagnostics of rejected programs must
//! be identical modulo file path and position.
//! The space of process hash seeds (128 bit) cannot be enumerated; it is exercised by the
//! repetitions, not covered (`exhaustive` is false for that dimension).
use crate::driver::{self, Compiled};
use crate::progx::Menu;
use crate::project::{Project, source_file};
use crate::sweep::{self, Ctx, Family, ShardStats};
use mc_core::*;
use serde_json::json;

/// all set partitions of 0..n into at most 3 blocks
fn partitions(n: usize) -> Vec<Vec<usize>> {
    fn rec(i: usize, n: usize, cur: &mut Vec<usize>, blocks: usize, out: &mut Vec<Vec<usize>>) {
        if i == n {
            out.push(cur.clone());
            return;
        }
        for b in 0..=blocks.min(2) {
            cur.push(b);
            rec(i + 1, n, cur, blocks.max(b + 1), out);
            cur.pop();
        }
    }
    let mut out = vec![];
    rec(0, n, &mut vec![], 0, &mut out);
    out
}

fn normalise(arts: &[(String, String)], files: &[String]) -> Vec<(String, String)> {
    arts.iter()
        .map(|(p, c)| {
            let mut c = c.clone();
            for f in files {
                let stem = f.trim_end_matches(".ts").trim_end_matches(".tsx");
                c = c.replace(&format!("/{stem}'"), "/<SOURCE>'").replace(&format!("/{stem}\""), "/<SOURCE>\"");
            }
            (p.clone(), c)
        })
        .collect()
}

fn normalise_diag(d: &[String], files: &[String]) -> Vec<String> {
    let mut v: Vec<String> = d
        .iter()
        .map(|m| {
            // keep the message (first line) only; excerpts and positions depend on the file layout
            let mut first = m.lines().next().unwrap_or("").to_string();
            for f in files {
                first = first.replace(f.as_str(), "<SOURCE>");
            }
            first
        })
        .collect();
    v.sort();
    v
}

fn oracle(ctx: &Ctx<'_>, stats: &mut ShardStats) -> Vec<(String, String)> {
    let lits = ctx.program.literals();
    let base_files = vec!["a.ts".to_string()];
    let mut fails = vec![];
    let vdir = ctx.dir.with_file_name("variant");
    let names = ["a.ts", "b.ts", "sub/c.tsx", "Z.ts", "0.ts"];
    let mut variants: Vec<(String, Project, Vec<String>)> = vec![];
    // repeated compiles of the identical project
    for r in 0..2 {
        variants.push((format!("repeat{r}"), ctx.program.project(), base_files.clone()));
    }
    for part in partitions(lits.len()) {
        let blocks = part.iter().max().map(|m| m + 1).unwrap_or(1);
        // every injective assignment of names to blocks from a 5-name pool is a lot; rotate through all starting points and both directions
        // programs with many literals have hundreds of partitions: two name assignments each instead of ten
        let many = lits.len() > 4;
        for start in (0..names.len()).filter(|s| !many || *s == 0 || *s == 3) {
            for rev in [false, true].into_iter().filter(|r| !many || !*r) {
                let pick = |b: usize| if rev { names[(start + names.len() - b) % names.len()] } else { names[(start + b) % names.len()] };
                let mut files = vec![];
                for b in 0..blocks {
                    let block: Vec<(Option<&str>, String)> = lits.iter().enumerate().filter(|(i, _)| part[*i] == b).map(|(_, (e, l))| (e.as_deref(), l.clone())).collect();
                    files.push((pick(b).to_string(), source_file(&block)));
                }
                let mut p = ctx.program.project();
                let fnames = files.iter().map(|f| f.0.clone()).collect();
                p.files = files;
                variants.push((format!("split{part:?}@{start}{}", if rev { "r" } else { "" }), p, fnames));
            }
        }
    }
    // one file per literal, compiled three times in fresh states: artifacts and the complete diagnostics (with
    // locations and excerpts) must be identical (cross-file order, e.g. of duplicate definitions, is only
    // reachable with several files)
    {
        let mut p = ctx.program.project();
        p.files = lits.iter().enumerate().map(|(i, (e, l))| (format!("{}{i}.ts", ["m", "B", "z", "a"][i % 4]), source_file(&[(e.as_deref(), l.clone())]))).collect();
        p.write_to(&vdir);
        let render = |r: &Compiled| match r {
            Compiled::Ok(a) => format!("OK {a:?}"),
            Compiled::Diagnostics(d) => format!("DIAG {d:?}"),
            Compiled::Panic(m) => format!("PANIC {m}"),
        };
        let first = render(&driver::compile_dir(&vdir));
        for r in 0..2 {
            *stats.extra.entry("variants".into()).or_default() += 1;
            let again = render(&driver::compile_dir(&vdir));
            if again != first {
                let at = first.bytes().zip(again.bytes()).position(|(x, y)| x != y).unwrap_or(0);
                let lo = at.saturating_sub(120);
                fails.push(("nondeterministic-repeat:one-file-per-literal".to_string(), format!("repeat {r} of the identical multi-file project differs: ...{} vs ...{}", &first[first.floor_char_boundary(lo)..first.floor_char_boundary((at + 80).min(first.len()))], &again[again.floor_char_boundary(lo)..again.floor_char_boundary((at + 80).min(again.len()))])));
                break;
            }
        }
    }
    for (kind, p, fnames) in variants {
        p.write_to(&vdir);
        *stats.extra.entry("variants".into()).or_default() += 1;
        let r = driver::compile_dir(&vdir);
        match (ctx.result, &r) {
            (Compiled::Ok(a), Compiled::Ok(b)) => {
                let (na, nb) = (normalise(a, &base_files), normalise(b, &fnames));
                if na != nb {
                    let which = na.iter().zip(nb.iter()).find(|(x, y)| x != y).map(|(x, _)| x.0.clone()).unwrap_or_else(|| "artifact set".into());
                    let class = if kind.starts_with("repeat") { "nondeterministic-repeat" } else { "depends-on-file-layout" };
                    fails.push((format!("{class}:{}", which.rsplit('/').next().unwrap_or("")), format!("variant {kind}: {which} differs from the single-file build")));
                }
            }
            (Compiled::Diagnostics(a), Compiled::Diagnostics(b)) => {
                if normalise_diag(a, &base_files) != normalise_diag(b, &fnames) {
                    fails.push(("diagnostics-differ".to_string(), format!("variant {kind}: diagnostics {:?} vs {:?}", normalise_diag(a, &base_files), normalise_diag(b, &fnames))));
                }
            }
            (Compiled::Panic(_), _) | (_, Compiled::Panic(_)) => {}
            _ => fails.push(("verdict-differs".to_string(), format!("variant {kind}: accepted in one layout, rejected in the other"))),
        }
        if fails.len() > 2 {
            break;
        }
    }
    fails
}

pub fn main(args: &Args) -> i32 {
    if let Some(sh) = &args.worker {
        sweep::worker(sh, oracle);
        return 0;
    }
    if args.replay.is_some() {
        return sweep::replay(args);
    }
    let mut ev = Evidence::new(args, "exploration");
    let families = vec![Family { menu: Menu::General, k: args.tier.pick(3, 4) }, Family { menu: Menu::Abstract, k: args.tier.pick(3, 4) }, Family { menu: Menu::Cycles, k: args.tier.pick(1, 2) }, Family { menu: Menu::Pointers, k: args.tier.pick(2, 4) }, Family { menu: Menu::Dups, k: 4 }];
    let res = sweep::run(args, families);
    let mut verdict = Verdict::new("C14");
    for v in res.violations {
        verdict.add(v);
    }
    verdict.violations.sort_by_key(|v| v.what.len());
    let (code, n_new, known) = verdict.conclude("comp_mc/c14");
    ev.violations = n_new as i64;
    let nv = res.stats.extra.get("variants").copied().unwrap_or(0);
    ev.set("evaluations", nv)
        .set("distinct_nontrivial", nv)
        .set("rule", "for every program of the stated families (accepted and rejected): 2 repeated compiles + every partition of its literals into <= 3 files x 10 file-name assignments from a pool with different sort orders and a sub-directory; artifacts compared byte for byte modulo the source file path, diagnostics modulo path/position; every variant is a different file layout or a fresh set of hash seeds")
        .set("base_programs", res.stats.programs)
        .set("families", json!(res.families.iter().map(|(f, n)| json!({"menu": format!("{:?}", f.menu), "k": f.k, "programs": n})).collect::<Vec<_>>()))
        .set("samples", json!(res.stats.samples))
        .set("known_findings_reobserved", json!(known))
        .set("exhaustive", false)
        .set("exhaustive_note", "file layouts are enumerated completely for the stated pool; process hash seeds are exercised by repetition only");
    ev.assume("independence from hash seeds is sampled by repeated compiles in fresh compiler states and separate worker processes, not enumerated");
    ev.write();
    if nv < 100 {
        machinery_error("vacuous: fewer than 100 variants");
    }
    println!("comp_mc C14: {} base programs, {} variants, {} new violation signature(s), known {:?}", res.stats.programs, nv, n_new, known);
    code
}

//! TypeScript artifacts: parse with swc (that *is* the syntax oracle of C13) and evaluate the
//! literal data they export into a JSON-like value (used by C11, C25, C26, ...).

use std::collections::BTreeMap;
use swc_common::{FileName, SourceMap, Spanned, sync::Lrc};
use swc_ecma_ast::*;
use swc_ecma_parser::{Parser, StringInput, Syntax, TsSyntax, lexer::Lexer};

#[derive(Debug, Clone, PartialEq)]
pub enum Val {
    Null,
    Bool(bool),
    Num(f64),
    /// cooked string value (what the runtime reads)
    Str(String),
    Arr(Vec<Val>),
    Obj(Vec<(String, Val)>),
    /// an identifier that is not a local const (an import, `undefined`, ...)
    Ref(String),
    /// anything that is not data (functions, calls, ...)
    Other,
}

impl Val {
    pub fn get(&self, key: &str) -> Option<&Val> {
        match self {
            Val::Obj(kv) => kv.iter().find(|(k, _)| k == key).map(|(_, v)| v),
            _ => None,
        }
    }
    pub fn str(&self) -> Option<&str> {
        match self {
            Val::Str(s) => Some(s),
            _ => None,
        }
    }
    pub fn arr(&self) -> Option<&[Val]> {
        match self {
            Val::Arr(a) => Some(a),
            _ => None,
        }
    }
}

pub struct TsFile {
    pub module: Module,
    /// (local name, module specifier, type-only)
    pub imports: Vec<(String, String, bool)>,
    pub consts: BTreeMap<String, Val>,
    pub default_export: Option<Val>,
}

pub fn parse(src: &str) -> Result<Module, String> {
    let cm: Lrc<SourceMap> = Default::default();
    let fm = cm.new_source_file(FileName::Custom("artifact.ts".into()).into(), src.to_string());
    let lexer = Lexer::new(Syntax::Typescript(TsSyntax { tsx: false, ..Default::default() }), EsVersion::latest(), StringInput::from(&*fm), None);
    let mut parser = Parser::new_from(lexer);
    let module = parser.parse_module().map_err(|e| format!("{:?} at {:?}", e.kind(), e.span()))?;
    let errs = parser.take_errors();
    if let Some(e) = errs.first() {
        return Err(format!("{:?} at {:?}", e.kind(), e.span()));
    }
    Ok(module)
}

fn prop_name(p: &PropName) -> Option<String> {
    match p {
        PropName::Ident(i) => Some(i.sym.to_string()),
        PropName::Str(s) => Some(s.value.to_string()),
        PropName::Num(n) => Some(n.value.to_string()),
        _ => None,
    }
}

fn eval(e: &Expr, env: &BTreeMap<String, Val>) -> Val {
    match e {
        Expr::Lit(Lit::Str(s)) => Val::Str(s.value.to_string()),
        Expr::Lit(Lit::Num(n)) => Val::Num(n.value),
        Expr::Lit(Lit::Bool(b)) => Val::Bool(b.value),
        Expr::Lit(Lit::Null(_)) => Val::Null,
        Expr::Tpl(t) if t.exprs.is_empty() => Val::Str(t.quasis.iter().map(|q| q.cooked.as_ref().map(|c| c.to_string()).unwrap_or_default()).collect()),
        Expr::Unary(u) if u.op == UnaryOp::Minus => match eval(&u.arg, env) {
            Val::Num(n) => Val::Num(-n),
            _ => Val::Other,
        },
        Expr::Array(a) => Val::Arr(a.elems.iter().map(|el| el.as_ref().map(|x| eval(&x.expr, env)).unwrap_or(Val::Null)).collect()),
        Expr::Object(o) => {
            let mut kv = vec![];
            for p in &o.props {
                match p {
                    PropOrSpread::Prop(p) => match &**p {
                        Prop::KeyValue(k) => {
                            if let Some(n) = prop_name(&k.key) {
                                kv.push((n, eval(&k.value, env)));
                            }
                        }
                        Prop::Shorthand(i) => kv.push((i.sym.to_string(), env.get(&*i.sym).cloned().unwrap_or(Val::Ref(i.sym.to_string())))),
                        _ => {}
                    },
                    PropOrSpread::Spread(_) => {}
                }
            }
            Val::Obj(kv)
        }
        Expr::Ident(i) => env.get(&*i.sym).cloned().unwrap_or(Val::Ref(i.sym.to_string())),
        Expr::Paren(p) => eval(&p.expr, env),
        Expr::TsAs(a) => eval(&a.expr, env),
        Expr::TsConstAssertion(a) => eval(&a.expr, env),
        Expr::TsSatisfies(a) => eval(&a.expr, env),
        Expr::TsNonNull(a) => eval(&a.expr, env),
        // `(): T => ({ ... })` — reader artifacts are thunks; evaluate the returned object
        Expr::Arrow(f) if f.params.is_empty() => match &*f.body {
            BlockStmtOrExpr::Expr(e) => eval(e, env),
            _ => Val::Other,
        },
        _ => Val::Other,
    }
}

pub fn load(src: &str) -> Result<TsFile, String> {
    let module = parse(src)?;
    let mut imports = vec![];
    let mut consts = BTreeMap::new();
    let mut default_export = None;
    for item in &module.body {
        match item {
            ModuleItem::ModuleDecl(ModuleDecl::Import(i)) => {
                for s in &i.specifiers {
                    let (local, ty) = match s {
                        ImportSpecifier::Named(n) => (n.local.sym.to_string(), n.is_type_only),
                        ImportSpecifier::Default(d) => (d.local.sym.to_string(), false),
                        ImportSpecifier::Namespace(n) => (n.local.sym.to_string(), false),
                    };
                    imports.push((local, i.src.value.to_string(), i.type_only || ty));
                }
                if i.specifiers.is_empty() {
                    imports.push((String::new(), i.src.value.to_string(), i.type_only));
                }
            }
            ModuleItem::Stmt(Stmt::Decl(Decl::Var(v))) => {
                for d in &v.decls {
                    if let (Pat::Ident(id), Some(init)) = (&d.name, &d.init) {
                        let val = eval(init, &consts);
                        consts.insert(id.id.sym.to_string(), val);
                    }
                }
            }
            ModuleItem::ModuleDecl(ModuleDecl::ExportDecl(ed)) => {
                if let Decl::Var(v) = &ed.decl {
                    for d in &v.decls {
                        if let (Pat::Ident(id), Some(init)) = (&d.name, &d.init) {
                            let val = eval(init, &consts);
                            consts.insert(id.id.sym.to_string(), val);
                        }
                    }
                }
            }
            ModuleItem::ModuleDecl(ModuleDecl::ExportDefaultExpr(e)) => default_export = Some(eval(&e.expr, &consts)),
            _ => {}
        }
    }
    Ok(TsFile { module, imports, consts, default_export })
}

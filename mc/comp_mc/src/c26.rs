//! C26 — persisted document ids match the documents they name.
use crate::c09::operation_texts;
use crate::driver::{self, Compiled};
use crate::progx::Menu;
use crate::sweep::{self, Ctx, Family, ShardStats};
use crate::tsx::{self, Val};
use md5::{Digest, Md5};
use mc_core::*;
use serde_json::json;
use sha2::Sha256;
use std::collections::{BTreeMap, BTreeSet};

/// GraphQL tokens with insignificant whitespace and commas dropped; strings are single tokens
fn tokens(s: &str) -> Vec<String> {
    let mut out = vec![];
    let cs: Vec<char> = s.chars().collect();
    let mut i = 0;
    while i < cs.len() {
        let c = cs[i];
        if c.is_whitespace() || c == ',' {
            i += 1;
        } else if c == '"' {
            let mut j = i + 1;
            while j < cs.len() && cs[j] != '"' {
                if cs[j] == '\\' {
                    j += 1;
                }
                j += 1;
            }
            out.push(cs[i..(j + 1).min(cs.len())].iter().collect());
            i = j + 1;
        } else if c.is_alphanumeric() || c == '_' || c == '-' {
            let mut j = i;
            while j < cs.len() && (cs[j].is_alphanumeric() || cs[j] == '_' || cs[j] == '-' || cs[j] == '.') {
                j += 1;
            }
            out.push(cs[i..j].iter().collect());
            i = j;
        } else {
            out.push(c.to_string());
            i += 1;
        }
    }
    out
}

fn find_persisted(v: &Val, out: &mut Vec<String>) {
    match v {
        Val::Obj(kv) => {
            if v.get("kind").and_then(|k| k.str()) == Some("PersistedOperation")
                && let Some(id) = v.get("operationId").and_then(|i| i.str())
            {
                out.push(id.to_string());
            }
            for (_, x) in kv {
                find_persisted(x, out);
            }
        }
        Val::Arr(a) => a.iter().for_each(|x| find_persisted(x, out)),
        _ => {}
    }
}

/// One persisted build against the plain build of the same project.
fn check_persisted(plain_texts: &BTreeMap<String, String>, arts: &[(String, String)], algo: &str, file: Option<&str>, ids_checked: &mut u64, fails: &mut Vec<(String, String)>) {
    let fname = file.unwrap_or("persisted_documents.json");
    let Some((_, docs_src)) = arts.iter().find(|(p, _)| p == fname) else {
        fails.push(("no-documents-file".to_string(), format!("no {fname} among the artifacts")));
        return;
    };
    let docs: BTreeMap<String, String> = match serde_json::from_str(docs_src) {
        Ok(d) => d,
        Err(e) => {
            fails.push(("documents-file-shape".to_string(), format!("{fname} is not a JSON object of strings: {e}")));
            return;
        }
    };
    let mut referenced = BTreeSet::new();
    let mut paths_with_ids = BTreeSet::new();
    for (path, src) in arts {
        if !path.ends_with(".ts") {
            continue;
        }
        let Ok(f) = tsx::load(src) else { continue };
        let mut ids = vec![];
        for v in f.consts.values().chain(f.default_export.iter()) {
            find_persisted(v, &mut ids);
        }
        ids.sort();
        ids.dedup();
        for id in ids {
            paths_with_ids.insert(path.clone());
            *ids_checked += 1;
            referenced.insert(id.clone());
            let Some(text) = docs.get(&id) else {
                fails.push(("id-not-in-file".to_string(), format!("{path} sends operation id {id}, which {fname} does not record")));
                continue;
            };
            let want = if algo == "md5" { hex::encode(Md5::digest(text.as_bytes())) } else { hex::encode(Sha256::digest(text.as_bytes())) };
            if want != id {
                fails.push(("id-is-not-hash".to_string(), format!("{path}: id {id} is not the {algo} of the recorded document ({want})")));
            }
            match plain_texts.get(path) {
                None => fails.push(("no-plain-counterpart".to_string(), format!("{path} has a persisted operation but the plain build has no query text for it"))),
                Some(pt) => {
                    if tokens(pt) != tokens(text) {
                        fails.push(("document-differs".to_string(), format!("{path}: recorded document {text:?} is not the operation of the plain build {pt:?}")));
                    }
                }
            }
        }
    }
    let keys: BTreeSet<String> = docs.keys().cloned().collect();
    if keys != referenced {
        fails.push(("file-keys".to_string(), format!("{fname} records {:?} but the artifacts reference {:?}", keys.difference(&referenced).collect::<Vec<_>>(), referenced.difference(&keys).collect::<Vec<_>>())));
    }
    for path in plain_texts.keys() {
        if !paths_with_ids.contains(path) {
            fails.push(("operation-not-persisted".to_string(), format!("{path} carries an operation in the plain build but no persisted operation id in the persisted build")));
        }
    }
}

fn plain_texts_of(plain: &[(String, String)]) -> BTreeMap<String, String> {
    operation_texts(plain)
        .into_iter()
        .filter_map(|(p, t)| t.ok().map(|t| (if p.ends_with("/query_text.ts") { p.replace("/query_text.ts", "/entrypoint.ts") } else { p.replace("__refetch__query_text__", "__refetch__") }, t)))
        .collect()
}

/// the demo projects: plain build vs md5 / sha256 persisted builds
fn demo_check(d: &crate::demos::Demo) -> Vec<(String, String)> {
    let plain_texts = plain_texts_of(&d.arts);
    let mut fails = vec![];
    let mut n = 0;
    for algo in ["md5", "sha256"] {
        for extra in [false, true] {
            let p = crate::demos::compile(&d.name, Some(json!({"persisted_documents": {"algorithm": algo, "include_extra_info": extra}})));
            check_persisted(&plain_texts, &p.arts, algo, None, &mut n, &mut fails);
        }
    }
    if n == 0 {
        machinery_error(&format!("demo {}: no operation id found", d.name));
    }
    fails
}

fn oracle(ctx: &Ctx<'_>, stats: &mut ShardStats) -> Vec<(String, String)> {
    let Compiled::Ok(plain) = ctx.result else { return vec![] };
    // cooked query texts of the non-persisted build, by the artifact that would carry the operation
    let plain_texts: BTreeMap<String, String> = operation_texts(plain)
        .into_iter()
        .filter_map(|(p, t)| t.ok().map(|t| (if p.ends_with("/query_text.ts") { p.replace("/query_text.ts", "/entrypoint.ts") } else { p.replace("__refetch__query_text__", "__refetch__") }, t)))
        .collect();
    let mut fails = vec![];
    let vdir = ctx.dir.with_file_name("variant");
    for algo in ["md5", "sha256"] {
        for extra in [false, true] {
            for file in [None, Some("docs.json")] {
                let mut p = ctx.program.project();
                let mut pd = json!({"algorithm": algo, "include_extra_info": extra});
                if let Some(f) = file {
                    pd["file"] = json!(f);
                }
                p.options = json!({"persisted_documents": pd});
                p.write_to(&vdir);
                *stats.extra.entry("configurations".into()).or_default() += 1;
                let arts = match driver::compile_dir(&vdir) {
                    Compiled::Ok(a) => a,
                    Compiled::Diagnostics(d) => {
                        fails.push(("persisted-build-rejected".to_string(), format!("accepted program is rejected with persisted documents on: {}", d[0].lines().next().unwrap_or(""))));
                        continue;
                    }
                    Compiled::Panic(m) => {
                        fails.push(("persisted-build-panic".to_string(), m));
                        continue;
                    }
                };
                let mut ids_checked = 0;
                check_persisted(&plain_texts, &arts, algo, file, &mut ids_checked, &mut fails);
                *stats.extra.entry("operation_ids_checked".into()).or_default() += ids_checked;
                if fails.len() > 3 {
                    return fails;
                }
            }
        }
    }
    fails
}

pub fn main(args: &Args) -> i32 {
    if let Some(sh) = &args.worker {
        sweep::worker(sh, oracle);
        return 0;
    }
    if let Some(code) = crate::demos::replay_if_demo(args, &demo_check) {
        return code;
    }
    if args.replay.is_some() {
        return sweep::replay(args);
    }
    let mut ev = Evidence::new(args, "exploration");
    let families = vec![Family { menu: Menu::General, k: args.tier.pick(3, 5) }, Family { menu: Menu::Args, k: args.tier.pick(2, 4) }, Family { menu: Menu::Abstract, k: args.tier.pick(3, 5) }, Family { menu: Menu::Pointers, k: args.tier.pick(3, 4) }];
    let res = sweep::run(args, families);
    let mut verdict = Verdict::new("C26");
    for v in res.violations {
        verdict.add(v);
    }
    let (demo_violations, demo_artifacts) = crate::demos::violations(&demo_check);
    for v in demo_violations {
        verdict.add(v);
    }
    verdict.violations.sort_by_key(|v| v.what.len());
    let (code, n_new, known) = verdict.conclude("comp_mc/c26");
    ev.violations = n_new as i64;
    let ids = res.stats.extra.get("operation_ids_checked").copied().unwrap_or(0);
    ev.set("demo_projects", json!(crate::demos::DEMOS)).set("demo_artifacts", demo_artifacts);
    ev.set("evaluations", res.stats.extra.get("configurations").copied().unwrap_or(0))
        .set("distinct_nontrivial", res.stats.accepted)
        .set("rule", "every accepted program of the stated families x {md5, sha256} x {extra info off/on} x {default, custom file name}: every operationId found in any artifact must be a key of the documents file, equal the configured hash of the recorded text, and the recorded text must tokenise (whitespace and commas insignificant) to the plain build's operation; file keys = referenced ids")
        .set("operation_ids_checked", ids)
        .set("families", json!(res.families.iter().map(|(f, n)| json!({"menu": format!("{:?}", f.menu), "k": f.k, "programs": n})).collect::<Vec<_>>()))
        .set("samples", json!(res.stats.samples))
        .set("known_findings_reobserved", json!(known))
        .set("exhaustive", true);
    ev.write();
    if ids < 100 {
        machinery_error("vacuous: fewer than 100 operation ids checked");
    }
    println!("comp_mc C26: {} base programs, {} configurations, {} operation ids checked, {} new violation signature(s), known {:?}", res.stats.accepted, res.stats.extra.get("configurations").copied().unwrap_or(0), ids, n_new, known);
    code
}

//! `progx` — bounded-exhaustive enumeration of isograph programs over one universe schema.
//!
//! A program is a set of declarations (client fields, client pointers, entrypoints). Selection
//! sets are enumerated as all combinations (in menu order) of menu atoms with a total of at most
//! `k` selection nodes and nesting at most 2; variables used by the chosen atoms are declared
//! automatically with the right types, so every generated program is meant to be *valid*. Invalid
//! programs are derived from valid ones by single-fault mutation (see `mutants`).

use crate::project::{Project, source_file};
use serde::{Deserialize, Serialize};

pub const SCHEMA: &str = r#"
type Query {
  me: User!
  user(id: ID!): User
  users(first: Int, name: String): [User!]!
  node(id: ID!): Node
  pet(id: ID!, input: PetInput): Pet
  count: Int
  usersByIds(ids: [ID!]!, names: [String]): [User!]!
  search(text: String!, kind: Kind): [SearchResult]
}

interface Node {
  id: ID!
}

"""
A user
"""
type User implements Node {
  id: ID!
  name: String!
  "the nick"
  nick: String
  age: Int
  kind: Kind
  homepage: Url
  friends(first: Int): [User!]
  bestFriend: User
  pets: [Pet!]!
  stats: Stats
  matrix: [[Int!]!]!
  rows: [[String]]
  grid: [[User!]!]
}

type Stats {
  score: Int
  rank: Int!
}

type Pet implements Node {
  id: ID!
  name: String!
  owner: User
  tag(style: String, n: Int): String
}

union SearchResult = User | Pet

enum Kind {
  RED
  GREEN
}

input PetInput {
  name: String
  n: Int
  nested: NestedInput
}

input NestedInput {
  a: Int
}

scalar Url

type Mutation {
  set_name(id: ID!, name: String!): SetNameResponse!
}

type SetNameResponse {
  user: User!
}
"#;

pub const EXTENSION: &str = r#"
extend type Mutation
  @exposeField(field: "set_name.user", fieldMap: [{ from: "id", to: "id" }])
"#;

#[derive(Debug, Clone, Copy, PartialEq, Eq, PartialOrd, Ord, Hash, Serialize, Deserialize)]
pub enum Ty {
    Query,
    User,
    Pet,
    Node,
    Stats,
}

impl Ty {
    pub fn name(self) -> &'static str {
        match self {
            Ty::Query => "Query",
            Ty::User => "User",
            Ty::Pet => "Pet",
            Ty::Node => "Node",
            Ty::Stats => "Stats",
        }
    }
}

/// One entry of a selection menu.
#[derive(Debug, Clone, Copy)]
pub struct Atom {
    /// selection text; an object selection's sub-selection set is appended
    pub text: &'static str,
    /// type of the sub-selection set, if this is an object selection
    pub child: Option<Ty>,
    /// variables the atom uses: (name, type)
    pub vars: &'static [(&'static str, &'static str)],
    /// refers to a client field / pointer of the program by slot: must exist
    pub needs: Option<&'static str>,
}

const fn a(text: &'static str) -> Atom {
    Atom { text, child: None, vars: &[], needs: None }
}
const fn o(text: &'static str, child: Ty) -> Atom {
    Atom { text, child: Some(child), vars: &[], needs: None }
}
const fn av(text: &'static str, vars: &'static [(&'static str, &'static str)]) -> Atom {
    Atom { text, child: None, vars, needs: None }
}
const fn ov(text: &'static str, child: Ty, vars: &'static [(&'static str, &'static str)]) -> Atom {
    Atom { text, child: Some(child), vars, needs: None }
}
const fn c(text: &'static str, needs: &'static str) -> Atom {
    Atom { text, child: None, vars: &[], needs: Some(needs) }
}

/// Which menu: the general one, or focused sub-menus (arguments, abstract types, ...).
#[derive(Debug, Clone, Copy, PartialEq, Eq, Serialize, Deserialize)]
pub enum Menu {
    General,
    Args,
    Abstract,
    /// two client fields on User that may select themselves and each other (directly, or through a linked field)
    Cycles,
    /// a parent and a child client field whose selection sets overlap in nested linked fields
    Overlap,
    /// client pointers (concrete, abstract and list targets) selected at several positions
    Pointers,
    /// nested list types (lists of lists of scalars and of objects)
    Lists,
    /// generated schemas (root names, id shapes, Node, unions / interfaces, @exposeField forms, nested lists, recursive inputs) with adapted programs
    Schemas,
    /// raw single-token mutations of the checked-in demo projects (literals and schema)
    DemoMutations,
    /// the same client field / pointer defined several times (invalid programs; determinism of the diagnostics)
    Dups,
    /// declaration shapes: field / pointer on every kind of parent type x variable definitions x entrypoint on it
    Decls,
    /// client fields with parameters, selected with literal / variable / missing arguments (variable substitution through client fields)
    ClientArgs,
    /// C25: one client field containing refetchable selections (`__refetch`, exposed mutation field, client pointer,
    /// `@loadable` field, a second-level client field with its own refetchable selections) reused under several
    /// parents with different sibling selections, at several positions, by two entrypoints
    Reuse,
}

pub fn menu(ty: Ty, m: Menu) -> Vec<Atom> {
    match (ty, m) {
        (Ty::Query, Menu::General) => vec![
            o("me", Ty::User),
            ov("user(id: $id)", Ty::User, &[("id", "ID!")]),
            o("users(first: 2)", Ty::User),
            a("count"),
            ov("pet(id: $id)", Ty::Pet, &[("id", "ID!")]),
            ov("n1: node(id: $id)", Ty::Node, &[("id", "ID!")]),
        ],
        (Ty::User, Menu::General) => vec![
            a("id"),
            a("name"),
            a("nick"),
            a("alias: name"),
            a("kind"),
            o("bestFriend", Ty::User),
            o("friends(first: 1)", Ty::User),
            o("pets", Ty::Pet),
            c("UserChild", "User.UserChild"),
            c("UserChild @loadable", "User.UserChild"),
            a("age @updatable"),
            a("__refetch"),
            a("set_name"),
            o("stats", Ty::Stats),
        ],
        (Ty::Stats, Menu::General) => vec![a("score"), a("rank"), c("StatsChild", "Stats.StatsChild")],
        (Ty::Stats, _) => vec![a("score")],
        (Ty::Pet, Menu::General) => vec![a("id"), a("name"), a("tag"), o("owner", Ty::User), c("PetChild", "Pet.PetChild")],
        (Ty::Node, Menu::General) => vec![a("id"), o("asUser", Ty::User), o("asPet", Ty::Pet)],

        (Ty::Query, Menu::Args) => vec![
            ov("user(id: $id)", Ty::User, &[("id", "ID!")]),
            o("u1: user(id: \"1\")", Ty::User),
            o("users(first: 1, name: \"a b\")", Ty::User),
            o("users2: users(first: -1, name: \"a_b\")", Ty::User),
            ov("users3: users(first: $n, name: \"it's\")", Ty::User, &[("n", "Int")]),
            o("users4: users(name: \"q\\\"q\")", Ty::User),
            o("users5: users(name: \"é\")", Ty::User),
            o("users6: users(first: null)", Ty::User),
            ov("pet(id: $id, input: {name: \"x\", n: 1})", Ty::Pet, &[("id", "ID!")]),
            ov("pet2: pet(id: $id, input: {nested: {a: $n}})", Ty::Pet, &[("id", "ID!"), ("n", "Int")]),
            ov("pet3: pet(id: \"p\", input: $input)", Ty::Pet, &[("input", "PetInput")]),
            o("search(text: \"t\")", Ty::Node),
            // variables with (valid) default values
            ov("ud: users(first: $nd, name: $sd)", Ty::User, &[("nd", "Int = 5"), ("sd", "String = \"x y\"")]),
            ov("pd: pet(id: $idd, input: $pid)", Ty::Pet, &[("idd", "ID! = \"p\""), ("pid", "PetInput = {name: \"x\", n: 1, nested: {a: 2}}")]),
            ov("usersByIds(ids: $ids)", Ty::User, &[("ids", "[ID!]!")]),
            ov("ubi2: usersByIds(ids: $ids, names: $names)", Ty::User, &[("ids", "[ID!]!"), ("names", "[String]")]),
            o("ua: users(name: \"a b\")", Ty::User),
            o("ub: users(name: \"a_b\")", Ty::User),
        ],
        (Ty::User, Menu::Args) => vec![a("id"), a("name"), o("friends(first: 0)", Ty::User), ov("f2: friends(first: $n)", Ty::User, &[("n", "Int")])],
        (Ty::Pet, Menu::Args) => vec![a("id"), a("tag(style: \"s\", n: 1)"), a("t2: tag(style: \"it's\")"), av("t3: tag(n: $n)", &[("n", "Int")]), a("t4: tag(n: -1)")],
        (Ty::Node, Menu::Args) => vec![a("__typename")],

        (_, Menu::Decls) | (_, Menu::Dups) | (_, Menu::DemoMutations) | (_, Menu::Schemas) => vec![a("id")],
        (Ty::Query, Menu::Pointers) => vec![
            o("me", Ty::User),
            Atom { text: "bestUser", child: Some(Ty::User), vars: &[], needs: Some("Query.bestUser") },
            Atom { text: "someNode", child: Some(Ty::Node), vars: &[], needs: Some("Query.someNode") },
            ov("pet(id: $id)", Ty::Pet, &[("id", "ID!")]),
        ],
        (Ty::User, Menu::Pointers) => vec![
            a("id"),
            a("name"),
            Atom { text: "bestPet", child: Some(Ty::Pet), vars: &[], needs: Some("User.bestPet") },
            Atom { text: "friendPtrs", child: Some(Ty::User), vars: &[], needs: Some("User.friendPtrs") },
        ],
        (Ty::Pet, Menu::Pointers) => vec![a("id"), a("name"), Atom { text: "ownerNode", child: Some(Ty::Node), vars: &[], needs: Some("Pet.ownerNode") }, o("owner", Ty::User)],
        (Ty::Node, Menu::Pointers) => vec![a("id"), a("__typename"), o("asUser", Ty::User)],
        (Ty::Stats, Menu::Pointers) => vec![a("score")],
        (Ty::Query, Menu::Lists) => vec![o("me", Ty::User), o("users(first: 1)", Ty::User)],
        (Ty::User, Menu::Lists) => vec![a("id"), a("matrix"), a("rows"), o("grid", Ty::User), a("m2: matrix"), o("friends(first: 1)", Ty::User)],
        (_, Menu::Lists) => vec![a("id")],
        (Ty::Query, Menu::Overlap) => vec![o("me", Ty::User)],
        (Ty::User, Menu::Overlap) => vec![a("id"), a("name"), a("nick"), o("bestFriend", Ty::User), c("UserChild", "User.UserChild")],
        (_, Menu::Overlap) => vec![a("id")],

        (Ty::Query, Menu::ClientArgs) => vec![
            o("me", Ty::User),
            c("PetQ(x: 3)", "Query.PetQ"),
            Atom { text: "pq2: PetQ(x: $m)", child: None, vars: &[("m", "Int")], needs: Some("Query.PetQ") },
            c("pq3: PetQ", "Query.PetQ"),
            ov("user(id: $id)", Ty::User, &[("id", "ID!")]),
            o("nn: node(id: \"1\")", Ty::Node),
        ],
        (Ty::Node, Menu::ClientArgs) => vec![
            a("id"),
            c("NodeArg(m: 3)", "Node.NodeArg"),
            Atom { text: "na2: NodeArg(m: $m)", child: None, vars: &[("m", "Int")], needs: Some("Node.NodeArg") },
            c("na3: NodeArg", "Node.NodeArg"),
        ],
        (Ty::User, Menu::ClientArgs) => vec![
            a("id"),
            c("Friends(n: 1)", "User.Friends"),
            Atom { text: "fr2: Friends(n: $m)", child: None, vars: &[("m", "Int")], needs: Some("User.Friends") },
            c("fr3: Friends", "User.Friends"),
            Atom { text: "WithInput(x: $m)", child: None, vars: &[("m", "Int")], needs: Some("User.WithInput") },
            c("wi2: WithInput(x: 2)", "User.WithInput"),
            c("fr4: Friends(n: 1) @loadable", "User.Friends"),
        ],
        (_, Menu::ClientArgs) => vec![a("id")],

        (Ty::User, Menu::Reuse) => vec![
            a("nick"),
            a("__refetch"),
            a("set_name"),
            Atom { text: "bestPet", child: Some(Ty::Pet), vars: &[], needs: Some("User.bestPet") },
            c("Leaf", "User.Leaf"),
            c("ll: Leaf @loadable", "User.Leaf"),
            o("bestFriend", Ty::User),
        ],
        (Ty::Pet, Menu::Reuse) => vec![a("name"), a("__refetch"), o("owner", Ty::User)],
        (_, Menu::Reuse) => vec![a("id")],

        (Ty::Query, Menu::Cycles) => vec![o("me", Ty::User)],
        (Ty::User, Menu::Cycles) => vec![a("id"), c("A", "User.A"), c("B", "User.B"), o("bestFriend", Ty::User), c("B @loadable", "User.B")],
        (Ty::Pet, Menu::Cycles) | (Ty::Node, Menu::Cycles) => vec![a("id")],

        (Ty::Query, Menu::Abstract) => vec![ov("node(id: $id)", Ty::Node, &[("id", "ID!")]), o("me", Ty::User), ov("pet(id: $id)", Ty::Pet, &[("id", "ID!")])],
        (Ty::Node, Menu::Abstract) => vec![a("id"), a("__typename"), o("asUser", Ty::User), o("asPet", Ty::Pet), c("NodeChild", "Node.NodeChild")],
        (Ty::User, Menu::Abstract) => vec![a("id"), a("name"), a("__typename"), a("__link"), c("UserChild", "User.UserChild"), c("bestPet", "User.bestPet")],
        (Ty::Pet, Menu::Abstract) => vec![a("id"), a("name"), o("owner", Ty::User), a("__link")],
    }
}

#[derive(Debug, Clone, Serialize, Deserialize, PartialEq, Eq)]
pub struct Sel {
    pub atom: usize,
    pub child: Option<Vec<Sel>>,
    /// metamorphic variants: select the same atom under another reader alias
    #[serde(default)]
    pub alias: Option<String>,
    /// metamorphic variants: replace the atom's text (e.g. by a reference to an extracted client field)
    #[serde(default)]
    pub raw: Option<String>,
}

pub fn size(set: &[Sel]) -> usize {
    set.iter().map(|s| 1 + s.child.as_ref().map(|c| size(c)).unwrap_or(0)).sum()
}

/// All selection sets on `ty` with exactly `n` selection nodes in total and nesting <= depth.
/// `avail` filters atoms that need a client field the program does not define.
pub fn selection_sets(ty: Ty, m: Menu, n: usize, depth: usize, avail: &[&str]) -> Vec<Vec<Sel>> {
    let atoms = menu(ty, m);
    fn rec(atoms: &[Atom], m: Menu, from: usize, n: usize, depth: usize, avail: &[&str], out: &mut Vec<Vec<Sel>>, cur: &mut Vec<Sel>) {
        if n == 0 {
            out.push(cur.clone());
            return;
        }
        for i in from..atoms.len() {
            let at = &atoms[i];
            if at.needs.is_some_and(|nd| !avail.contains(&nd)) {
                continue;
            }
            match at.child {
                None => {
                    cur.push(Sel { atom: i, child: None, alias: None, raw: None });
                    rec(atoms, m, i + 1, n - 1, depth, avail, out, cur);
                    cur.pop();
                }
                Some(cty) => {
                    if depth == 0 {
                        continue;
                    }
                    // child takes k nodes (0..=n-1)
                    for k in 0..n {
                        for child in selection_sets(cty, m, k, depth - 1, avail) {
                            cur.push(Sel { atom: i, child: Some(child), alias: None, raw: None });
                            rec(atoms, m, i + 1, n - 1 - k, depth, avail, out, cur);
                            cur.pop();
                        }
                    }
                }
            }
        }
    }
    let mut out = vec![];
    rec(&atoms, m, 0, n, depth, avail, &mut out, &mut vec![]);
    out
}

pub fn render_set(ty: Ty, m: Menu, set: &[Sel], indent: usize, vars: &mut Vec<(&'static str, &'static str)>) -> String {
    let atoms = menu(ty, m);
    let pad = "  ".repeat(indent);
    let mut out = String::from("{\n");
    for s in set {
        let at = &atoms[s.atom];
        for v in at.vars {
            if !vars.contains(v) {
                vars.push(*v);
            }
        }
        out.push_str(&pad);
        out.push_str("  ");
        if let Some(raw) = &s.raw {
            // replaces the selection's own text; a sub-selection set (if kept) is still rendered
            out.push_str(raw);
            if let (Some(ch), Some(cty)) = (&s.child, at.child) {
                out.push(' ');
                out.push_str(&render_set(cty, m, ch, indent + 1, vars));
            }
            out.push('\n');
            continue;
        }
        match &s.alias {
            // replace an existing reader alias, or add one
            Some(al) => match at.text.split_once(": ") {
                Some((head, rest)) if !head.contains('(') => out.push_str(&format!("{al}: {rest}")),
                _ => out.push_str(&format!("{al}: {}", at.text)),
            },
            None => out.push_str(at.text),
        }
        if let Some(ch) = &s.child {
            out.push(' ');
            out.push_str(&render_set(at.child.unwrap(), m, ch, indent + 1, vars));
        }
        out.push('\n');
    }
    out.push_str(&pad);
    out.push('}');
    out
}

/// A declaration of the program.
#[derive(Debug, Clone, Serialize, Deserialize, PartialEq, Eq)]
pub enum Decl {
    Field { ty: Ty, name: String, set: Vec<Sel>, component: bool },
    Pointer { ty: Ty, name: String, to: String, set: Vec<Sel> },
    Entrypoint { ty: Ty, name: String },
    /// a fixed declaration given as literal text
    Raw { export: String, text: String },
    /// a fixed non-exported literal (entrypoint) given as text
    RawBare { text: String },
    /// the whole program is a generated schema + adapted program (see schemagen.rs)
    SchemaVariant { code: usize },
    /// the whole program is a demo project with one token mutated (see demomut.rs)
    DemoMutation { demo: String, target: String, index: usize, mutation: usize },
}

#[derive(Debug, Clone, Serialize, Deserialize, PartialEq, Eq)]
pub struct Program {
    pub menu: Menu,
    pub decls: Vec<Decl>,
}

impl Program {
    /// the literals, each with its export name (None for entrypoints)
    pub fn literals(&self) -> Vec<(Option<String>, String)> {
        self.decls
            .iter()
            .map(|d| match d {
                Decl::Field { ty, name, set, component } => {
                    let mut vars = vec![];
                    let body = render_set(*ty, self.menu, set, 0, &mut vars);
                    let vd = if vars.is_empty() { String::new() } else { format!("({})", vars.iter().map(|(n, t)| format!("${n}: {t}")).collect::<Vec<_>>().join(", ")) };
                    (Some(name.clone()), format!("field {}.{}{}{} {}", ty.name(), name, vd, if *component { " @component" } else { "" }, body))
                }
                Decl::Pointer { ty, name, to, set } => {
                    let mut vars = vec![];
                    let body = render_set(*ty, self.menu, set, 0, &mut vars);
                    let vd = if vars.is_empty() { String::new() } else { format!("({})", vars.iter().map(|(n, t)| format!("${n}: {t}")).collect::<Vec<_>>().join(", ")) };
                    (Some(name.clone()), format!("pointer {}.{}{} to {} {}", ty.name(), name, vd, to, body))
                }
                Decl::Entrypoint { ty, name } => (None, format!("entrypoint {}.{}", ty.name(), name)),
                Decl::Raw { export, text } => (Some(export.clone()), text.clone()),
                Decl::RawBare { text } => (None, text.clone()),
                Decl::DemoMutation { demo, target, index, mutation } => (None, crate::demomut::apply(demo, target, *index, *mutation).1),
                Decl::SchemaVariant { code } => {
                    let (p, d) = crate::schemagen::build(*code);
                    (None, format!("{d} :: {} :: {}", p.files[0].1.replace('\n', " "), p.extension.unwrap_or_default().replace('\n', " ")))
                }
            })
            .collect()
    }

    pub fn project(&self) -> Project {
        if let Some(Decl::SchemaVariant { code }) = self.decls.first() {
            return crate::schemagen::build(*code).0;
        }
        if let Some(Decl::DemoMutation { demo, target, index, mutation }) = self.decls.first() {
            return crate::demomut::apply(demo, target, *index, *mutation).0;
        }
        let lits = self.literals();
        let refs: Vec<(Option<&str>, String)> = lits.iter().map(|(e, l)| (e.as_deref(), l.clone())).collect();
        Project { schema: SCHEMA.to_string(), extension: Some(EXTENSION.to_string()), files: vec![("a.ts".to_string(), source_file(&refs))], options: serde_json::json!({}) }
    }
}

/// Program families (templates) over the enumerated selection sets.
///  * `Single`: `field Query.Root {S}` + `entrypoint Query.Root`, |S| <= k
///  * `Child`: Root selects `me {UserChild ..}`; `field User.UserChild {S}`; child reused under two parents
///  * `Reuse`: the same child with refetchable selections under different siblings (C25), plus a pointer
pub fn programs(m: Menu, k: usize) -> Vec<Program> {
    let mut out = vec![];
    let ep = Decl::Entrypoint { ty: Ty::Query, name: "Root".into() };
    if m == Menu::Cycles {
        // Root selects me { A }; A and B range over all selection sets with <= k nodes each
        let avail = ["User.A", "User.B"];
        let mut sets = vec![];
        for n in 0..=k {
            sets.extend(selection_sets(Ty::User, m, n, 1, &avail));
        }
        let root = vec![Sel { atom: 0, child: Some(vec![Sel { atom: 1, child: None, alias: None, raw: None }]), alias: None, raw: None }];
        for sa in &sets {
            for sb in &sets {
                out.push(Program {
                    menu: m,
                    decls: vec![
                        Decl::Field { ty: Ty::Query, name: "Root".into(), set: root.clone(), component: false },
                        Decl::Field { ty: Ty::User, name: "A".into(), set: sa.clone(), component: false },
                        Decl::Field { ty: Ty::User, name: "B".into(), set: sb.clone(), component: false },
                        ep.clone(),
                    ],
                });
            }
        }
        return out;
    }
    if m == Menu::Schemas {
        for code in 0..crate::schemagen::count() {
            out.push(Program { menu: m, decls: vec![Decl::SchemaVariant { code }] });
        }
        return out;
    }
    if m == Menu::DemoMutations {
        for demo in crate::demomut::DEMOS {
            // github-demo (535 literal tokens, a 61k-token schema) only at level 3
            if demo == "github-demo" && k < 3 {
                continue;
            }
            let d = crate::demomut::load(demo);
            for target in ["literal", "schema"] {
                // the big schemas (github: 61k tokens, vite: 4.7k) only at the higher levels
                let n = crate::demomut::token_count(&d, target);
                if target == "schema" && (n > 10_000 || (n > 1_000 && k < 3)) {
                    continue;
                }
                let muts = crate::demomut::mutation_list(if target == "schema" { k.min(2) } else { k });
                for index in 0..n {
                    for mutation in muts.iter().copied() {
                        out.push(Program { menu: m, decls: vec![Decl::DemoMutation { demo: demo.to_string(), target: target.to_string(), index, mutation }] });
                    }
                }
            }
        }
        return out;
    }
    if m == Menu::Dups {
        let bodies = ["count", "me {\n    id\n  }", "c2: count", "me {\n    name\n  }"];
        for n in 2..=k.max(2).min(4) {
            let mut decls: Vec<Decl> = (0..n).map(|i| Decl::Raw { export: format!("Root{i}"), text: format!("field Query.Root {{\n  {}\n}}", bodies[i]) }).collect();
            decls.push(ep.clone());
            out.push(Program { menu: m, decls: decls.clone() });
            // a second duplicated name, and a duplicated pointer
            let mut d2 = decls.clone();
            d2.insert(1, Decl::Raw { export: "Other0".into(), text: "field User.Other {\n  id\n}".into() });
            d2.push(Decl::Raw { export: "Other1".into(), text: "field User.Other {\n  name\n}".into() });
            out.push(Program { menu: m, decls: d2 });
            let mut d3 = decls;
            d3.push(Decl::Raw { export: "P0".into(), text: "pointer Query.Ptr to User {\n  me {\n    __link\n  }\n}".into() });
            d3.push(Decl::Raw { export: "P1".into(), text: "pointer Query.Ptr to User {\n  me {\n    __link\n    id\n  }\n}".into() });
            out.push(Program { menu: m, decls: d3 });
        }
        return out;
    }
    if m == Menu::Decls {
        // (parent type, a scalar body, a body using $id, a body ending in a linked field to User)
        let parents: [(&str, &str, Option<&str>, Option<&str>); 8] = [
            ("Query", "count", Some("user(id: $id) {\n    id\n  }"), Some("me {\n    __link\n  }")),
            ("User", "id", Some("friends(first: $id) {\n    id\n  }"), Some("bestFriend {\n    __link\n  }")),
            ("Pet", "name", Some("tag(style: $id)"), Some("owner {\n    __link\n  }")),
            ("Node", "id", None, None),
            ("Stats", "rank", None, None),
            ("Mutation", "__typename", Some("set_name(id: $id, name: \"n\") {\n    user {\n      id\n    }\n  }"), None),
            ("SearchResult", "__typename", None, None),
            ("SetNameResponse", "__typename", None, Some("user {\n    __link\n  }")),
        ];
        let vars = ["", "($id: ID!)", "($id: ID)", "($id: Int)", "($id: String, $other: Int)"];
        for (ty, scalar, using, linked) in parents {
            for v in vars {
                for body in [Some(scalar), using].into_iter().flatten() {
                    for dirs in ["", " @component"] {
                        for ep in [0, 1, 2] {
                            let mut decls = vec![Decl::Raw { export: "Zed".into(), text: format!("field {ty}.Zed{v}{dirs} {{\n  {body}\n}}") }];
                            match ep {
                                1 => decls.push(Decl::RawBare { text: format!("entrypoint {ty}.Zed") }),
                                2 => decls.push(Decl::RawBare { text: format!("entrypoint {ty}.Zed @lazyLoad") }),
                                _ => {}
                            }
                            out.push(Program { menu: m, decls });
                        }
                    }
                }
                if let Some(l) = linked {
                    for ep in [0, 1] {
                        let mut decls = vec![Decl::Raw { export: "Ptr".into(), text: format!("pointer {ty}.Ptr{v} to User {{\n  {l}\n}}") }, Decl::Raw { export: "Use".into(), text: format!("field {ty}.Use {{\n  Ptr {{\n    id\n  }}\n}}") }];
                        decls.push(Decl::RawBare { text: format!("entrypoint {ty}.{}", if ep == 0 { "Use" } else { "Ptr" }) });
                        out.push(Program { menu: m, decls });
                    }
                }
            }
        }
        return out;
    }
    if m == Menu::Overlap {
        // Root { me { S1 + UserChild } }, UserChild { S2 }: S1, S2 range over nested sets (depth 2) with <= k nodes
        let mut sets = vec![];
        for n in 1..=k {
            sets.extend(selection_sets(Ty::User, m, n, 2, &[]));
        }
        let mk = |atom: usize, child: Option<Vec<Sel>>| Sel { atom, child, alias: None, raw: None };
        for s1 in &sets {
            for s2 in &sets {
                let mut inner = s1.clone();
                inner.push(mk(4, None));
                out.push(Program {
                    menu: m,
                    decls: vec![Decl::Field { ty: Ty::Query, name: "Root".into(), set: vec![mk(0, Some(inner))], component: false }, Decl::Field { ty: Ty::User, name: "UserChild".into(), set: s2.clone(), component: false }, ep.clone()],
                });
            }
        }
        return out;
    }
    if m == Menu::Pointers {
        let avail = ["Query.bestUser", "Query.someNode", "User.bestPet", "User.friendPtrs", "Pet.ownerNode"];
        let fixed = vec![
            Decl::Raw { export: "bestUser".into(), text: "pointer Query.bestUser to User {\n  users(first: 2) {\n    __link\n    name\n  }\n}".into() },
            Decl::Raw { export: "someNode".into(), text: "pointer Query.someNode to Node {\n  nn: node(id: \"1\") {\n    __link\n  }\n}".into() },
            Decl::Raw { export: "bestPet".into(), text: "pointer User.bestPet to Pet {\n  pets {\n    __link\n  }\n}".into() },
            Decl::Raw { export: "friendPtrs".into(), text: "pointer User.friendPtrs to [User!]! {\n  friends(first: 2) {\n    __link\n  }\n}".into() },
            Decl::Raw { export: "ownerNode".into(), text: "pointer Pet.ownerNode to Node {\n  owner {\n    __link\n  }\n}".into() },
        ];
        for n in 0..=k {
            for set in selection_sets(Ty::Query, m, n, 3, &avail) {
                let mut decls = vec![Decl::Field { ty: Ty::Query, name: "Root".into(), set: set.clone(), component: false }];
                decls.extend(fixed.clone());
                decls.push(ep.clone());
                out.push(Program { menu: m, decls });
                // the same selections reached through a child client field (pointers nested in client fields)
                fn uses_vars(s: &[Sel], t: Ty, m: Menu) -> bool {
                    let atoms = menu(t, m);
                    s.iter().any(|x| !atoms[x.atom].vars.is_empty() || x.child.as_ref().is_some_and(|c| uses_vars(c, atoms[x.atom].child.unwrap(), m)))
                }
                if n > 0 && !uses_vars(&set, Ty::Query, m) {
                    let mut decls = vec![Decl::Raw { export: "Root".into(), text: "field Query.Root {\n  Through\n}".into() }, Decl::Field { ty: Ty::Query, name: "Through".into(), set, component: false }];
                    decls.extend(fixed.clone());
                    decls.push(ep.clone());
                    out.push(Program { menu: m, decls });
                }
            }
        }
        return out;
    }
    if m == Menu::Reuse {
        // UserChild ranges over every selection set with 1..=k nodes (nesting 2); everything else is fixed
        let avail = ["User.bestPet", "User.Leaf"];
        let fixed = vec![
            Decl::Raw { export: "Root".into(), text: "field Query.Root($id: ID!) {\n  me {\n    name\n    UserChild\n  }\n  user(id: $id) {\n    nick\n    UserChild\n    Mid\n  }\n  users(first: 2) {\n    age\n    UserChild\n  }\n}".into() },
            Decl::Raw { export: "Mid".into(), text: "field User.Mid {\n  kind\n  UserChild\n}".into() },
            Decl::Raw { export: "Other".into(), text: "field Query.Other @component {\n  me {\n    homepage\n    UserChild\n    bestFriend {\n      UserChild\n    }\n  }\n}".into() },
            Decl::Raw { export: "Leaf".into(), text: "field User.Leaf {\n  age\n  __refetch\n  bestPet {\n    id\n  }\n}".into() },
            Decl::Raw { export: "bestPet".into(), text: "pointer User.bestPet to Pet {\n  pets {\n    __link\n  }\n}".into() },
        ];
        for n in 1..=k {
            for set in selection_sets(Ty::User, m, n, 2, &avail) {
                let mut decls = fixed.clone();
                decls.push(Decl::Field { ty: Ty::User, name: "UserChild".into(), set, component: n % 2 == 0 });
                decls.push(ep.clone());
                decls.push(Decl::Entrypoint { ty: Ty::Query, name: "Other".into() });
                out.push(Program { menu: m, decls });
            }
        }
        return out;
    }
    if m == Menu::ClientArgs {
        let avail = ["Query.PetQ", "User.Friends", "User.WithInput", "Node.NodeArg"];
        let fixed = vec![
            Decl::Raw { export: "Friends".into(), text: "field User.Friends($n: Int) {\n  friends(first: $n) {\n    id\n  }\n}".into() },
            Decl::Raw { export: "WithInput".into(), text: "field User.WithInput($x: Int) {\n  pets {\n    tag(n: $x)\n  }\n  bestFriend {\n    Friends(n: $x)\n  }\n}".into() },
            // an argument used below an inline fragment, under the same variable name the root uses
            Decl::Raw { export: "NodeArg".into(), text: "field Node.NodeArg($m: Int) {\n  asUser {\n    friends(first: $m) {\n      id\n    }\n  }\n}".into() },
            Decl::Raw { export: "PetQ".into(), text: "field Query.PetQ($x: Int) {\n  pet(id: \"p\", input: {n: $x, nested: {a: $x}}) {\n    id\n  }\n}".into() },
        ];
        for n in 0..=k {
            for set in selection_sets(Ty::Query, m, n, 2, &avail) {
                let mut decls = vec![Decl::Field { ty: Ty::Query, name: "Root".into(), set, component: false }];
                decls.extend(fixed.clone());
                decls.push(ep.clone());
                out.push(Program { menu: m, decls });
            }
        }
        return out;
    }
    // Single
    for n in 0..=k {
        for set in selection_sets(Ty::Query, m, n, 2, &[]) {
            out.push(Program { menu: m, decls: vec![Decl::Field { ty: Ty::Query, name: "Root".into(), set, component: n % 2 == 0 }, ep.clone()] });
        }
    }
    // Child: every child set of size <= k-1 on User, selected through two fixed parents
    let avail = ["User.UserChild"];
    let user_menu = menu(Ty::User, m);
    let child_atom = user_menu.iter().position(|a| a.needs == Some("User.UserChild"));
    if let Some(ci) = child_atom {
        let query_menu = menu(Ty::Query, m);
        let me = query_menu.iter().position(|a| a.text == "me");
        let user = query_menu.iter().position(|a| a.text.starts_with("user("));
        for n in 0..k {
            for set in selection_sets(Ty::User, m, n, 1, &[]) {
                let child = Decl::Field { ty: Ty::User, name: "UserChild".into(), set, component: false };
                let mut root = vec![];
                if let Some(me) = me {
                    root.push(Sel { atom: me, child: Some(vec![Sel { atom: ci, child: None, alias: None, raw: None }]), alias: None, raw: None });
                }
                if let Some(u) = user {
                    root.push(Sel { atom: u, child: Some(vec![Sel { atom: 0, child: None, alias: None, raw: None }, Sel { atom: ci, child: None, alias: None, raw: None }]), alias: None, raw: None });
                }
                out.push(Program { menu: m, decls: vec![Decl::Field { ty: Ty::Query, name: "Root".into(), set: root, component: true }, child, ep.clone()] });
            }
        }
        let _ = avail;
    }
    // a client field on a type without `id`, selected through a linked field (empty merged selections)
    let user_menu = menu(Ty::User, m);
    let stats_menu = menu(Ty::Stats, m);
    if let (Some(me), Some(st), Some(sc)) = (menu(Ty::Query, m).iter().position(|a| a.text == "me"), user_menu.iter().position(|a| a.text == "stats"), stats_menu.iter().position(|a| a.needs == Some("Stats.StatsChild"))) {
        let mk = |atom: usize, child: Option<Vec<Sel>>| Sel { atom, child, alias: None, raw: None };
        for n in 0..k.min(3) {
            for set in selection_sets(Ty::Stats, m, n, 0, &[]) {
                for with_sibling in [false, true] {
                    let mut inner = vec![];
                    if with_sibling {
                        inner.push(mk(0, None));
                    }
                    inner.push(mk(sc, None));
                    let root = vec![mk(me, Some(vec![mk(st, Some(inner))]))];
                    out.push(Program { menu: m, decls: vec![Decl::Field { ty: Ty::Query, name: "Root".into(), set: root, component: false }, Decl::Field { ty: Ty::Stats, name: "StatsChild".into(), set: set.clone(), component: true }, ep.clone()] });
                }
            }
        }
    }
    out
}

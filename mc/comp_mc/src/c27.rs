//! C27 — generated TypeScript types describe the data actually provided.
//!
//! For every accepted program of the families:
//!  (a) every client field whose selection set the generator knows structurally (`Decl::Field`):
//!      `<Type>/<field>/param_type.ts` is parsed with swc; the `data` member of `<Type>__<field>__param`
//!      must have exactly one property per selection, named by the alias or the field name; for a
//!      server field the property's wrappers (`(… | null)`, `ReadonlyArray<…>`) must be exactly the
//!      schema type's (nullable iff nullable, list iff list, at every list level), an object
//!      selection must be an object type that is checked recursively, a scalar selection must not be;
//!  (b) every entrypoint: `raw_response_type.ts` must have exactly the response keys, nesting and
//!      list structure of the operation in `query_text.ts` (parsed with graphql-syntax; inline
//!      fragments yield one alternative per fragment, each with the enclosing fields merged in).
use crate::c09::operation_texts;
use crate::driver::Compiled;
use crate::gql::{Kind, Schema, TypeRef};
use crate::progx::{Decl, Menu, SCHEMA, Sel, Ty, menu};
use crate::sweep::{self, Ctx, Family, ShardStats};
use crate::tsx;
use common::SourceLocationKey;
use graphql_syntax::{ExecutableDefinition, OperationKind, Selection, parse_executable};
use mc_core::*;
use serde_json::json;
use std::collections::BTreeMap;
use swc_ecma_ast::*;

/// The structure of a TypeScript type as far as the property speaks about it.
#[derive(Debug, Clone, PartialEq)]
pub enum Shape {
    Obj(Vec<(String, Shape)>),
    List(Box<Shape>),
    Nullable(Box<Shape>),
    Union(Vec<Shape>),
    Leaf(String),
}

fn key_name(k: &Expr) -> Option<String> {
    match k {
        Expr::Ident(i) => Some(i.sym.to_string()),
        Expr::Lit(Lit::Str(s)) => Some(s.value.to_string()),
        _ => None,
    }
}

fn entity_name(n: &TsEntityName) -> String {
    match n {
        TsEntityName::Ident(i) => i.sym.to_string(),
        TsEntityName::TsQualifiedName(q) => format!("{}.{}", entity_name(&q.left), q.right.sym),
    }
}

pub fn shape(t: &TsType) -> Shape {
    match t {
        TsType::TsParenthesizedType(p) => shape(&p.type_ann),
        TsType::TsTypeLit(l) => Shape::Obj(
            l.members
                .iter()
                .filter_map(|m| match m {
                    TsTypeElement::TsPropertySignature(p) => Some((key_name(&p.key)?, p.type_ann.as_ref().map(|a| shape(&a.type_ann)).unwrap_or(Shape::Leaf("?".into())))),
                    _ => None,
                })
                .collect(),
        ),
        TsType::TsArrayType(a) => Shape::List(Box::new(shape(&a.elem_type))),
        TsType::TsTypeRef(r) => {
            let name = entity_name(&r.type_name);
            if (name == "ReadonlyArray" || name == "Array")
                && let Some(p) = r.type_params.as_ref().and_then(|p| p.params.first())
            {
                return Shape::List(Box::new(shape(p)));
            }
            Shape::Leaf(name)
        }
        TsType::TsUnionOrIntersectionType(TsUnionOrIntersectionType::TsUnionType(u)) => {
            let is_null = |t: &TsType| matches!(t, TsType::TsKeywordType(k) if k.kind == TsKeywordTypeKind::TsNullKeyword);
            let rest: Vec<Shape> = u.types.iter().filter(|t| !is_null(t)).map(|t| shape(t)).collect();
            let nullable = u.types.iter().any(|t| is_null(t));
            let inner = if rest.len() == 1 {
                rest.into_iter().next().unwrap()
            } else if rest.iter().all(|s| matches!(s, Shape::Leaf(_))) {
                Shape::Leaf("union-of-leaves".into())
            } else {
                Shape::Union(rest)
            };
            if nullable { Shape::Nullable(Box::new(inner)) } else { inner }
        }
        TsType::TsKeywordType(k) => Shape::Leaf(format!("{:?}", k.kind)),
        TsType::TsLitType(_) => Shape::Leaf("literal".into()),
        _ => Shape::Leaf("other".into()),
    }
}

/// the type alias named `name` in a module
pub fn alias_shape(src: &str, name: &str) -> Result<Shape, String> {
    let m = tsx::parse(src)?;
    for item in &m.body {
        let decl = match item {
            ModuleItem::ModuleDecl(ModuleDecl::ExportDecl(e)) => &e.decl,
            ModuleItem::Stmt(Stmt::Decl(d)) => d,
            _ => continue,
        };
        if let Decl_::TsTypeAlias(a) = decl
            && a.id.sym == *name
        {
            return Ok(shape(&a.type_ann));
        }
    }
    Err(format!("no type alias {name}"))
}
use swc_ecma_ast::Decl as Decl_;

/// `[alias: ]name[(args)][ @directive]` of a menu atom
fn atom_names(text: &str) -> (Option<String>, String) {
    let head = text.split(['(', ' ', '@']).next().unwrap_or(text);
    // alias form "al: name..."
    if let Some((al, rest)) = text.split_once(": ")
        && !al.contains('(')
        && !al.contains(' ')
    {
        let name = rest.split(['(', ' ', '@']).next().unwrap_or(rest).to_string();
        return (Some(al.to_string()), name);
    }
    (None, head.to_string())
}

/// wrappers of a schema type, outermost first: true = nullable at this level, then list levels
fn expected_shape(t: &TypeRef, inner: Shape) -> Shape {
    fn core(t: &TypeRef, inner: Shape) -> Shape {
        match t {
            TypeRef::NonNull(t) => core(t, inner),
            TypeRef::List(t) => Shape::List(Box::new(expected_shape(t, inner))),
            TypeRef::Named(_) => inner,
        }
    }
    if t.is_non_null() { core(t, inner) } else { Shape::Nullable(Box::new(core(t, inner))) }
}

/// replace every innermost non-wrapper shape by a marker, keeping Nullable/List wrappers
fn wrappers_only(s: &Shape) -> (Shape, &Shape) {
    match s {
        Shape::Nullable(i) => {
            let (w, core) = wrappers_only(i);
            (Shape::Nullable(Box::new(w)), core)
        }
        Shape::List(i) => {
            let (w, core) = wrappers_only(i);
            (Shape::List(Box::new(w)), core)
        }
        other => (Shape::Leaf("·".into()), other),
    }
}

fn describe(s: &Shape) -> String {
    match s {
        Shape::Nullable(i) => format!("({} | null)", describe(i)),
        Shape::List(i) => format!("ReadonlyArray<{}>", describe(i)),
        Shape::Obj(_) => "{…}".into(),
        Shape::Union(v) => v.iter().map(describe).collect::<Vec<_>>().join(" | "),
        Shape::Leaf(l) => l.clone(),
    }
}

fn check_param_set(actual: &Shape, set: &[Sel], ty: Ty, m: Menu, schema: &Schema, path: &str, fails: &mut Vec<(String, String)>, props: &mut u64) {
    let Shape::Obj(members) = actual else {
        fails.push(("param-type:not-an-object".into(), format!("{path}: expected an object type for a selection set, found {}", describe(actual))));
        return;
    };
    let atoms = menu(ty, m);
    let names: Vec<(String, &Sel)> = set
        .iter()
        .map(|s| {
            let text = s.raw.as_deref().unwrap_or(atoms[s.atom].text);
            let (alias, name) = atom_names(text);
            (s.alias.clone().or(alias).unwrap_or(name), s)
        })
        .collect();
    if members.len() != names.len() {
        fails.push(("param-type:property-count".into(), format!("{path}: {} selections {:?} but {} properties {:?}", names.len(), names.iter().map(|n| &n.0).collect::<Vec<_>>(), members.len(), members.iter().map(|m| &m.0).collect::<Vec<_>>())));
    }
    for (prop, sel) in &names {
        *props += 1;
        let Some((_, member)) = members.iter().find(|(k, _)| k == prop) else {
            fails.push(("param-type:missing-property".into(), format!("{path}: no property `{prop}` (properties: {:?})", members.iter().map(|m| &m.0).collect::<Vec<_>>())));
            continue;
        };
        let atom = &atoms[sel.atom];
        let text = sel.raw.as_deref().unwrap_or(atom.text);
        if sel.raw.is_some() || text.contains('@') || text.starts_with("__") {
            continue;
        }
        let (_, field_name) = atom_names(text);
        let (w, core) = wrappers_only(member);
        let is_server = atom.needs.is_none();
        if is_server && let Some(fd) = schema.field(ty.name(), &field_name) {
            // is the schema type's named type composite?
            let want = expected_shape(&fd.ty, Shape::Leaf("·".into()));
            if w != want {
                let class = if describe(&w).matches("ReadonlyArray").count() != describe(&want).matches("ReadonlyArray").count() { "param-type:list-structure" } else { "param-type:nullability" };
                fails.push((class.into(), format!("{path}.{prop}: schema type {} requires {}, the property is {}", fd.ty, describe(&want), describe(&w))));
            }
        }
        match (&sel.child, atom.child) {
            // a client pointer is provided as a loadable field, not as data
            (Some(_), Some(_)) if !is_server => {}
            (Some(child), Some(cty)) => check_param_set(core, child, cty, m, schema, &format!("{path}.{prop}"), fails, props),
            (None, _) if is_server && matches!(core, Shape::Obj(_)) => fails.push(("param-type:scalar-is-object".into(), format!("{path}.{prop}: a scalar selection has an object type"))),
            _ => {}
        }
    }
}

/// expected alternatives of an operation-level selection set: each alternative maps response key -> (field name, sub-selections)
type Alt<'a> = BTreeMap<String, (String, &'a [Selection])>;

fn alternatives<'a>(sels: &'a [Selection]) -> Vec<Alt<'a>> {
    let mut base: Alt<'a> = BTreeMap::new();
    let mut frags: Vec<&'a [Selection]> = vec![];
    for s in sels {
        match s {
            Selection::ScalarField(f) => {
                base.insert(f.alias.as_ref().map(|a| a.alias.value.to_string()).unwrap_or(f.name.value.to_string()), (f.name.value.to_string(), &[]));
            }
            Selection::LinkedField(f) => {
                base.insert(f.alias.as_ref().map(|a| a.alias.value.to_string()).unwrap_or(f.name.value.to_string()), (f.name.value.to_string(), &f.selections.items));
            }
            Selection::InlineFragment(fr) => frags.push(&fr.selections.items),
            Selection::FragmentSpread(_) => {}
        }
    }
    if frags.is_empty() {
        return vec![base];
    }
    let mut out = vec![];
    for f in frags {
        for mut alt in alternatives(f) {
            for (k, v) in &base {
                alt.entry(k.clone()).or_insert_with(|| v.clone());
            }
            out.push(alt);
        }
    }
    out
}

fn type_condition_parents(sels: &[Selection], parent: &str) -> Vec<String> {
    // parent types of the alternatives, in the same order as `alternatives`
    let frags: Vec<&graphql_syntax::InlineFragment> = sels.iter().filter_map(|s| if let Selection::InlineFragment(f) = s { Some(f) } else { None }).collect();
    if frags.is_empty() {
        return vec![parent.to_string()];
    }
    let mut out = vec![];
    for f in frags {
        let p = f.type_condition.as_ref().map(|t| t.type_.value.to_string()).unwrap_or(parent.to_string());
        out.extend(type_condition_parents(&f.selections.items, &p));
    }
    out
}

fn check_raw(actual: &Shape, sels: &[Selection], parent: &str, schema: &Schema, path: &str, fails: &mut Vec<(String, String)>, keys: &mut u64) {
    let alts = alternatives(sels);
    let parents = type_condition_parents(sels, parent);
    let actual_alts: Vec<&Shape> = match actual {
        Shape::Union(v) => v.iter().collect(),
        other => vec![other],
    };
    let keyset = |s: &Shape| -> Option<Vec<String>> {
        if let Shape::Obj(m) = s {
            let mut k: Vec<String> = m.iter().map(|x| x.0.clone()).collect();
            k.sort();
            Some(k)
        } else {
            None
        }
    };
    let mut want: Vec<Vec<String>> = alts.iter().map(|a| a.keys().cloned().collect()).collect();
    let mut got: Vec<Vec<String>> = match actual_alts.iter().map(|s| keyset(s)).collect::<Option<Vec<_>>>() {
        Some(g) => g,
        None => {
            fails.push(("raw-response:nesting".into(), format!("{path}: a field with a selection set has type {}", describe(actual))));
            return;
        }
    };
    want.sort();
    got.sort();
    if let Some(dup) = got.iter().find_map(|g| g.windows(2).find(|w| w[0] == w[1]).map(|w| w[0].clone())) {
        // two selections share one response key (see C12): the type then has the property twice
        fails.push(("raw-response:duplicate-key".into(), format!("{path}: the type has the response key {dup} twice")));
        return;
    }
    if want != got {
        let class = if want.len() != got.len() { "raw-response:alternatives" } else { "raw-response:keys" };
        fails.push((class.into(), format!("{path}: the operation has response keys {want:?}, the type has {got:?}")));
        return;
    }
    for (alt, parent) in alts.iter().zip(parents.iter()) {
        let ks: Vec<String> = alt.keys().cloned().collect();
        let Some(Shape::Obj(members)) = actual_alts.iter().find(|s| keyset(s).as_ref() == Some(&ks)).copied() else { continue };
        for (key, (field, sub)) in alt {
            *keys += 1;
            let member = &members.iter().find(|(k, _)| k == key).unwrap().1;
            let (w, core) = wrappers_only(member);
            if field != "__typename"
                && let Some(fd) = schema.field(parent, field)
            {
                let want_lists = fd.ty.to_string().matches('[').count();
                let got_lists = describe(&w).matches("ReadonlyArray").count();
                if want_lists != got_lists {
                    fails.push(("raw-response:list-structure".into(), format!("{path}.{key}: schema type {} has {want_lists} list level(s), the type has {got_lists}: {}", fd.ty, describe(&w))));
                }
                if sub.is_empty() {
                    if matches!(core, Shape::Obj(_) | Shape::Union(_)) {
                        fails.push(("raw-response:nesting".into(), format!("{path}.{key}: a leaf field has an object type")));
                    }
                } else {
                    check_raw(core, sub, fd.ty.named(), schema, &format!("{path}.{key}"), fails, keys);
                }
            }
        }
    }
}

/// (b): every raw_response_type.ts against the operation in the query_text.ts next to it
pub fn check_raw_responses(arts: &[(String, String)], schema: &Schema, fails: &mut Vec<(String, String)>, keys: &mut u64) {
    for (path, text) in operation_texts(arts) {
        if !path.ends_with("/query_text.ts") {
            continue;
        }
        let Ok(text) = text else { continue };
        let raw_path = path.replace("/query_text.ts", "/raw_response_type.ts");
        let Some((_, src)) = arts.iter().find(|(p, _)| *p == raw_path) else {
            fails.push(("raw-response:missing".into(), format!("{path} has no companion {raw_path}")));
            continue;
        };
        let Ok(doc) = parse_executable(&text, SourceLocationKey::Generated) else { continue };
        let Some(ExecutableDefinition::Operation(op)) = doc.definitions.first() else { continue };
        let root = match op.operation_kind() {
            OperationKind::Query => "Query",
            OperationKind::Mutation => "Mutation",
            OperationKind::Subscription => "Subscription",
        };
        let parts: Vec<&str> = raw_path.split('/').collect();
        let alias = format!("{}__{}__raw_response_type", parts[0], parts[1]);
        match alias_shape(src, &alias) {
            Err(e) => fails.push(("raw-response:unreadable".into(), format!("{raw_path}: {e}"))),
            Ok(s) => check_raw(&s, &op.selections.items, root, schema, &raw_path, fails, keys),
        }
    }
}

pub fn check(ctx: &Ctx<'_>, arts: &[(String, String)], schema: &Schema, stats: &mut ShardStats) -> Vec<(String, String)> {
    let mut fails = vec![];
    let m = ctx.program.menu;
    let mut props = 0;
    let mut keys = 0;
    for d in &ctx.program.decls {
        let Decl::Field { ty, name, set, .. } = d else { continue };
        let path = format!("{}/{}/param_type.ts", ty.name(), name);
        let Some((_, src)) = arts.iter().find(|(p, _)| *p == path) else {
            // a field that nothing reaches may legitimately have no artifacts; C13 covers imports
            continue;
        };
        match alias_shape(src, &format!("{}__{}__param", ty.name(), name)) {
            Err(e) => fails.push(("param-type:unreadable".into(), format!("{path}: {e}"))),
            Ok(Shape::Obj(top)) => match top.iter().find(|(k, _)| k == "data") {
                Some((_, data)) => check_param_set(data, set, *ty, m, schema, &format!("{path}:data"), &mut fails, &mut props),
                None => fails.push(("param-type:no-data-member".into(), format!("{path}: no `data` member"))),
            },
            Ok(other) => fails.push(("param-type:unreadable".into(), format!("{path}: param type is {}", describe(&other)))),
        }
    }
    check_raw_responses(arts, schema, &mut fails, &mut keys);
    *stats.extra.entry("param_properties".into()).or_default() += props;
    *stats.extra.entry("raw_response_keys".into()).or_default() += keys;
    let _ = Kind::Object;
    fails
}

fn oracle(ctx: &Ctx<'_>, stats: &mut ShardStats) -> Vec<(String, String)> {
    thread_local! {
        static SCHEMA_MODEL: Schema = Schema::parse(SCHEMA).unwrap_or_else(|e| machinery_error(&format!("universe schema does not parse: {e}")));
    }
    match ctx.result {
        Compiled::Ok(arts) => {
            let mut fails = SCHEMA_MODEL.with(|s| check(ctx, arts, s, stats));
            // narrow signature for the recorded response-key finding (C12): string arguments that differ only in non-word characters
            let lits = ctx.program.literals().iter().map(|l| l.1.clone()).collect::<Vec<_>>().join("\n");
            if lits.contains("\"a b\"") && lits.contains("\"a_b\"") {
                for f in fails.iter_mut().filter(|f| f.0 == "raw-response:duplicate-key") {
                    f.0 = "raw-response:duplicate-key:strings-differing-only-in-non-word-characters".into();
                }
            }
            fails
        }
        _ => vec![],
    }
}

pub fn main(args: &Args) -> i32 {
    if let Some(sh) = &args.worker {
        sweep::worker(sh, oracle);
        return 0;
    }
    let demo_check = |d: &crate::demos::Demo| {
        let (mut fails, mut keys) = (vec![], 0);
        check_raw_responses(&d.arts, &d.schema, &mut fails, &mut keys);
        if keys == 0 {
            machinery_error(&format!("demo {}: no raw response key checked", d.name));
        }
        fails
    };
    if let Some(code) = crate::demos::replay_if_demo(args, &demo_check) {
        return code;
    }
    if args.replay.is_some() {
        return sweep::replay(args);
    }
    let mut ev = Evidence::new(args, "exploration");
    let families = vec![
        Family { menu: Menu::General, k: args.tier.pick(4, 6) },
        Family { menu: Menu::Args, k: args.tier.pick(3, 5) },
        Family { menu: Menu::Abstract, k: args.tier.pick(4, 6) },
        Family { menu: Menu::ClientArgs, k: args.tier.pick(3, 5) },
        Family { menu: Menu::Pointers, k: args.tier.pick(3, 5) },
        Family { menu: Menu::Overlap, k: args.tier.pick(2, 3) },
        Family { menu: Menu::Lists, k: args.tier.pick(3, 4) },
    ];
    let res = sweep::run(args, families);
    let mut verdict = Verdict::new("C27");
    for v in res.violations {
        verdict.add(v);
    }
    let (demo_violations, demo_artifacts) = crate::demos::violations(&demo_check);
    for v in demo_violations {
        verdict.add(v);
    }
    verdict.violations.sort_by_key(|v| v.what.len());
    let (code, n_new, known) = verdict.conclude("comp_mc/c27");
    ev.violations = n_new as i64;
    let props = res.stats.extra.get("param_properties").copied().unwrap_or(0);
    let keys = res.stats.extra.get("raw_response_keys").copied().unwrap_or(0);
    ev.set("demo_projects", json!(crate::demos::DEMOS)).set("demo_artifacts", demo_artifacts);
    ev.set("evaluations", res.stats.programs)
        .set("distinct_nontrivial", res.stats.accepted)
        .set("rule", "every accepted program of the stated families: (a) param_type.ts of every structurally known client field vs its selection set and the schema (one property per selection, named by alias or name; nullable iff nullable and list iff list at every level for server fields; object selections recursively), (b) raw_response_type.ts of every entrypoint vs the operation text (response keys per inline-fragment alternative, nesting, list levels); types parsed with swc_ecma_parser, operations with graphql-syntax")
        .set("param_properties_checked", props)
        .set("raw_response_keys_checked", keys)
        .set("families", json!(res.families.iter().map(|(f, n)| json!({"menu": format!("{:?}", f.menu), "k": f.k, "programs": n})).collect::<Vec<_>>()))
        .set("accepted", res.stats.accepted)
        .set("samples", json!(res.stats.samples))
        .set("known_findings_reobserved", json!(known))
        .set("exhaustive", true);
    ev.assume("client fields given as raw text (parameterised client fields, pointers) have their param types checked for property names only through the fields that select them; @updatable / @loadable selections and client field references are checked for presence and name, not for type");
    ev.write();
    if props < 1000 || keys < 1000 {
        machinery_error(&format!("vacuous: {props} param properties, {keys} raw response keys checked"));
    }
    println!("comp_mc C27: {} programs ({} accepted), {} param-type properties, {} raw-response keys checked, {} new violation signature(s), known {:?}", res.stats.programs, res.stats.accepted, props, keys, n_new, known);
    code
}

//! Quarantining, poisoning global allocator with a live-range table.
//!
//! While tracking is on, every allocation is recorded in a table of live ranges; on free the
//! block is removed from the table, filled with 0xDD and parked in a quarantine instead of being
//! returned to the system allocator, so that
//!   * `is_live(addr, len)` decides, *before* the harness dereferences a reference handed out by
//!     pico, whether that reference points into freed memory (deterministic use-after-free oracle,
//!     no sanitizer needed), and
//!   * any read of freed memory inside pico itself yields 0xDD garbage deterministically instead
//!     of whatever a recycled block happens to contain.
//! The quarantine is flushed between histories, when no reference obtained during the history
//! survives.

use std::alloc::{GlobalAlloc, Layout, System};
use std::cell::Cell;
use std::collections::BTreeMap;
use std::sync::Mutex;
use std::sync::atomic::{AtomicBool, Ordering};

pub struct Tracking;

static TRACK: AtomicBool = AtomicBool::new(false);
static LIVE: Mutex<BTreeMap<usize, usize>> = Mutex::new(BTreeMap::new());
static QUARANTINE: Mutex<Vec<(usize, usize, usize)>> = Mutex::new(Vec::new());

thread_local! {
    static IN_ALLOC: Cell<bool> = const { Cell::new(false) };
}

unsafe impl GlobalAlloc for Tracking {
    unsafe fn alloc(&self, layout: Layout) -> *mut u8 {
        let p = unsafe { System.alloc(layout) };
        if !p.is_null() && TRACK.load(Ordering::Relaxed) {
            let reentrant = IN_ALLOC.with(|c| c.replace(true));
            if !reentrant {
                LIVE.lock().unwrap().insert(p as usize, layout.size());
                IN_ALLOC.with(|c| c.set(false));
            }
        }
        p
    }

    unsafe fn dealloc(&self, p: *mut u8, layout: Layout) {
        if TRACK.load(Ordering::Relaxed) {
            let reentrant = IN_ALLOC.with(|c| c.replace(true));
            if !reentrant {
                let was_tracked = LIVE.lock().unwrap().remove(&(p as usize)).is_some();
                if was_tracked {
                    unsafe { std::ptr::write_bytes(p, 0xDD, layout.size()) };
                    QUARANTINE.lock().unwrap().push((p as usize, layout.size(), layout.align()));
                    IN_ALLOC.with(|c| c.set(false));
                    return;
                }
                IN_ALLOC.with(|c| c.set(false));
            }
        }
        unsafe { System.dealloc(p, layout) };
    }
}

pub fn start_tracking() {
    TRACK.store(true, Ordering::SeqCst);
}

/// Stop tracking, forget the live table and really free everything that was quarantined.
pub fn stop_and_flush() {
    TRACK.store(false, Ordering::SeqCst);
    LIVE.lock().unwrap().clear();
    let q = std::mem::take(&mut *QUARANTINE.lock().unwrap());
    for (p, size, align) in q {
        unsafe { System.dealloc(p as *mut u8, Layout::from_size_align(size, align).unwrap()) };
    }
}

#[derive(Debug, Clone, Copy, PartialEq, Eq)]
pub enum Liveness {
    Live,
    /// inside a block that was freed during this history
    Freed,
    /// not inside any block allocated during this history (static, stack, or allocated before tracking)
    Unknown,
}

pub fn liveness(addr: usize, len: usize) -> Liveness {
    IN_ALLOC.with(|c| c.set(true));
    let r = {
        let live = LIVE.lock().unwrap();
        if let Some((&start, &size)) = live.range(..=addr).next_back()
            && addr + len <= start + size
        {
            Liveness::Live
        } else {
            let q = QUARANTINE.lock().unwrap();
            if q.iter().any(|&(start, size, _)| addr >= start && addr < start + size.max(1)) {
                Liveness::Freed
            } else {
                Liveness::Unknown
            }
        }
    };
    IN_ALLOC.with(|c| c.set(false));
    r
}

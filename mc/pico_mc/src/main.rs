//! pico_mc — history model checking of the real `pico` crate (C01, C02, C03) and the
//! `#[memo]` key-space check (C04).

mod alloc;
mod explore;
mod keyspace;
mod model;
mod program;

use explore::*;
use mc_core::*;
use serde::{Deserialize, Serialize};
use serde_json::json;
use std::collections::{BTreeMap, BTreeSet};
use std::time::Duration;

#[global_allocator]
static GLOBAL: alloc::Tracking = alloc::Tracking;

#[derive(Debug, Clone, Serialize, Deserialize)]
struct Shard {
    lru: usize,
    root: u8,
    alpha: Alphabet,
    depth: usize,
    prefix: Vec<Op>,
}

fn sweeps(tier: Tier, property: &str) -> Vec<(Alphabet, usize)> {
    use Alphabet::*;
    match (property, tier) {
        ("C01", Tier::Quick) => vec![(Full, 3), (Sources, 4), (Tracked, 5), (InternGc, 4), (Backdate, 6)],
        ("C01", Tier::Thorough) => vec![(Full, 4), (Sources, 6), (Tracked, 6), (InternGc, 5), (Backdate, 8)],
        ("C02", Tier::Quick) => vec![(Full, 3), (Sources, 5), (Tracked, 4), (Backdate, 6)],
        ("C02", Tier::Thorough) => vec![(Full, 4), (Sources, 6), (Tracked, 6), (InternGc, 5), (Backdate, 8)],
        ("C03", Tier::Quick) => vec![(Full, 3), (InternGc, 5), (Tracked, 4)],
        (_, Tier::Thorough) => vec![(Full, 4), (InternGc, 6), (Tracked, 6), (Sources, 5)],
        _ => vec![(Full, 3)],
    }
}

fn worker(shard: &str) {
    quiet_panics();
    let sh: Shard = serde_json::from_str(shard).unwrap_or_else(|e| machinery_error(&format!("bad shard: {e}")));
    let alpha = alphabet(sh.alpha);
    let mut stats = ShardStats::default();
    explore(sh.lru, sh.root, &alpha, &sh.prefix, sh.depth, &mut stats, 200);
    worker_emit(&serde_json::to_value(&stats).unwrap());
}

/// Strip GC and retention from a history (differential attribution: does the failure need a GC?)
fn without_gc(h: &[Op]) -> Vec<Op> {
    h.iter()
        .filter_map(|op| match op {
            Op::Gc | Op::ClearRetain(_) | Op::NeverGc(_) => None,
            Op::Retain(n) => Some(Op::Call(*n)),
            o => Some(*o),
        })
        .collect()
}

/// Attribute a failure to a property and compute its signature.
fn classify(sh: &Shard, hist: &[Op], f: &Failure) -> (String, String) {
    let full: Vec<Op> = root_prefix(sh.root).into_iter().chain(hist.iter().copied()).collect();
    let has_gc = full.iter().any(|o| matches!(o, Op::Gc));
    let needs_gc = if has_gc {
        // differential: the same class of failure without any GC?
        match run_history(sh.lru, 0, &without_gc(&full)) {
            Some(run) => {
                let still = run.failures.iter().any(|g| g.class.replace("-after-gc", "") == f.class.replace("-after-gc", ""));
                finish_run(run);
                !still
            }
            None => true,
        }
    } else {
        false
    };
    let base = f.class.replace("-after-gc", "");
    let prop = match base.as_str() {
        "uaf" | "gc-panic" | "held-ref-panic" | "held-ref-value" => "C03",
        // a wrong value is a C01 violation whether or not a garbage collection is part of the history
        // (C01 quantifies over histories with GC); the signature says whether one is needed
        "wrong-value" | "panic" => "C01",
        _ if needs_gc => "C03",
        "unpermitted-exec" => "C02",
        _ => "MACHINERY",
    };
    let sig = signature(sh, &full, f, &base, needs_gc);
    (prop.to_string(), sig)
}

/// A narrow class for the failure, so that known_findings.json can list one defect without
/// hiding others of the same property.
fn signature(_sh: &Shard, _full: &[Op], f: &Failure, base: &str, needs_gc: bool) -> String {
    match base {
        "uaf" => format!("uaf:{}", f.detail),
        _ => {
            // the node that failed + whether a GC is needed
            let node = f.what.split(|c: char| c == ' ' || c == ':').next().unwrap_or("").to_string();
            let fname = node.split('(').nth(1).unwrap_or("").split(',').next().unwrap_or("").to_string();
            format!("{base}:{fname}{}", if needs_gc { ":needs-gc" } else { "" })
        }
    }
}

fn replay(args: &Args) -> i32 {
    let v = read_replay(args.replay.as_ref().unwrap());
    let case = &v["case"];
    let lru = case["lru"].as_u64().unwrap_or(1) as usize;
    let hist: Vec<Op> = serde_json::from_value(case["history"].clone()).unwrap_or_else(|e| machinery_error(&format!("bad history: {e}")));
    quiet_panics();
    let mut outs = vec![];
    for _ in 0..2 {
        match run_history(lru, 0, &hist) {
            None => machinery_error("replayed history is not contract-respecting"),
            Some(run) => {
                outs.push(run.failures.iter().map(|f| format!("step {} [{}] {}", f.step, f.class, f.what)).collect::<Vec<_>>());
                finish_run(run);
            }
        }
    }
    // addresses differ between runs; compare with hex numbers masked
    let mask = |v: &Vec<String>| v.iter().map(|s| s.split("0x").next().unwrap_or("").to_string()).collect::<Vec<_>>();
    if mask(&outs[0]) != mask(&outs[1]) {
        machinery_error("replay is not deterministic");
    }
    println!("history: {:?}", hist);
    if outs[0].is_empty() {
        println!("REPLAY: no failure");
        0
    } else {
        for l in &outs[0] {
            println!("REPLAY: {l}");
        }
        println!("VIOLATION property={} replay={}", args.property, args.replay.as_ref().unwrap().display());
        1
    }
}

fn main() {
    let args = Args::parse();
    if args.property == "C04" {
        std::process::exit(keyspace::main(&args));
    }
    if !["C01", "C02", "C03"].contains(&args.property.as_str()) {
        machinery_error("pico_mc serves C01 C02 C03 C04");
    }
    if let Some(sh) = &args.worker {
        worker(sh);
        return;
    }
    if args.replay.is_some() {
        std::process::exit(replay(&args));
    }

    let mut ev = Evidence::new(&args, "model_checking");
    // shards: per (lru, root, alphabet) split by first operation
    let mut shards = vec![];
    for (alpha, depth) in sweeps(args.tier, &args.property) {
        let has_gc = alphabet(alpha).contains(&Op::Gc);
        for lru in if has_gc { vec![1usize, 2] } else { vec![1usize] } {
            for root in [0u8, 1] {
                for op in alphabet(alpha) {
                    let sh = Shard { lru, root, alpha, depth, prefix: vec![op] };
                    shards.push(serde_json::to_string(&sh).unwrap());
                }
            }
        }
    }
    let n_shards = shards.len();
    let outcomes = run_pool(&args.property, args.tier, shards, args.jobs, &[], Duration::from_secs(args.tier.pick(600, 7200)));

    quiet_panics();
    let mut verdict = Verdict::new(&args.property);
    let (mut histories, mut prefixes, mut ops, mut execs, mut disc) = (0u64, 0u64, 0u64, 0u64, 0u64);
    let mut obs = BTreeSet::new();
    let mut samples = vec![];
    let mut other_props: BTreeMap<String, usize> = BTreeMap::new();
    let mut per_sweep: BTreeMap<String, (u64, u64)> = BTreeMap::new();
    for o in &outcomes {
        let sh: Shard = serde_json::from_str(&o.shard).unwrap();
        match &o.result {
            None => {
                verdict.add(Violation {
                    signature: format!("worker-crash:{:?}:{:?}", o.exit, o.signal),
                    what: format!("worker died (exit {:?}, signal {:?}, timeout {}) in shard {} :: {}", o.exit, o.signal, o.timed_out, o.shard, o.stderr_tail.lines().last().unwrap_or("")),
                    case: json!({"shard": o.shard}),
                });
            }
            Some(v) => {
                let st: ShardStats = serde_json::from_value(v.clone()).unwrap_or_else(|e| machinery_error(&format!("bad worker result: {e}")));
                histories += st.histories;
                prefixes += st.prefixes;
                ops += st.ops_applied;
                execs += st.executions;
                disc += st.discriminating;
                let e = per_sweep.entry(format!("{:?}/d{}/lru{}/root{}", sh.alpha, sh.depth, sh.lru, sh.root)).or_default();
                e.0 += st.histories;
                e.1 += st.prefixes;
                obs.extend(st.outcomes.iter().copied());
                if samples.len() < 6 {
                    samples.extend(st.samples.iter().take(1).map(|h| json!({"lru": sh.lru, "root": sh.root, "alphabet": format!("{:?}", sh.alpha), "history": h})));
                }
                for (hist, f) in &st.failures {
                    if f.property == "MACHINERY" {
                        machinery_error(&format!("harness trace error on {:?}: {}", hist, f.what));
                    }
                    let (prop, sig) = classify(&sh, hist, f);
                    if prop != args.property {
                        *other_props.entry(prop).or_default() += 1;
                        continue;
                    }
                    let full: Vec<Op> = root_prefix(sh.root).into_iter().chain(hist.iter().copied()).collect();
                    verdict.add(Violation { signature: sig, what: format!("lru={} history={:?}: {}", sh.lru, full, f.what), case: json!({"lru": sh.lru, "history": full}) });
                }
            }
        }
    }
    // shortest counterexample first per signature
    verdict.violations.sort_by_key(|v| v.case["history"].as_array().map(|a| a.len()).unwrap_or(0));
    let (code, n_new, known) = verdict.conclude("pico_mc");
    ev.violations = n_new as i64;
    ev.set("states", prefixes)
        .set("transitions", ops)
        .set("traces_validated_against_impl", prefixes)
        .set("evaluations", histories)
        .set("distinct_nontrivial", disc)
        .set("rule", "every contract-respecting operation history over the stated alphabets up to the stated depth, from an empty and a warmed database, LRU capacity 1 and 2; a state is the history reaching it (no dedup); non-trivial = maximal-depth history in which some call had to return a value different from the same node's previous value or ran after a GC")
        .set("outcomes", obs.len())
        .set("body_executions_observed", execs)
        .set("shards", n_shards)
        .set("sweeps", json!(per_sweep.iter().map(|(k, v)| json!({"sweep": k, "maximal_histories": v.0, "prefixes": v.1})).collect::<Vec<_>>()))
        .set("samples", json!(samples))
        .set("known_findings_reobserved", json!(known))
        .set("failures_attributed_to_other_properties", json!(other_props))
        .set("exhaustive", true);
    ev.assume("the harness's reference evaluator and ideal-engine model (pico_mc/src/model.rs) are correct")
        .assume("memoized bodies are pure functions of their reads (true of the harness program by construction)")
        .assume("use-after-free is detected by a quarantining allocator + liveness check on every reference the harness dereferences, not by a sanitizer");
    ev.write();
    if obs.len() < 20 {
        machinery_error(&format!("vacuous exploration: only {} distinct observation vectors", obs.len()));
    }
    println!("pico_mc {}: {} maximal histories, {} prefixes, {} ops, {} outcomes, {} new violation signature(s), known: {:?}", args.property, histories, prefixes, ops, obs.len(), n_new, known);
    std::process::exit(code);
}

//! The *ideal incremental engine*: a boring reference model of which body executions the
//! property C02 permits, which results C03 requires to survive a garbage collection, and (through
//! `Plain`) what every call must return (C01).
//!
//! It is driven by the same operations as the real database and by the trace of body executions
//! the real database produced; it never decides *when* to execute, it only judges.

use crate::program::{Ev, Node, Plain, Src, Val};
use std::collections::{BTreeMap, BTreeSet};

#[derive(Debug, Clone, PartialEq, Eq)]
pub enum Dep {
    Src(Src, u64),
    Node(Node, u64),
}

#[derive(Debug, Clone)]
pub struct NodeState {
    pub cached: bool,
    pub value: Val,
    /// bumps every time an execution produced a value different from the cached one
    pub vv: u64,
    pub deps: Vec<Dep>,
    pub executions: u64,
}

#[derive(Debug, Clone)]
pub struct InternIdentity {
    /// (owner node, owner execution number, pointee address, pointee node, pointee node's execution number) in registration order
    pub registrations: Vec<(Node, u64, usize, Node, u64)>,
}

#[derive(Debug, Clone, Default)]
pub struct Model {
    pub plain: Plain,
    pub src_version: BTreeMap<Src, u64>,
    pub nodes: BTreeMap<Node, NodeState>,
    /// top-level calls made by the user since the last GC, in order
    pub top_level_calls: Vec<Node>,
    /// LRU of top-level calls as of the last GC, most recent last
    pub lru: Vec<Node>,
    pub lru_capacity: usize,
    pub retained: BTreeMap<Node, usize>,
    pub interned: BTreeMap<String, InternIdentity>,
    pub gcs: u64,
}

/// An execution the model does not permit.
#[derive(Debug, Clone)]
pub struct Unpermitted {
    pub node: Node,
    pub reason: String,
}

impl Model {
    pub fn new(lru_capacity: usize) -> Self {
        Model { lru_capacity, ..Default::default() }
    }

    pub fn bump(&mut self, s: Src) {
        *self.src_version.entry(s).or_insert(0) += 1;
    }
    fn ver(&self, s: Src) -> u64 {
        *self.src_version.get(&s).unwrap_or(&0)
    }

    pub fn is_cached(&self, n: Node) -> bool {
        self.nodes.get(&n).is_some_and(|s| s.cached)
    }

    /// would the ideal engine consider `n` (cached) out of date right now?
    fn dep_changed(&self, d: &Dep) -> Option<String> {
        match d {
            Dep::Src(s, v) => (self.ver(*s) != *v).then(|| format!("source {s:?} changed")),
            Dep::Node(m, v) => {
                let st = self.nodes.get(m)?;
                if !st.cached {
                    return Some(format!("child {m:?} not cached"));
                }
                if st.vv != *v {
                    return Some(format!("child {m:?} changed value"));
                }
                if self.plain.callable(*m) && self.plain.eval(*m) != st.value {
                    return Some(format!("child {m:?} is stale and will change value"));
                }
                None
            }
        }
    }

    /// Register a top-level call made by the user (before it runs).
    pub fn user_call(&mut self, n: Node) {
        self.top_level_calls.push(n);
    }

    /// Consume the trace of one top-level call. Returns the executions that were not permitted.
    pub fn consume(&mut self, trace: &[Ev]) -> Result<Vec<Unpermitted>, String> {
        let mut bad = vec![];
        // stack of (node, new deps)
        let mut stack: Vec<(Node, Vec<Dep>)> = vec![];
        for e in trace {
            match e {
                Ev::Enter(n) => {
                    let permitted = match self.nodes.get(n) {
                        None => Some("never ran".to_string()),
                        Some(st) if !st.cached => Some("not cached".to_string()),
                        Some(st) => st.deps.iter().find_map(|d| self.dep_changed(d)),
                    };
                    if permitted.is_none() {
                        bad.push(Unpermitted { node: *n, reason: "no direct dependency changed and result was cached".to_string() });
                    }
                    stack.push((*n, vec![]));
                }
                Ev::Read(s) => {
                    let v = self.ver(*s);
                    stack.last_mut().ok_or("read outside body")?.1.push(Dep::Src(*s, v));
                }
                Ev::Dep(m) => {
                    let st = self.nodes.get_mut(m).ok_or_else(|| format!("dep on unknown node {m:?}"))?;
                    // the real engine served `m` without executing it although the model had it
                    // dropped at a GC: it evidently kept more than required, which is allowed
                    st.cached = true;
                    let vv = st.vv;
                    stack.last_mut().ok_or("dep outside body")?.1.push(Dep::Node(*m, vv));
                }
                Ev::InternRef(s, addr, pointee) => {
                    let (owner, _) = stack.last().ok_or("intern outside body")?;
                    let exec = self.nodes.get(owner).map(|s| s.executions).unwrap_or(0) + 1;
                    let pexec = self.nodes.get(pointee).map(|s| s.executions).unwrap_or(0);
                    self.interned.entry(s.clone()).or_insert(InternIdentity { registrations: vec![] }).registrations.push((*owner, exec, *addr, *pointee, pexec));
                }
                Ev::Uaf(..) => {}
                Ev::Exit(n, val) => {
                    let (top, deps) = stack.pop().ok_or("exit without enter")?;
                    if top != *n {
                        return Err(format!("trace mismatch: exit {n:?} while in {top:?}"));
                    }
                    let st = self.nodes.entry(*n).or_insert(NodeState { cached: false, value: val.clone(), vv: 0, deps: vec![], executions: 0 });
                    if !(st.cached && st.value == *val) {
                        st.vv += 1;
                    }
                    st.cached = true;
                    st.value = val.clone();
                    st.deps = deps;
                    st.executions += 1;
                }
            }
        }
        if !stack.is_empty() {
            return Err("trace ended inside a body".to_string());
        }
        Ok(bad)
    }

    /// Why may a pointer registered by `intern_ref` for this identity dangle? Used to tell the
    /// recorded findings from any other use-after-free.
    pub fn dangling_class(&self, identity: &str) -> &'static str {
        let Some(id) = self.interned.get(identity) else { return "never-registered" };
        let pointees: BTreeSet<Node> = id.registrations.iter().map(|r| r.3).collect();
        if pointees.len() >= 2 {
            return "equal-value-interned-from-two-nodes";
        }
        let last = id.registrations.last().unwrap();
        let now = self.nodes.get(&last.3).map(|s| s.executions).unwrap_or(0);
        if now > last.4 { "pointee-node-reexecuted-after-interning" } else { "pointee-node-current" }
    }

    pub fn retain(&mut self, n: Node) {
        *self.retained.entry(n).or_insert(0) += 1;
    }
    pub fn clear_retain(&mut self, n: Node) {
        let c = self.retained.get_mut(&n).expect("model: clear of unretained");
        *c -= 1;
        if *c == 0 {
            self.retained.remove(&n);
        }
    }

    /// The set of nodes C03 requires to survive: closure of (LRU within capacity ∪ retained) under
    /// the dependency lists recorded at each node's last execution.
    pub fn gc(&mut self) -> BTreeSet<Node> {
        self.gcs += 1;
        for n in std::mem::take(&mut self.top_level_calls) {
            self.lru.retain(|m| *m != n);
            self.lru.push(n);
            while self.lru.len() > self.lru_capacity {
                self.lru.remove(0);
            }
        }
        let mut keep = BTreeSet::new();
        let mut queue: Vec<Node> = self.lru.iter().copied().chain(self.retained.keys().copied()).collect();
        while let Some(n) = queue.pop() {
            if !keep.insert(n) {
                continue;
            }
            if let Some(st) = self.nodes.get(&n) {
                for d in &st.deps {
                    if let Dep::Node(m, _) = d {
                        queue.push(*m);
                    }
                }
            }
        }
        for (n, st) in self.nodes.iter_mut() {
            if !keep.contains(n) {
                st.cached = false;
            }
        }
        keep
    }
}

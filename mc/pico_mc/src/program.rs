//! The fixed pico program that the history explorer drives: one database with a tracked map,
//! keyed sources, a singleton, and a family of `#[memo]` functions that puts every mechanism named
//! in the anchors of C01–C03 on some path. Every body logs its execution and its reads to a
//! thread-local trace, which is what the ideal-engine model (model.rs) consumes.

use pico::{Database, MemoRef, SourceId, Storage};
use pico_macros::{Db, Singleton, Source, memo};
use serde::{Deserialize, Serialize};
use std::cell::RefCell;
use std::collections::BTreeMap;
use std::num::NonZeroUsize;

#[derive(Default)]
pub struct TMap(pub BTreeMap<u8, SourceId<In>>);

#[derive(Db)]
pub struct TDb {
    pub storage: Storage<Self>,
    #[tracked]
    map: TMap,
}

impl TDb {
    pub fn new(lru: usize) -> Self {
        TDb { storage: Storage::new_with_capacity(NonZeroUsize::new(lru).unwrap()), map: TMap::default() }
    }
    pub fn map_insert(&mut self, k: u8, id: SourceId<In>) {
        self.get_map_mut().tracked().0.insert(k, id);
    }
    pub fn map_remove(&mut self, k: u8) {
        self.get_map_mut().tracked().0.remove(&k);
    }
}

#[derive(Debug, Clone, PartialEq, Eq, Source)]
pub struct In {
    #[key]
    pub key: u8,
    pub val: u8,
}

#[derive(Debug, Clone, PartialEq, Eq, Singleton)]
pub struct Single {
    pub val: u8,
}

pub fn id_of(k: u8) -> SourceId<In> {
    SourceId::new(&In { key: k, val: 0 })
}

fn key_of(id: SourceId<In>) -> u8 {
    for k in 0..4u8 {
        if id_of(k).key == id.key {
            return k;
        }
    }
    255
}

/// Which memoized function.
#[derive(Debug, Clone, Copy, PartialEq, Eq, PartialOrd, Ord, Hash, Serialize, Deserialize)]
pub enum F {
    Leaf,
    Parity,
    DepParity,
    Sing,
    SingPlus,
    SumTracked,
    Owned,
    Borrowed,
    ViaMemoRef,
    Interned,
    Tuple,
    Second,
    Outer,
    /// two parameters, the first shared with its caller and its sibling call: Node(Nth, key * 2 + n)
    Nth,
    /// calls Nth(id, 0) and Nth(id, 1)
    Pair,
}

/// A derived node of the program: function + the (small) argument that identifies the call.
#[derive(Debug, Clone, Copy, PartialEq, Eq, PartialOrd, Ord, Hash, Serialize, Deserialize)]
pub struct Node(pub F, pub u8);

#[derive(Debug, Clone, Copy, PartialEq, Eq, PartialOrd, Ord, Hash, Serialize, Deserialize)]
pub enum Src {
    In(u8),
    Single,
    MapCounter,
}

#[derive(Debug, Clone, PartialEq, Eq)]
pub enum Ev {
    Enter(Node),
    Read(Src),
    /// a child memo call (or tracked lookup of a MemoRef param) made by the body on top of the stack has returned
    Dep(Node),
    /// body interned (by reference) a value with this identity; pointee address; node owning the pointee
    InternRef(String, usize, Node),
    /// body tried to read through an interned pointer that points into freed memory
    Uaf(Node, String),
    Exit(Node, Val),
}

#[derive(Debug, Clone, PartialEq, Eq, Serialize, Deserialize)]
pub enum Val {
    U8(u8),
    Opt(Option<u8>),
    Vec(Vec<u8>),
    Usize(usize),
    Tup(u8, String),
    Str(String),
}

thread_local! {
    pub static TRACE: RefCell<Vec<Ev>> = const { RefCell::new(Vec::new()) };
}

fn ev(e: Ev) {
    TRACE.with(|t| t.borrow_mut().push(e));
}

pub fn take_trace() -> Vec<Ev> {
    TRACE.with(|t| std::mem::take(&mut *t.borrow_mut()))
}

fn read_in(db: &TDb, id: SourceId<In>) -> u8 {
    ev(Ev::Read(Src::In(key_of(id))));
    db.get(id).val
}

fn read_single(db: &TDb) -> Option<u8> {
    ev(Ev::Read(Src::Single));
    db.get_singleton::<Single>().map(|s| s.val)
}

pub fn tuple_string(val: u8) -> String {
    format!("s{}", val % 2)
}

// ---- the memoized program ---------------------------------------------------------------------

#[memo(raw)]
pub fn leaf(db: &TDb, id: SourceId<In>) -> u8 {
    let n = Node(F::Leaf, key_of(id));
    ev(Ev::Enter(n));
    let v = read_in(db, id);
    ev(Ev::Exit(n, Val::U8(v)));
    v
}

#[memo(raw)]
pub fn parity(db: &TDb, id: SourceId<In>) -> u8 {
    let n = Node(F::Parity, key_of(id));
    ev(Ev::Enter(n));
    let l = *leaf(db, id).lookup(db);
    ev(Ev::Dep(Node(F::Leaf, key_of(id))));
    let v = l % 2;
    ev(Ev::Exit(n, Val::U8(v)));
    v
}

/// non-raw on purpose (covers the `&'db T` return path of the macro)
#[memo]
pub fn dep_parity(db: &TDb, id: SourceId<In>) -> u8 {
    let n = Node(F::DepParity, key_of(id));
    ev(Ev::Enter(n));
    let p = *parity(db, id).lookup(db);
    ev(Ev::Dep(Node(F::Parity, key_of(id))));
    let v = p + 10;
    ev(Ev::Exit(n, Val::U8(v)));
    v
}

#[memo(raw)]
pub fn sing(db: &TDb) -> Option<u8> {
    let n = Node(F::Sing, 0);
    ev(Ev::Enter(n));
    let v = read_single(db);
    ev(Ev::Exit(n, Val::Opt(v)));
    v
}

#[memo(raw)]
pub fn sing_plus(db: &TDb, id: SourceId<In>) -> u8 {
    let n = Node(F::SingPlus, key_of(id));
    ev(Ev::Enter(n));
    let s = *sing(db).lookup(db);
    ev(Ev::Dep(Node(F::Sing, 0)));
    let l = *leaf(db, id).lookup(db);
    ev(Ev::Dep(Node(F::Leaf, key_of(id))));
    let v = s.unwrap_or(7) + l;
    ev(Ev::Exit(n, Val::U8(v)));
    v
}

#[memo(raw)]
pub fn sum_tracked(db: &TDb) -> Vec<u8> {
    let n = Node(F::SumTracked, 0);
    ev(Ev::Enter(n));
    ev(Ev::Read(Src::MapCounter));
    let ids: Vec<SourceId<In>> = db.get_map().tracked().0.values().copied().collect();
    let mut out = vec![];
    for id in ids {
        out.push(*leaf(db, id).lookup(db));
        ev(Ev::Dep(Node(F::Leaf, key_of(id))));
    }
    ev(Ev::Exit(n, Val::Vec(out.clone())));
    out
}

#[memo(raw)]
pub fn owned(db: &TDb, x: u8) -> u8 {
    let n = Node(F::Owned, x);
    ev(Ev::Enter(n));
    let s = *sing(db).lookup(db);
    ev(Ev::Dep(Node(F::Sing, 0)));
    let v = x + s.unwrap_or(0);
    ev(Ev::Exit(n, Val::U8(v)));
    v
}

/// non-raw, borrowed non-source parameter
#[memo]
pub fn borrowed(db: &TDb, s: &String) -> usize {
    let n = Node(F::Borrowed, s.len() as u8);
    ev(Ev::Enter(n));
    let x = read_single(db);
    let v = s.len() + x.unwrap_or(0) as usize;
    ev(Ev::Exit(n, Val::Usize(v)));
    v
}

#[memo(raw)]
pub fn via_memo_ref(db: &TDb, m: MemoRef<u8>, k: u8) -> u8 {
    let n = Node(F::ViaMemoRef, k);
    ev(Ev::Enter(n));
    let l = *m.lookup_tracked(db);
    ev(Ev::Dep(Node(F::Leaf, k)));
    let v = l + 1;
    ev(Ev::Exit(n, Val::U8(v)));
    v
}

#[memo(raw)]
pub fn interned(db: &TDb, id: SourceId<In>) -> MemoRef<u8> {
    let n = Node(F::Interned, key_of(id));
    ev(Ev::Enter(n));
    let l = *leaf(db, id).lookup(db);
    ev(Ev::Dep(Node(F::Leaf, key_of(id))));
    let m = db.intern_value(l % 2);
    ev(Ev::Exit(n, Val::U8(l % 2)));
    m
}

#[memo(raw)]
pub fn tuple(db: &TDb, id: SourceId<In>) -> (u8, String) {
    let n = Node(F::Tuple, key_of(id));
    ev(Ev::Enter(n));
    let v = read_in(db, id);
    let out = (v, tuple_string(v));
    ev(Ev::Exit(n, Val::Tup(out.0, out.1.clone())));
    out
}

/// the doc-comment scenario of `intern_ref`: a MemoRef pointing into another node's value
#[memo(raw)]
pub fn second(db: &TDb, id: SourceId<In>) -> MemoRef<String> {
    let n = Node(F::Second, key_of(id));
    ev(Ev::Enter(n));
    let t = tuple(db, id).lookup(db);
    ev(Ev::Dep(Node(F::Tuple, key_of(id))));
    let m = db.intern_ref(&t.1);
    ev(Ev::InternRef(t.1.clone(), &t.1 as *const String as usize, Node(F::Tuple, key_of(id))));
    ev(Ev::Exit(n, Val::Str(t.1.clone())));
    m
}

#[memo(raw)]
pub fn outer(db: &TDb, id: SourceId<In>) -> usize {
    let n = Node(F::Outer, key_of(id));
    ev(Ev::Enter(n));
    let m = *second(db, id).lookup(db);
    ev(Ev::Dep(Node(F::Second, key_of(id))));
    // the body dereferences the interned pointer; the harness cannot interpose here, so the value
    // is read with the liveness check that the harness also uses
    let v = match crate::explore::checked_string(m.lookup(db)) {
        Ok(s) => s.len() + 100,
        Err(e) => {
            // reported as a C03 use-after-free by the harness; keep the value right so that the
            // same defect is not reported a second time as a wrong value
            ev(Ev::Uaf(Node(F::Second, key_of(id)), e));
            tuple_string(db.get(id).val).len() + 100
        }
    };
    ev(Ev::Exit(n, Val::Usize(v)));
    v
}

#[memo(raw)]
pub fn nth(db: &TDb, id: SourceId<In>, n: u8) -> u8 {
    let node = Node(F::Nth, key_of(id) * 2 + n);
    ev(Ev::Enter(node));
    let v = read_in(db, id) + n * 10;
    ev(Ev::Exit(node, Val::U8(v)));
    v
}

/// a call whose inner calls share their first parameter with it and differ in an owned second one
#[memo(raw)]
pub fn pair(db: &TDb, id: SourceId<In>) -> u8 {
    let node = Node(F::Pair, key_of(id));
    ev(Ev::Enter(node));
    let a = *nth(db, id, 0).lookup(db);
    ev(Ev::Dep(Node(F::Nth, key_of(id) * 2)));
    let b = *nth(db, id, 1).lookup(db);
    ev(Ev::Dep(Node(F::Nth, key_of(id) * 2 + 1)));
    let v = a + b;
    ev(Ev::Exit(node, Val::U8(v)));
    v
}

// ---- reference evaluator: the same functions, from scratch, over plain data --------------------

#[derive(Debug, Clone, Default, PartialEq, Eq)]
pub struct Plain {
    pub ins: BTreeMap<u8, u8>,
    pub single: Option<u8>,
    pub map: std::collections::BTreeSet<u8>,
}

impl Plain {
    pub fn eval(&self, n: Node) -> Val {
        let Node(f, a) = n;
        let inv = |k: u8| *self.ins.get(&k).expect("reference evaluator: contract violated by the driver");
        match f {
            F::Leaf => Val::U8(inv(a)),
            F::Parity => Val::U8(inv(a) % 2),
            F::DepParity => Val::U8(inv(a) % 2 + 10),
            F::Sing => Val::Opt(self.single),
            F::SingPlus => Val::U8(self.single.unwrap_or(7) + inv(a)),
            F::SumTracked => Val::Vec(self.map.iter().map(|k| inv(*k)).collect()),
            F::Owned => Val::U8(a + self.single.unwrap_or(0)),
            F::Borrowed => Val::Usize(a as usize + self.single.unwrap_or(0) as usize),
            F::ViaMemoRef => Val::U8(inv(a) + 1),
            F::Interned => Val::U8(inv(a) % 2),
            F::Tuple => Val::Tup(inv(a), tuple_string(inv(a))),
            F::Second => Val::Str(tuple_string(inv(a))),
            F::Outer => Val::Usize(tuple_string(inv(a)).len() + 100),
            F::Nth => Val::U8(inv(a / 2) + (a % 2) * 10),
            F::Pair => Val::U8(2 * inv(a) + 10),
        }
    }
    /// does evaluating `n` need In(k) to be present?
    pub fn callable(&self, n: Node) -> bool {
        match n.0 {
            F::Sing | F::Owned | F::Borrowed => true,
            F::SumTracked => self.map.iter().all(|k| self.ins.contains_key(k)),
            F::Nth => self.ins.contains_key(&(n.1 / 2)),
            _ => self.ins.contains_key(&n.1),
        }
    }
}
